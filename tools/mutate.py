#!/usr/bin/env python3
"""Self-test: apply a code mutant to /repo, run a check, undo the mutant.

usage: mutate.py <property> [--tier quick] [mutant.json | patch.diff ...]   (default: all of mutants/<property>/ and seeded/*/ for the property)
A mutant is JSON {"file":..., "old":..., "new":..., "why":...} (one textual replacement) or a unified diff.
Prints one line per mutant: KILLED (check exit 1), SURVIVED (exit 0), or ERROR (exit 2 / does not apply).
"""
import glob, json, os, subprocess, sys
V = os.path.dirname(os.path.dirname(os.path.abspath(__file__)))
REPO = os.environ.get('VERIF_REPO', '/repo')

def clean():
    subprocess.run(['git', '-C', REPO, 'checkout', '--', '.'], check=True)

def apply(m):
    if m.endswith('.json'):
        j = json.load(open(m))
        reps = j['edits'] if 'edits' in j else [j]
        for r in reps:
            p = os.path.join(REPO, r['file'])
            s = open(p).read()
            if s.count(r['old']) != 1:
                return 'pattern occurs %d times in %s' % (s.count(r['old']), r['file'])
            open(p, 'w').write(s.replace(r['old'], r['new']))
        return None
    p = subprocess.run(['git', '-C', REPO, 'apply', m], stdout=subprocess.PIPE, stderr=subprocess.STDOUT, text=True)
    return p.stdout if p.returncode else None

def main():
    prop = sys.argv[1]
    args = sys.argv[2:]
    tier = 'quick'
    if '--tier' in args:
        i = args.index('--tier'); tier = args[i + 1]; del args[i:i + 2]
    muts = args or sorted(glob.glob(os.path.join(V, 'mutants', prop, '*')))
    if not args:
        for meta in sorted(glob.glob(os.path.join(V, 'seeded', '*', 'meta.json'))):
            if prop in json.load(open(meta)).get('property', ''):
                muts.append(os.path.join(os.path.dirname(meta), 'patch.diff'))
    assert subprocess.run(['git', '-C', REPO, 'status', '--porcelain'], stdout=subprocess.PIPE, text=True).stdout.strip() == '', 'repo not clean'
    res = {}
    for m in muts:
        try:
            err = apply(m)
            if err:
                res[m] = 'ERROR(apply: %s)' % err.strip()[:200]
                print('%-60s %s' % (os.path.relpath(m, V), res[m]), flush=True)
                continue
            b = subprocess.run(['go', 'build', './...'], cwd=REPO, env=dict(os.environ, GOFLAGS='-mod=mod', GOPROXY='off', GOSUMDB='off'),
                               stdout=subprocess.PIPE, stderr=subprocess.STDOUT, text=True)
            if b.returncode:
                res[m] = 'ERROR(does not compile)'
                print('%-60s %s' % (os.path.relpath(m, V), res[m]), flush=True)
                continue
            p = subprocess.run([os.path.join(V, 'check'), prop, '--tier', tier, '--replay-none'] if False else [os.path.join(V, 'check'), prop, '--tier', tier],
                               cwd=V, stdout=subprocess.PIPE, stderr=subprocess.STDOUT, text=True,
                               env=dict(os.environ, VERIF_NO_EVIDENCE='1', VERIF_SKIP_MODEL='1'))
            v = [l for l in p.stdout.splitlines() if l.startswith('VIOLATION')]
            res[m] = {0: 'SURVIVED', 1: 'KILLED'}.get(p.returncode, 'ERROR(rc %d)' % p.returncode)
            if p.returncode == 1:
                detail = [l for l in p.stdout.splitlines() if 'is false on the real code' in l][:1]
                res[m] += '  ' + (detail[0][:220] if detail else '')
            elif p.returncode != 0:
                res[m] += '  ' + p.stdout[-400:].replace('\n', ' | ')
        finally:
            clean()
        print('%-60s %s' % (os.path.relpath(m, V), res[m]), flush=True)
    killed = sum(1 for r in res.values() if r.startswith('KILLED'))
    print('%d/%d killed' % (killed, len(res)))

if __name__ == '__main__':
    main()
