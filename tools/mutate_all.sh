#!/bin/sh
# Self-test of the code-side machinery: every mutant and seeded change of every property (tools/mutate.py), one summary line each.
# usage: tools/mutate_all.sh [property ...]        (VERIF_REPO selects the repository copy to mutate; default /repo)
cd "$(dirname "$0")/.."
props="$*"
[ -z "$props" ] && props="C01 C02 C03 C04 C05 C06 C07 C08 C09 C10 C11 C12 C13 C14 C15 C16 C17 C18 C19 C20"
for p in $props; do
  [ -d mutants/$p ] || ls seeded | grep -q "^$p-" || continue
  echo "== $p"
  python3 tools/mutate.py $p 2>&1 | cut -c1-260
done
