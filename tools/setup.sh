#!/bin/sh
# Framework setup after a fresh restore (offline): check the tools, parse every specification module,
# and warm the Go build cache by compiling the in-package harnesses from /repo's working tree.
set -e
cd "$(dirname "$0")/.."
command -v java >/dev/null && command -v go >/dev/null && command -v python3 >/dev/null
python3 tools/gen_manifest.py --check
python3 - <<'PY'
import sys, os, glob, subprocess, shutil
sys.path.insert(0, '.')
from vf import tlc, gobuild
d = tlc.stage()
bad = 0
for f in sorted(glob.glob(os.path.join(d, '*.tla'))):
    p = subprocess.run(['java', '-cp', tlc.JAR, 'tla2sany.SANY', os.path.basename(f)], cwd=d,
                       stdout=subprocess.PIPE, stderr=subprocess.STDOUT, text=True)
    if p.returncode != 0 or 'error' in p.stdout.lower().replace('errors: 0', ''):
        if 'Semantic errors' in p.stdout or 'Parse Error' in p.stdout or 'Fatal' in p.stdout or p.returncode != 0:
            print('SANY FAILED', f); print(p.stdout[-1500:]); bad += 1
shutil.rmtree(d, ignore_errors=True)
d = tlc.scratch('vf-setup-')
for pkg in gobuild.PKGS:
    if glob.glob(os.path.join(gobuild.HARNESS, pkg, '*_test.go')):
        b, t = gobuild.build(pkg, d)
        print('harness', pkg, 'built in %.1fs' % t)
shutil.rmtree(d, ignore_errors=True)
sys.exit(1 if bad else 0)
PY
echo setup ok
