#!/usr/bin/env python3
"""Confirm a seeded change produced in a scratch worktree and file it under /verif/seeded/<name>/.

usage: ingest_seed.py <property> <worktree> [<name>]
Confirms (in a fresh scratch worktree of /repo): the patch applies, the code compiles, the existing tests pass, the demonstration
fails with the patch and passes without it.  Then runs ./check <property> on /repo with the patch applied and records the verdict.
"""
import json, os, shutil, subprocess, sys, tempfile
V = os.path.dirname(os.path.dirname(os.path.abspath(__file__)))
REPO = os.environ.get('VERIF_REPO', '/repo')   # the working tree the patch is applied to and the check runs against
ENV = dict(os.environ, GOFLAGS='-mod=mod', GOPROXY='off', GOSUMDB='off', GOTOOLCHAIN='local')


def sh(cmd, cwd, timeout=1500):
    p = subprocess.run(cmd, cwd=cwd, env=ENV, shell=isinstance(cmd, str), stdout=subprocess.PIPE, stderr=subprocess.STDOUT, text=True, timeout=timeout)
    return p.returncode, p.stdout


def main():
    prop, wt = sys.argv[1], sys.argv[2]
    seed = os.path.join(wt, '_seed')
    meta = json.load(open(os.path.join(seed, 'meta.json')))
    name = sys.argv[3] if len(sys.argv) > 3 else '%s-%s' % (prop, os.path.basename(wt.rstrip('/')))
    dst = os.path.join(V, 'seeded', name)
    os.makedirs(dst, exist_ok=True)
    for f in os.listdir(seed):
        shutil.copy(os.path.join(seed, f), dst)
    patch = os.path.join(dst, 'patch.diff')
    ran = []
    scratch = tempfile.mkdtemp(prefix='seedchk-')
    wt2 = os.path.join(scratch, 'wt')
    sh(['git', '-C', '/repo', 'worktree', 'add', '-q', wt2, 'HEAD'], '/')
    try:
        pkg = meta.get('package_dir', '').replace(wt.rstrip('/') + '/', '').strip('/')
        demo = [f for f in os.listdir(dst) if f.endswith('_test.go')]
        for f in demo:
            shutil.copy(os.path.join(dst, f), os.path.join(wt2, pkg, 'zz_seed_' + f))
        rc0, out0 = sh('go test -vet=off -count=1 -run . ./%s/ 2>&1 | tail -5' % pkg, wt2)
        ok_without = 'FAIL' not in out0 and 'ok' in out0
        ran.append('demo without patch: %s' % ('pass' if ok_without else 'FAIL'))
        rc, out = sh(['git', 'apply', patch], wt2)
        if rc:
            ran.append('patch does not apply: ' + out[:300])
        rcb, outb = sh('go build ./...', wt2)
        ran.append('build with patch: %s' % ('ok' if rcb == 0 else 'FAIL'))
        rc1, out1 = sh('go test -vet=off -count=1 -run . ./%s/ 2>&1 | tail -5' % pkg, wt2)
        fails_with = 'FAIL' in out1
        ran.append('demo with patch: %s' % ('fails (as required)' if fails_with else 'passes (NOT a demonstration)'))
        for f in demo:
            os.remove(os.path.join(wt2, pkg, 'zz_seed_' + f))
        rc2, out2 = sh('go test -vet=off -count=1 ./... 2>&1 | grep -v "no test files" | tail -5', wt2)
        suite_ok = 'FAIL' not in out2
        ran.append('existing suite with patch: %s' % ('passes' if suite_ok else 'FAIL'))
    finally:
        sh(['git', '-C', '/repo', 'worktree', 'remove', '--force', wt2], '/')
        shutil.rmtree(scratch, ignore_errors=True)
    confirmed = ok_without and fails_with and suite_ok and rcb == 0
    verdict = None
    detail = ''
    if confirmed:
        assert sh('git -C %s status --porcelain' % REPO, '/')[1].strip() == '', 'repo not clean'
        try:
            rc, out = sh(['git', '-C', REPO, 'apply', patch], '/')
            p = subprocess.run([os.path.join(V, 'check'), prop, '--tier', 'quick'], cwd=V, env=dict(os.environ, VERIF_NO_EVIDENCE='1'),
                               stdout=subprocess.PIPE, stderr=subprocess.STDOUT, text=True)
            verdict = {0: 'MISSED', 1: 'DETECTED'}.get(p.returncode, 'ERROR rc %d' % p.returncode)
            d = [l for l in p.stdout.splitlines() if 'is false on the real code' in l][:2]
            detail = ' | '.join(x[:300] for x in d) if d else p.stdout[-300:]
        finally:
            sh('git -C %s checkout -- .' % REPO, '/')
    meta.update({'property': prop, 'confirmed': confirmed, 'confirmation': ran, 'check_quick': verdict, 'check_detail': detail})
    json.dump(meta, open(os.path.join(dst, 'meta.json'), 'w'), indent=1)
    print(name, 'confirmed' if confirmed else 'NOT CONFIRMED', ran, '->', verdict, detail[:300])


if __name__ == '__main__':
    main()
