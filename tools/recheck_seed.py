#!/usr/bin/env python3
"""Re-run the check of a filed seeded change: recheck_seed.py <seed-dir-name> [...]  (all if none given)."""
import glob, json, os, subprocess, sys
V = os.path.dirname(os.path.dirname(os.path.abspath(__file__)))
REPO = os.environ.get('VERIF_REPO', '/repo')   # the working tree the patch is applied to and the check runs against
names = sys.argv[1:] or sorted(os.path.basename(d) for d in glob.glob(os.path.join(V, 'seeded', '*')) if os.path.isdir(d))
for n in names:
    d = os.path.join(V, 'seeded', n)
    m = json.load(open(os.path.join(d, 'meta.json')))
    prop = m['property'].split(',')[0]
    assert subprocess.run('git -C %s status --porcelain' % REPO, shell=True, stdout=subprocess.PIPE, text=True).stdout.strip() == '', 'repo not clean'
    try:
        subprocess.run(['git', '-C', REPO, 'apply', os.path.join(d, 'patch.diff')], check=True)
        p = subprocess.run([os.path.join(V, 'check'), prop, '--tier', 'quick'], cwd=V, env=dict(os.environ, VERIF_NO_EVIDENCE='1'),
                           stdout=subprocess.PIPE, stderr=subprocess.STDOUT, text=True)
        verdict = {0: 'MISSED', 1: 'DETECTED'}.get(p.returncode, 'ERROR rc %d' % p.returncode)
        det = [l for l in p.stdout.splitlines() if 'is false on the real code' in l][:2]
        m['check_quick'] = verdict
        m['check_detail'] = ' | '.join(x[:300] for x in det) if det else p.stdout[-300:]
    finally:
        subprocess.run('git -C %s checkout -- .' % REPO, shell=True)
    json.dump(m, open(os.path.join(d, 'meta.json'), 'w'), indent=1)
    print(n, verdict, m['check_detail'][:160])
