#!/usr/bin/env python3
"""Framework build-time tool: derive attack scripts (shortest counterexamples of mutant models).

usage: gen_attacks.py <Module> <property-id> <mutant> [<mutant> ...]
Writes /verif/spec/attacks/<property-id>/<Module>-<mutant>.json
"""
import json, os, sys
sys.path.insert(0, os.path.dirname(os.path.dirname(os.path.abspath(__file__))))
from vf import tlc, tlaval


def main():
    module, prop, muts = sys.argv[1], sys.argv[2], sys.argv[3:]
    outdir = os.path.join(tlc.SPEC, 'attacks', prop)
    os.makedirs(outdir, exist_ok=True)
    for m in muts:
        d = tlc.stage()
        opts = []
        if '@' in m:
            m, o = m.split('@', 1)
            opts = o.split(';')
        cfg = open(os.path.join(d, 'Attack_%s.cfg' % module)).read()
        live = False
        for o in opts:
            if o == 'live':
                live = True
                continue
            a, b = o.split('=>')
            assert a in cfg, a
            cfg = cfg.replace(a, b)
        if live:
            import re
            cfg = re.sub(r'INVARIANTS.*\n', '', cfg)
            cfg = re.sub(r'PROPERTIES .*', 'PROPERTIES Convergence', cfg).replace('VIEW View\n', '')
        if m.startswith('unfix:'):
            cfg = cfg.replace('@MUT@', '').replace('@FIXED@', 'FxNo' + m[6:].capitalize())
        else:
            cfg = cfg.replace('@MUT@', m).replace('@FIXED@', 'AllFixed')
        open(os.path.join(d, 'a.cfg'), 'w').write(cfg)
        r = tlc.run(d, 'Attack_%s' % module, 'a.cfg', workers=8, timeout=900, heap='12g')
        if not r.trace:
            print(m, 'NO COUNTEREXAMPLE', r.violated, r.generated, r.distinct, r.wall)
            print(r.stdout[-800:])
            continue
        steps = [tlaval.plain(s['state']['act']) for s in r.trace[1:] if 'act' in s['state']]
        if 'abs' in r.trace[0]['state']:
            for st, s in zip(steps, [x for x in r.trace[1:] if 'act' in x['state']]):
                st['mh'] = len(tlaval.plain(s['state']['abs'])) - 1
        extra = {}
        if 'ptip' in r.trace[0]['state']:
            extra['ptip'] = tlaval.plain(r.trace[0]['state']['ptip'])
            steps = [tlaval.plain(s['state']['act']) for s in r.trace[1:] if 'act' in s['state']]
        json.dump(dict({'id': 'attack-%s' % m.replace(':', '-'), 'mutant': m, 'violates': r.violated, 'steps': steps}, **extra),
                  open(os.path.join(outdir, '%s-%s.json' % (module, m.replace(':', '-'))), 'w'), indent=1)
        print(m, r.violated, len(steps), 'steps', r.distinct, 'states', '%.1fs' % r.wall)
        import shutil; shutil.rmtree(d, ignore_errors=True)


if __name__ == '__main__':
    main()
