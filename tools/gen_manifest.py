#!/usr/bin/env python3
"""Writes /verif/MANIFEST.json from the table below (single source of truth); --check validates only."""
import json, os, sys
V = os.path.dirname(os.path.dirname(os.path.abspath(__file__)))

HOOK_COMMITS = ['e6b7f67', 'dbf5f1c', 'f21fdb3', 'd0a927c', '0af5427']

CHECKS = {
 'C13': dict(
    engine='BlockRequests',
    category='model_checking',
    text='Explicit TLA+ reference model of the block request window (spec/BlockRequests.tla) checked exhaustively by TLC '
         'for small constants; TLC-generated call sequences (simulation at the code\'s constants W=10/100MB plus shortest '
         'counterexamples of 11 mutant models) are replayed on the real state.State; TLC then validates every recorded call, '
         'return value and state against the model (strict trace validation) and evaluates the C13 formulas on every '
         'recorded implementation state. The property is stated as step-by-step agreement with a reference queue, so '
         'model checking the reference plus trace validation of the code is the matching level. Added: spec/BlockLoop.tla - what the real headers handler, block handler and processBlocks loop (parked at its named point) write to the connection as getdata(block): each block once, in chain order, at most W outstanding; and a batch of ChainSync traces (adversarial environment, mixed headers messages) judged by RequestsInFlight (every unfilled block of the window has its request or answer under way).',
    design_ref='DESIGN.md 5.1, 6 (C13)',
    note='Trusted: TLC, the overlay accessor that reads the window under state.lock, the stub wire.Block (size only). '
         'Exhaustive only for W<=4 on the model; W=10 reached by generated behaviours, not exhaustively.',
    technique='TLA+ reference model + TLC exhaustive check + TLC trace validation of replayed call sequences'),
 'C09': dict(
    engine='BlockStore',
    category='model_checking',
    text='TLA+ contract (abstract list of headers; spec/BlockStoreC.tla) and code-layer model of the block repository '
         '(spec/BlockStore.tla: cache, files of K headers, hash->height map, revert/load/save arithmetic, GetHeaders/BlockHash), '
         'checked exhaustively by TLC against the contract for K=3. TLC-simulated call sequences (K=4, both storage back ends) '
         'and attack scripts are replayed on the real BlockRepository at real scale (1000 headers per file) through a height '
         'map (4 variants placing model heights at file offsets 0,1,2,500,997,998,999); after every call ~115 real queries '
         'are recorded. TLC recomputes the abstract chain from the recorded calls and requires every recorded answer to '
         'equal the abstract answer (verdict), and validates results/answers against the code-layer model (conformance).',
    design_ref='DESIGN.md 5.2, 6 (C09)',
    note='Trusted: TLC, MockStorage behind a recording wrapper, the height map (real heights between mapped ones are filled '
         'but never queried), header identity by hash. Sequences are bounded (<=14 headers created, heights <=13 in model units).',
    technique='TLA+ refinement model (contract vs code layer) + TLC exhaustive check + trace validation of replayed call sequences at real scale'),
 'C01': dict(
    engine='ChainSync',
    category='model_checking',
    text='TLA+ specification of header/block synchronisation (spec/ChainSync.tla: header handler per header, block handler, the three '
         'critical sections of block processing, check(), locator, time-out reconnect, process restart, Bitcoin peer, network). TLC checks '
         'Convergence (liveness, fairness per message/request) on the as-is model in the calm environment and the safety invariants with '
         'the repair switches of the known findings on. TLC-simulated behaviours (calm, racy, reordering+duplication; 7- and 14-block trees; '
         'restarts) and target-state witnesses are replayed step by step on the real handlers/check()/ProcessBlock (parked at a natural gate), '
         'each run is driven to quiescence including time-outs, and TLC evaluates Convergence/InSyncNotifyOK on the recorded real states '
         'and validates every recorded step against the specification.',
    design_ref='DESIGN.md 5.3, 6 (C01), 7',
    note='Verdict only from real-code traces. Known findings F1, F23, F24, F27, F28 (known_findings.txt) are identified by history predicates '
         '(checks/signatures.py). Liveness is exhaustive only for the calm environment and a 7-block tree; handlers atomic per message.',
    technique='TLA+ spec + TLC (safety, liveness) + schedule replay on real code with trace validation'),
 'C02': dict(
    engine='ChainSync',
    category='model_checking',
    text='Same specification and replay driver as C01 with adversarial input from the trusted connection (arbitrary short headers lists incl. an '
         'unknown header, block messages with matching or non-matching body, requested or not, duplicates, reordering). TLC checks Linked, '
         'NoDupChain, GrowsAtTip on the model (known findings repaired); on the real code after every step the chain is re-read through '
         'Hash(h) for every height and Height/Contains for every block, and Linked, NoDupChain, GrowsAtTip, Inverse, AnnouncedContiguous are '
         'evaluated by TLC on the recorded states.',
    design_ref='DESIGN.md 5.3, 6 (C02)',
    note='Known finding F2 (revert while a block is between tip check and add) identified by a history predicate. Adversarial headers lists are '
         'bounded to two headers in the exhaustive model.',
    technique='TLA+ spec + TLC invariants/action properties + adversarial schedule replay with trace validation'),
 'C12': dict(
    engine='ChainSync',
    category='model_checking',
    text='Chain part of C12: block messages of an untrusted connection (matching and non-matching body for outstanding requests) are delivered '
         'through the real untrusted message handlers into runs of a well-behaved trusted peer; the chain invariants must hold and every run must '
         'still converge. TLC checks the same on the model (safety, and Convergence in the calm environment). Added: spec/UntrustedPeer.tla - one untrusted connection as its read loop (check / receive alternation), verification against the stored chain, gating, peer score, broadcast; the real UntrustedNode.monitorIncoming runs over an in-memory connection, parked at two named points.',
    design_ref='DESIGN.md 5.11, 6 (C12)',
    note='Covers the untrusted block path (the stall F4, fixed). Untrusted headers verification, inv and tx (vouching) are covered by the '
         'TxPipeline/TxRequests checks where built; see DESIGN.md.',
    technique='TLA+ spec + TLC + schedule replay through the real untrusted handlers'),
 'C03': dict(
    engine='TxPipeline',
    category='model_checking',
    text='TLA+ specification of transaction tracking (spec/TxPipeline.tla: mempool, outpoint index, unconfirmed repository, tx state records, consumer split at the mempool add, block processing, safe-delay checker, restart) checked exhaustively by TLC (AtMostOnceNew, NoIrrelevant, Complete, ConfirmedHasProof ...). TLC-simulated histories (all sources, duplicates, re-announcement after confirmation, restart, racing consumer) are replayed on the real handlers/SendTx/processUnconfirmedTx/ProcessBlock; TLC evaluates exactly-once, completeness, no-irrelevant and the spent-outputs fact on the recorded notifications and validates each step against the specification.',
    design_ref='DESIGN.md 5.4, 6 (C03)',
    note='Verdict only from real-code traces (projection of mempool, outpoint index, unconfirmed set, tx state records, notifications). Known finding F10 (block processed while the consumer is between mempool add and repository add) identified by a history predicate. Universes of 3-4 transactions; consumer/block/checker atomic except at the hook utx.afterMempool.',
    technique='TLA+ spec + TLC exhaustive invariants + schedule replay on the real node with trace validation'),
 'C05': dict(
    engine='TxPipeline',
    category='model_checking',
    text='Same specification and driver; the anchor invariant IndexExact (outpoint index = spenders with a body) is checked on the model and on the projected real mempool after every step, together with ConflictsFlagged, NoFalseFlag and StickyUnsafe over the recorded notifications, for 2-way/3-way conflicts and partial overlaps in every arrival order interleaved with confirmations and evictions.',
    design_ref='DESIGN.md 5.4, 6 (C05)',
    note='Verdict only from real-code traces (projection of mempool, outpoint index, unconfirmed set, tx state records, notifications). Known finding F10 (block processed while the consumer is between mempool add and repository add) identified by a history predicate. Universes of 3-4 transactions; consumer/block/checker atomic except at the hook utx.afterMempool.',
    technique='TLA+ spec + TLC exhaustive invariants + schedule replay on the real node with trace validation'),
 'C06': dict(
    engine='TxPipeline',
    category='model_checking',
    text='Same specification and driver; CancelOnConfirm is evaluated at every processed block of the real node: each delivered unconfirmed transaction that conflicts with a transaction of the block must get, in that step, an update marked cancelled+unsafe+not safe and leave the mempool, the block must advance the chain and deliver proofs for its own relevant transactions (independently verified).',
    design_ref='DESIGN.md 5.4, 6 (C06)',
    note='Verdict only from real-code traces (projection of mempool, outpoint index, unconfirmed set, tx state records, notifications). Known finding F10 (block processed while the consumer is between mempool add and repository add) identified by a history predicate. Universes of 3-4 transactions; consumer/block/checker atomic except at the hook utx.afterMempool.',
    technique='TLA+ spec + TLC exhaustive invariants + schedule replay on the real node with trace validation'),
 'C07': dict(
    engine='TxPipeline',
    category='model_checking',
    text='Same specification and driver with time: clock ticks shift the stored timestamps, one iteration of the real checkTxDelays is run per Checker step. SafeOnlyWarranted (a safe report only for local submission or for a transaction that was trusted, conflict-free and past the delay before the step), SafeEventually, SafeOnce, NeverBoth, CancImpliesUnsafe, StickyUnsafe are evaluated by TLC on the recorded notifications and projected state.',
    design_ref='DESIGN.md 5.4, 6 (C07)',
    note='Verdict only from real-code traces (projection of mempool, outpoint index, unconfirmed set, tx state records, notifications). Known finding F10 (block processed while the consumer is between mempool add and repository add) identified by a history predicate. Universes of 3-4 transactions; consumer/block/checker atomic except at the hook utx.afterMempool.',
    technique='TLA+ spec + TLC exhaustive invariants + schedule replay on the real node with trace validation'),
 'C11': dict(
    engine='TxPipeline',
    category='model_checking',
    text='Same specification and driver; a clean stop/start (save, new Node on the same storage) is an action of the model. RestartKeeps (unconfirmed flags and first-seen time, tx states, no notification), AtMostOnceNew and SafeOnce across the restart, confirmation after restart delivering an update with proof, and StoredCopy (GetTx returns the delivered transaction) are evaluated on the real traces.',
    design_ref='DESIGN.md 5.10, 6 (C11)',
    note='Verdict only from real-code traces (projection of mempool, outpoint index, unconfirmed set, tx state records, notifications). Known finding F10 (block processed while the consumer is between mempool add and repository add) identified by a history predicate. Universes of 3-4 transactions; consumer/block/checker atomic except at the hook utx.afterMempool.',
    technique='TLA+ spec + TLC exhaustive invariants + schedule replay on the real node with trace validation'),
 'C04': dict(
    engine='TxPipeline',
    category='model_checking',
    text='State-machine part in TLA+ (spec/TxPipeline.tla: proofs aligned with the relevant transactions of a block, new vs update, depth 0, '
         'ConfirmedHasProof; checked exhaustively) plus a TLA+ enumeration of block shapes (spec/ProofCases.tla: sizes 1..9, 16, 17, every class '
         'assignment up to size 5, one or two relevant positions beyond; classes relevant-unseen / relevant-unconfirmed / irrelevant-unseen / '
         'irrelevant-seen) with the notification each transaction must get. Every shape is realised as a real block on the real node; each '
         'delivered merkle proof is verified by an independent verifier against the header the node holds at that height and the true index; '
         'bodies corrupted under the unchanged header (add/drop/swap/alter) must be rejected. TLC (Props_ProofCases) judges the recorded traces.',
    design_ref='DESIGN.md 5.4, 6 (C04)',
    note='The hash function is outside TLA+: the model carries tree shape and alignment, hash validity is a Go-side fact produced by the '
         'independent verifier. quick samples a quarter of the larger shapes (all small ones); thorough runs all 1352.',
    technique='TLA+ case enumeration + TLC judgement of replayed real blocks with an independent proof verifier'),
 'C14': dict(
    engine='TxRequests',
    category='model_checking',
    text='TLA+ specification of transaction requesting (spec/TxRequests.tla: MemPool.AddRequest with the 3 s window, per-connection TxTracker, '
         'inventory handlers, body arrival, periodic Check, confirmation clean-up) checked exhaustively by TLC (Exclusive, NoneAfterBody, Rerequest, '
         'Forgotten, TrackedOrAsked). TLC-simulated histories over a trusted and two untrusted connections (real UntrustedNode objects driven '
         'without sockets) are replayed on the real handlers, trackers and mempool with timestamp shifting; every getdata is recorded with its '
         'connection and time; TLC evaluates the formulas on the recorded history and validates each step against the specification. Added: bulk replay (every txid of the specification stands for a group of 120 real transactions; all members must be treated alike) and the action ConfirmOos (the confirming block is processed while out of sync). Added: TxBurst - the model\'s atomicity assumption for MemPool.AddRequest is checked on the real code with the same inventory arriving on three real connections at the same moment and their periodic checks running at the same moment (ConcurrentExclusive, ConcurrentAsked).',
    design_ref='DESIGN.md 5.5, 6 (C14)',
    note='Connections are stepped sequentially (no concurrent goroutines in this check). F20 (final partial getdata never sent) and F17 (tracker '
         'stopped after reconnect) were repaired.',
    technique='TLA+ spec + TLC exhaustive + replay with trace validation'),
 'C10': dict(
    engine='BlockStore',
    category='fault_enumeration',
    text='Model: TLC checks CrashSafe on spec/BlockStore.tla (after any prefix of the storage mutations of Save / roll-over / Revert the surviving '
         'files load to a prefix of the abstract chain). Code: storage mutations are recorded while TLC-simulated scenarios are replayed; for '
         'EVERY prefix of the mutation log the surviving image is materialised and loaded by fresh real code. Store level (real 1000-header files, '
         'both back ends, 4 height maps): the loaded chain must be a prefix of the chain before/after the interrupted call, and after growing '
         'across file boundaries, saving and reloading nothing stale may come back. Node level (ChainSync scenarios: sync, reorg, time-out '
         'reconnect, clean restart): a new node must load the image, hold a linked chain on one branch and converge to the peer again; and every '
         'single storage operation is made to fail once, after which memory or a restart must be consistent. Added: spec/HeaderSync.tla - the '
         'header-only sync before the start block across block-file roll-overs (run-length chain, exhaustive at 3 headers per file, the same module '
         'validates traces of the real headers handler / BlockRepository at 1000 per file with 2050 headers): the next write fails once, crash / '
         'restart / time-out at any step; FaultRecoverable, LoadOK, CrashLinked on the real memory and on what a new node loads after every step.',
    design_ref='DESIGN.md 5.10, 6 (C10), 14.2',
    note='No torn writes (a mutation is atomic); MockStorage behind a recording/fault-injecting wrapper; node-level scenarios live in one block '
         'file (7-block tree), file-boundary crash points are covered at store level and by HeaderSync for the header-only region.',
    technique='TLA+ model invariant (TLC) + exhaustive crash-point / single-fault enumeration over recorded storage mutations of replayed scenarios'),
 'C08': dict(
    engine='FilterCases',
    category='model_checking',
    text='Declarative TLA+ specification of the subscription filter (spec/FilterCases.tla: scripts as token sequences with an optional malformed tail, '
         'bag of subscribed hashes with raw/hash equivalence, contract flag and action output). TLC enumerates every case up to the bound with its '
         'expected verdict; each case is realised as bytes in several encodings (direct push, PUSHDATA1/2/4, small-integer and other opcodes, '
         'truncations) and run through the real Subscribe/Unsubscribe calls and IsRelevant; TLC (Props_Filter) compares verdicts and crash status.',
    design_ref='DESIGN.md 5.6, 6 (C08)',
    note='Exhaustive over abstract cases (length <= 3 quick / 4 thorough); bytes per token are representative encodings; the hash function and the '
         'Tokenized action parser are trusted libraries.',
    technique='declarative TLA+ spec + TLC case enumeration with expected verdicts + comparison against the real filter'),
 'C16': dict(
    engine='RemoteClient',
    category='model_checking',
    text='TLA+ specification of the remote client against a scripted service (spec/RemoteClient.tla: registration list in arrival order, send buffer '
         'that waits for the handshake, stale registrations of abandoned calls, routing per kind and key, rejects, time-outs, drops) checked '
         'exhaustively by TLC (Correlated, RespondIsolated, Answered, TimeoutIsolated; RejectSurfaces on the repaired model). TLC-simulated '
         'scenarios and directed ones (every kind with crossed answers, late duplicates, answers for other keys, time-out then retry) are run '
         'against the real RemoteClient.Run() with all its goroutines and a loop-back service; TLC evaluates the formulas on the recorded '
         'observations and validates every step against the specification. The outputs lookup is a declarative TLA+ specification '
         '(spec/OutputsCases.tla) enumerated by TLC into every outpoint list up to the bound with its expected result and compared with the real GetOutputs.',
    design_ref='DESIGN.md 5.8, 6 (C16), 14',
    note='Known finding F11d (a Reject without a hash - GetHeaders, GetFeeQuotes - cannot be routed). F11a/F11b repaired. Steps are separated by a '
         'marker message that has passed the client\'s routing and handler goroutines, not by wall-clock time; time-outs are real (2.5 s).',
    technique='TLA+ spec + TLC exhaustive + scenario replay against the real client with trace validation; TLA+ case enumeration for GetOutputs'),
 'C17': dict(
    engine='RemoteClient',
    category='model_checking',
    text='Same specification and driver: notification ids 1..5 in any order (repeated, skipped, out of order), before and after the accept, across '
         'drops and re-declared Ready. TLC checks NotifyP / ReadyP / DropP / QuietP on the model; on the real client TLC evaluates NotifyInOrder '
         '(delivered iff accepted and id = next; next = id + 1), ReadySetsNext, ResumePointSurvives, NotifyAllInOrder (in-sync and headers '
         'notifications in order), NothingElseDelivered and HandlersAgree (two registered handlers see the same sequence) after every step. Added: spec/HandlerQueue.tla - a held / slow application handler, backlog across a reconnect; every notification carries the service\'s send number and the handler must see them in that order. Added: action Stall of spec/ReceiveBacklog.tla (the application stays stuck for longer than the message channel time-out behind a full handler queue): CountedAreDelivered model-checked on SpecStall and evaluated on the real client driven with a 400 ms time-out (found F43, repaired).',
    design_ref='DESIGN.md 5.8, 6 (C17), 14',
    note='F21 (tx data delivered before the accept) repaired. One scripted service; handler callbacks are recorded under a mutex in callback order.',
    technique='TLA+ spec + TLC exhaustive + scenario replay against the real client with trace validation'),
 'C18': dict(
    engine='RemoteClient',
    category='model_checking',
    text='Same specification and driver: the service answers the real Register (signature checked by the harness) with a valid AcceptRegister or '
         'one of four forgeries (wrong key, key for another hash, signature by another key, counts altered after signing; the signed hash is '
         'computed by the harness, not by the code under test); application calls are issued before, between and after accept and ready, for both '
         'connection types, with drops and stops. TLC checks Gated, AcceptP, FlushP, WrittenP on the model; on the real client TLC evaluates Gated '
         '(every non-handshake message the service receives arrives after the handshake of that connection), AcceptedOnlyIfValid, RegisterSigned, '
         'FlushedWithHandshake and AnsweredOnlyIfWritten on what the service actually received, per connection, after every step. Added: '
         'spec/ReceiveBacklog.tla - the client\'s receive queue, message loop and handler queue with a blocked loop (handler held, 104 chain tips), '
         'teardown and connect as separate steps; DataAfterAccept (data reaches the handlers only if the service had accepted, earlier, the connection '
         'it sent the data on) and AcceptOnce are model-checked and evaluated on what the real handlers saw; strict trace validation of every step.',
    design_ref='DESIGN.md 5.8, 6 (C18), 14, 14.1',
    note='F33 (queued requests written to a connection that failed authentication / was stopped) found by this check and repaired. The connection '
         'shutdown is slowed by 5 ms at the verif hook conn.teardown so that goroutines woken by it run before the socket closes.',
    technique='TLA+ spec + TLC exhaustive + scenario replay against the real client with trace validation'),
 'C19': dict(
    engine='NodeLifecycle',
    category='model_checking',
    text='TLA+ specification of the node life cycle at the level of what the peer, the handlers, the caller of Stop, the phase hooks of the run loop '
         'and the storage observe (spec/NodeLifecycle.tla: connect loop, handshake, header/block sync, relevant txs, loss of the connection with '
         'phased shutdown and restart, Stop, a handler call-back held in the middle of a block with the shutdown waiting for it). TLC checks '
         'SavedAtStop, SavedAtRestart, StopReturns and the step properties exhaustively. TLC-simulated scenarios (Stop held back 0/4/8/12 steps) and '
         'directed scenarios stopping at every protocol phase are run against the real Node.Run() with all its goroutines and a scripted Bitcoin peer '
         'over real loop-back TCP (accept, close, reset); TLC evaluates on the recorded observations: StopTerminates (Stop returns within 5 s, Run '
         'returns), SavedAtStop / SavedAtRestart (what a fresh process loads from storage equals what was processed: chain tip, unconfirmed txs, '
         'peers), SilentAfterStop (no call-back after Stop returned), ResumeFromTip (the first block locator of a new connection names the stored '
         'tip), NoReannounce (announced heights are consecutive over reconnects), PhaseOrder; and validates every step against the specification. Added: action Feed (a client thread blocked in Node.HandleTx on the full tx channel while the shutdown wants to close it).',
    design_ref='DESIGN.md 5.9, 6 (C19), 14',
    note='No untrusted peers and no silent peer (time-outs of minutes) are scripted; the goroutines of a connection are assumed started before a '
         'stop is requested. F19 (a failing tx consumer with a full channel blocks the shutdown) needs an environment fault outside the '
         'property\'s quantifier and is described in DESIGN.md only.',
    technique='TLA+ spec + TLC exhaustive + scenario replay against the real Run()/Stop() over loop-back TCP with trace validation'),
 'C15': dict(
    engine='WireStream',
    category='model_checking',
    text='TLA+ specification of the client protocol as a byte stream (spec/WireStream.tla: the type table of 37 codes and names with its one-to-one '
         'ASSUME, a writer appending messages identified by type code and value class, a reader consuming them, prefix cuts; invariants Framing, '
         'PrefixFails, Clean checked by TLC). Every (type, value class) singleton - 37 message types plus the stored transaction record, 5 classes placing '
         'list lengths, byte lengths and integers at the varint width boundaries and switching optional fields - and TLC-simulated streams of up to 8 '
         'messages are run through the real Serialize / Deserialize (SaveTxState / FetchTxState for the stored record) on a real byte stream; TLC evaluates '
         'RoundTrip (structural and byte-for-byte equality), ExactConsumption, Framing, PrefixFails (every strict prefix fails with an error) on the recorded '
         'operations, compares the code\'s type table (PayloadForType, names, each payload\'s own Type()) with the specification\'s, and validates every operation against the specification.',
    design_ref='DESIGN.md 5.7, 6 (C15), 14',
    note='Model-based verification adds the stream/framing state machine, the type table and the case enumeration; value fidelity itself is sampled by classes, '
         'not proved for all representable values (see DESIGN.md on the limits of the technique for this property). Known finding F37 (dependency: BSOR '
         'uint64 >= 2^63 in send_expanded_tx).',
    technique='TLA+ stream/framing spec + TLC + replay of generated streams through the real codecs with trace validation'),
 'C20': dict(
    engine='WireStream',
    category='model_checking',
    text='The Hostile action of spec/WireStream.tla (the decoder answers with a value or an error; invariant Clean) and the TLC enumeration of hostile cases '
         '(spec/WireCases.tla: 38 types x 2 value classes x 4 lies, 4 stored record kinds x 6 lies). The harness writes the lie (a count or length claiming '
         '65535 / 2^32-1 / 2^63 / 2^64-1 elements, for stored records also -1 and 2^31-1) over every position of the valid encoding, with the tail kept and cut, '
         'and decodes every input with the real decoders / repository loaders in child processes with a 3 GiB address space; panics are recovered and '
         'counted, the allocation of each decode is measured, a killed child is attributed to its input. TLC (Props_WireHostile) judges NoPanic, Terminates, AllocBounded.',
    design_ref='DESIGN.md 5.7, 6 (C20), 14',
    note='F12 (13 message decoders and the peers / reorg record parsers allocated by claimed counts: panics and out-of-memory kills) found and repaired. Known '
         'finding F12b: the transaction decoder of the dependency tokenized/pkg/wire still allocates by claimed counts (not repairable in this repository). '
         'Inputs are single-position mutations of valid encodings, not all byte strings.',
    technique='TLA+ case enumeration + TLC judgement of decodes run in memory-limited child processes'),
}

NOT_YET = {}

def manifest():
    props = [json.loads(l)['id'] for l in open(os.path.join(V, 'properties.jsonl'))]
    checks = []
    for pid in props:
        if pid not in CHECKS:
            continue
        c = CHECKS[pid]
        checks.append({
            'property_id': pid,
            'quick_cmd': './check %s --tier quick' % pid,
            'thorough_cmd': './check %s --tier thorough' % pid,
            'evidence_file': 'evidence/%s.json' % pid,
            'replay_cmd_template': './check %s --replay {path}' % pid,
            'engine': c['engine'],
            'level_claimed': {'category': c['category'], 'text': c['text'], 'design_ref': c['design_ref']},
            'level_note': c['note'],
            'technique': c['technique'],
        })
    na = [{'property_id': p, 'reason': NOT_YET.get(p, 'check not built yet in this session (work in progress, see DESIGN.md section 12)')}
          for p in props if p not in CHECKS]
    engines = {}
    for pid, c in CHECKS.items():
        engines.setdefault(c['engine'], []).append(pid)
    return {
        'version': 1,
        'setup_cmd': './tools/setup.sh',
        'hooks': {
            'guard': 'verif',
            'enable': 'go test -c -tags verif -vet=off -overlay=<generated: adds /verif/harness/<pkg>/*.go to the package> ./<pkg>/',
            'baseline_off_cmd': 'cd /repo && GOFLAGS=-mod=mod GOPROXY=off GOSUMDB=off GOTOOLCHAIN=local go test -json -vet=off -count=1 -timeout 25m ./...',
            'source_commits': HOOK_COMMITS,
            'add_only': True,
        },
        'engines': [{'name': n, 'path': 'spec/%s.tla' % n, 'serves_properties': sorted(ps),
                     'kind_free_text': 'TLA+ module + TLC (model check, simulation, trace validation) + in-package Go replay harness'}
                    for n, ps in sorted(engines.items())],
        'checks': checks,
        'not_applicable': na,
        'notes': 'All checks: exit 0 = property held on everything explored; exit 1 + VIOLATION line; exit 2 = infrastructure '
                 'failure (no verdict). Known findings: known_findings.txt. Seeded changes: seeded/.',
    }

def validate(m):
    try:
        import jsonschema
    except ImportError:
        return True
    jsonschema.validate(m, json.load(open('/root/.vp/MANIFEST.schema.json')))
    return True

if __name__ == '__main__':
    p = os.path.join(V, 'MANIFEST.json')
    if '--check' in sys.argv:
        m = json.load(open(p)); validate(m); print('MANIFEST ok:', len(m['checks']), 'checks'); sys.exit(0)
    m = manifest(); validate(m)
    json.dump(m, open(p, 'w'), indent=1)
    print('wrote', p, len(m['checks']), 'checks,', len(m['not_applicable']), 'not applicable')
