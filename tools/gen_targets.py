#!/usr/bin/env python3
"""Framework build-time tool: witness scripts for target states of the FAITHFUL model.

usage: gen_targets.py <Module> <property-id> [--cfg "a=>b;..."] <name>=<TLA state predicate> ...
TLC searches the faithful model (MC_<Module>_quick.cfg + substitutions) for a shortest behaviour reaching a state
that satisfies the predicate (the precondition of a potential defect); the behaviour is stored as a script under
spec/attacks/<property-id>/<Module>-target-<name>.json and replayed on the real code in every check run.
"""
import json, os, re, sys
sys.path.insert(0, os.path.dirname(os.path.dirname(os.path.abspath(__file__))))
from vf import tlc, tlaval


def main():
    module, prop = sys.argv[1], sys.argv[2]
    args = sys.argv[3:]
    subst = {}
    if args and args[0] == '--cfg':
        for o in args[1].split(';'):
            a, b = o.split('=>')
            subst[a] = b
        args = args[2:]
    outdir = os.path.join(tlc.SPEC, 'attacks', prop)
    os.makedirs(outdir, exist_ok=True)
    for t in args:
        name, pred = t.split('=', 1)
        then = []
        if ' >> ' in pred:
            pred, th = pred.split(' >> ', 1)
            then = [x.strip() for x in th.split(',')]
        d = tlc.stage()
        open(os.path.join(d, 'Target.tla'), 'w').write(
            '---- MODULE Target ----\nEXTENDS MC_%s\nNotTarget == ~(%s)\nTSpec == Init /\\ [][Next]_vars\n====\n' % (module, pred))
        cfg = open(os.path.join(d, 'MC_%s_quick.cfg' % module)).read()
        for a, b in subst.items():
            assert a in cfg, a
            cfg = cfg.replace(a, b)
        cfg = re.sub(r'INVARIANTS.*\n', 'INVARIANTS NotTarget\n', cfg)
        cfg = re.sub(r'PROPERTIES .*\n', '', cfg).replace('SPECIFICATION Spec', 'SPECIFICATION TSpec')
        open(os.path.join(d, 't.cfg'), 'w').write(cfg)
        r = tlc.run(d, 'Target', 't.cfg', workers=8, timeout=900, heap='12g')
        if not r.trace:
            print(name, 'NOT REACHABLE', r.violated, r.distinct, '%.1fs' % r.wall)
            if r.kind == 'error':
                print(r.stdout[-1200:])
            continue
        steps = [tlaval.plain(s['state']['act']) for s in r.trace[1:] if 'act' in s['state']]
        for a in then:
            if steps:
                e = json.loads(json.dumps(steps[0]))
                e.update({'a': a, 't': 0, 'k': False})
                steps.append(e)
        extra = {}
        if 'ptip' in r.trace[0]['state']:
            extra['ptip'] = tlaval.plain(r.trace[0]['state']['ptip'])
        json.dump(dict({'id': 'target-%s' % name, 'target': pred, 'steps': steps}, **extra),
                  open(os.path.join(outdir, '%s-target-%s.json' % (module, name)), 'w'), indent=1)
        print(name, len(steps), 'steps', r.distinct, 'states', '%.1fs' % r.wall)
        import shutil; shutil.rmtree(d, ignore_errors=True)


if __name__ == '__main__':
    main()
