package state

import (
	"bufio"
	"context"
	"encoding/json"
	"os"
	"testing"

	"github.com/tokenized/pkg/bitcoin"
	"github.com/tokenized/pkg/wire"
)

// vblk is a block whose only relevant attribute is its serialized size.
type vblk struct{ id, sz int }

const vUnit = 25000000 // one model size unit = 25 MB (maxPendingBlockSize is 100 MB: paused when pend > 4 units)

func (b *vblk) GetHeader() wire.BlockHeader     { return wire.BlockHeader{} }
func (b *vblk) IsMerkleRootValid() bool         { return true }
func (b *vblk) GetTxCount() uint64              { return 0 }
func (b *vblk) GetNextTx() (*wire.MsgTx, error) { return nil, nil }
func (b *vblk) ResetTxs()                       {}
func (b *vblk) SerializeSize() int              { return b.sz * vUnit }

func vIdHash(id int) bitcoin.Hash32 {
	var h bitcoin.Hash32
	h[0] = byte(id)
	h[1] = byte(id >> 8)
	h[31] = 0xAA
	return h
}
func vHashID(h bitcoin.Hash32) int { return int(h[0]) | int(h[1])<<8 }

type vReqP struct {
	B  int `json:"b"`
	F  int `json:"f"`
	Sz int `json:"sz"`
}
type vStP struct {
	Req       []vReqP `json:"req"`
	ToReq     []int   `json:"toReq"`
	Pend      int     `json:"pend"`
	LastSaved int     `json:"lastSaved"`
}

func vProject(s *State) vStP {
	req, toReq, last, pend := s.VerifProject()
	p := vStP{Req: []vReqP{}, ToReq: []int{}, Pend: pend / vUnit, LastSaved: vHashID(last)}
	if pend%vUnit != 0 {
		p.Pend = -1000000 - pend // not a whole number of units: make it visible
	}
	for _, r := range req {
		e := vReqP{B: vHashID(r.Hash)}
		if r.Filled {
			e.F = 1
			e.Sz = r.Size / vUnit
		}
		p.Req = append(p.Req, e)
	}
	for _, h := range toReq {
		p.ToReq = append(p.ToReq, vHashID(h))
	}
	return p
}

type vStep struct {
	A  string `json:"a"`
	B  int    `json:"b"`
	Sz int    `json:"sz"`
}

type vLine struct {
	Tr string `json:"tr"`
	A  string `json:"a"`
	B  int    `json:"b"`
	Sz int    `json:"sz"`
	Rs string `json:"rs"`
	Ri int    `json:"ri"`
	St vStP   `json:"st"`
}

// TestVerifReplayBlockRequests replays call sequences on the real state.State and logs,
// after every call, the call, its return value and the projected window.
func TestVerifReplayBlockRequests(t *testing.T) {
	var in struct {
		Par     []int `json:"par"` // Par[b-1] = parent of block b
		Scripts []struct {
			ID    string  `json:"id"`
			Steps []vStep `json:"steps"`
		} `json:"scripts"`
	}
	raw, err := os.ReadFile(os.Getenv("VERIF_SCRIPTS"))
	if err != nil {
		t.Fatal(err)
	}
	if err := json.Unmarshal(raw, &in); err != nil {
		t.Fatal(err)
	}
	out, err := os.Create(os.Getenv("VERIF_TRACE"))
	if err != nil {
		t.Fatal(err)
	}
	defer out.Close()
	w := bufio.NewWriter(out)
	defer w.Flush()
	enc := json.NewEncoder(w)
	ctx := context.Background()
	for _, sc := range in.Scripts {
		s := NewState()
		s.SetLastHash(vIdHash(0))
		enc.Encode(vLine{Tr: sc.ID, A: "reset", St: vProject(s)})
		for _, st := range sc.Steps {
			ln := vLine{Tr: sc.ID, A: st.A, B: st.B, Sz: st.Sz}
			switch st.A {
			case "AddBlockRequest":
				ph, h := vIdHash(in.Par[st.B-1]), vIdHash(st.B)
				send, err := s.AddBlockRequest(&ph, &h)
				if err != nil {
					ln.Rs = "err"
				} else if send {
					ln.Rs = "send"
				} else {
					ln.Rs = "queued"
				}
			case "AddBlock":
				h := vIdHash(st.B)
				if s.AddBlock(&h, &vblk{id: st.B, sz: st.Sz}) {
					ln.Rs = "ok"
				} else {
					ln.Rs = "no"
				}
			case "NextBlock":
				if blk := s.NextBlock(); blk != nil {
					ln.Ri = blk.(*vblk).id
				}
			case "GetNext":
				if h, _ := s.GetNextBlockToRequest(); h != nil {
					ln.Ri = vHashID(*h)
				}
			case "ClearAll":
				s.ClearBlockRequests(ctx)
			case "ClearAfter":
				s.ClearBlockRequestsAfter(ctx, vIdHash(st.B))
			case "SetLastHash":
				s.SetLastHash(vIdHash(st.B))
			case "Reset":
				s.Reset()
			default:
				t.Fatalf("unknown action %s", st.A)
			}
			ln.St = vProject(s)
			enc.Encode(ln)
		}
	}
}
