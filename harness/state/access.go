package state

// Overlay-only accessors for the verification harness (never part of /repo).

import (
	"time"

	"github.com/tokenized/pkg/bitcoin"
	"github.com/tokenized/pkg/wire"
)

type VerifReq struct {
	Hash   bitcoin.Hash32
	Filled bool
	Size   int
}

// VerifProject returns the request window under the state's own lock.
func (state *State) VerifProject() (req []VerifReq, toReq []bitcoin.Hash32, lastSaved bitcoin.Hash32, pend int) {
	state.lock.Lock()
	defer state.lock.Unlock()
	for _, r := range state.blocksRequested {
		req = append(req, VerifReq{r.hash, r.block != nil, r.size})
	}
	toReq = append(toReq, state.blocksToRequest...)
	return req, toReq, state.lastSavedHash, state.pendingBlockSize
}

// VerifShiftClocks moves every stored timestamp of the state back by d (the model's Tick).
func (state *State) VerifShiftClocks(d time.Duration) {
	state.lock.Lock()
	defer state.lock.Unlock()
	if state.connectedTime != nil {
		t := state.connectedTime.Add(-d)
		state.connectedTime = &t
	}
	if state.headersRequested != nil {
		t := state.headersRequested.Add(-d)
		state.headersRequested = &t
	}
	for _, r := range state.blocksRequested {
		r.time = r.time.Add(-d)
	}
}

// VerifWrapBlock replaces the buffered block of the request for hash by wrap(block).
func (state *State) VerifWrapBlock(hash bitcoin.Hash32, wrap func(wire.Block) wire.Block) bool {
	state.lock.Lock()
	defer state.lock.Unlock()
	for _, r := range state.blocksRequested {
		if r.hash.Equal(&hash) && r.block != nil {
			r.block = wrap(r.block)
			return true
		}
	}
	return false
}

// VerifMemTx is the projection of one mempool entry.
type VerifMemTx struct {
	Body    bool
	Trusted bool
}

// VerifProject returns the mempool contents under its own lock.
func (memPool *MemPool) VerifProject() (txs map[bitcoin.Hash32]VerifMemTx, inputs map[bitcoin.Hash32][]bitcoin.Hash32, requests map[bitcoin.Hash32]time.Time) {
	memPool.mutex.Lock()
	defer memPool.mutex.Unlock()
	txs = map[bitcoin.Hash32]VerifMemTx{}
	for k, v := range memPool.txs {
		txs[k] = VerifMemTx{Body: len(v.outPoints) > 0, Trusted: v.trusted}
	}
	inputs = map[bitcoin.Hash32][]bitcoin.Hash32{}
	for k, v := range memPool.inputs {
		inputs[k] = append([]bitcoin.Hash32{}, v...)
	}
	requests = map[bitcoin.Hash32]time.Time{}
	for k, v := range memPool.requests {
		requests[k] = v
	}
	return
}

// VerifShiftClocks moves the stored timestamps of the mempool back by d.
func (memPool *MemPool) VerifShiftClocks(d time.Duration) {
	memPool.mutex.Lock()
	defer memPool.mutex.Unlock()
	for k, v := range memPool.requests {
		memPool.requests[k] = v.Add(-d)
	}
	for _, v := range memPool.txs {
		v.time = v.time.Add(-d)
	}
}

// VerifProject returns the tracked txids.
func (tracker *TxTracker) VerifProject() map[bitcoin.Hash32]time.Time {
	tracker.mutex.Lock()
	defer tracker.mutex.Unlock()
	r := map[bitcoin.Hash32]time.Time{}
	for k, v := range tracker.txids {
		r[k] = v
	}
	return r
}

func (tracker *TxTracker) VerifShiftClocks(d time.Duration) {
	tracker.mutex.Lock()
	defer tracker.mutex.Unlock()
	for k, v := range tracker.txids {
		tracker.txids[k] = v.Add(-d)
	}
}

// VerifUntrusted is the projection of an untrusted connection's state.
type VerifUntrusted struct {
	Ver, Hsk, Hreq, Verified, Scored, AddrReq, MpReq bool
}

// VerifProject returns the flags of the untrusted connection under its own lock.
func (state *UntrustedState) VerifProject() VerifUntrusted {
	state.lock.Lock()
	defer state.lock.Unlock()
	return VerifUntrusted{Ver: state.versionReceived, Hsk: state.handshakeComplete, Hreq: state.headersRequested != nil,
		Verified: state.verified, Scored: state.scoreUpdated, AddrReq: state.addressesRequested, MpReq: state.memPoolRequested}
}

// VerifShiftClocks moves the stored timestamps of the untrusted connection back by d.
func (state *UntrustedState) VerifShiftClocks(d time.Duration) {
	state.lock.Lock()
	defer state.lock.Unlock()
	if state.connectedTime != nil {
		t := state.connectedTime.Add(-d)
		state.connectedTime = &t
	}
	if state.headersRequested != nil {
		t := state.headersRequested.Add(-d)
		state.headersRequested = &t
	}
}
