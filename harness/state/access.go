package state

// Overlay-only accessors for the verification harness (never part of /repo).

import (
	"time"

	"github.com/tokenized/pkg/bitcoin"
	"github.com/tokenized/pkg/wire"
)

type VerifReq struct {
	Hash   bitcoin.Hash32
	Filled bool
	Size   int
}

// VerifProject returns the request window under the state's own lock.
func (state *State) VerifProject() (req []VerifReq, toReq []bitcoin.Hash32, lastSaved bitcoin.Hash32, pend int) {
	state.lock.Lock()
	defer state.lock.Unlock()
	for _, r := range state.blocksRequested {
		req = append(req, VerifReq{r.hash, r.block != nil, r.size})
	}
	toReq = append(toReq, state.blocksToRequest...)
	return req, toReq, state.lastSavedHash, state.pendingBlockSize
}

// VerifShiftClocks moves every stored timestamp of the state back by d (the model's Tick).
func (state *State) VerifShiftClocks(d time.Duration) {
	state.lock.Lock()
	defer state.lock.Unlock()
	if state.connectedTime != nil {
		t := state.connectedTime.Add(-d)
		state.connectedTime = &t
	}
	if state.headersRequested != nil {
		t := state.headersRequested.Add(-d)
		state.headersRequested = &t
	}
	for _, r := range state.blocksRequested {
		r.time = r.time.Add(-d)
	}
}

// VerifWrapBlock replaces the buffered block of the request for hash by wrap(block).
func (state *State) VerifWrapBlock(hash bitcoin.Hash32, wrap func(wire.Block) wire.Block) bool {
	state.lock.Lock()
	defer state.lock.Unlock()
	for _, r := range state.blocksRequested {
		if r.hash.Equal(&hash) && r.block != nil {
			r.block = wrap(r.block)
			return true
		}
	}
	return false
}
