package storage

// Driver for spec/WireStream.tla (C15, C20): the real Serialize / Deserialize pairs of the client protocol and the stored
// transaction record (SaveTxState / FetchTxState) over a real byte stream.  Values are generated per (type code, value class);
// the classes place list lengths, byte lengths and integers at the varint width boundaries and switch optional fields.

import (
	"bufio"
	"bytes"
	"context"
	"encoding/json"
	"fmt"
	"io"
	"math"
	mrand "math/rand"
	"os"
	"os/exec"
	"reflect"
	"runtime"
	"strconv"
	"strings"
	"syscall"
	"testing"

	"github.com/tokenized/pkg/bitcoin"
	"github.com/tokenized/pkg/expanded_tx"
	"github.com/tokenized/pkg/merchant_api"
	"github.com/tokenized/pkg/merkle_proof"
	pstorage "github.com/tokenized/pkg/storage"
	"github.com/tokenized/pkg/wire"
	"github.com/tokenized/spynode/pkg/client"
)

var (
	wsKey bitcoin.Key
	wsSig bitcoin.Signature
)

func init() {
	wsKey, _ = bitcoin.KeyFromNumber([]byte{1, 2, 3, 4, 5, 6, 7, 8, 9, 10, 11, 12, 13, 14, 15, 16, 17, 18, 19, 20, 21, 22, 23, 24, 25, 26, 27, 28, 29, 30, 31, 32}, bitcoin.MainNet)
	wsSig, _ = wsKey.Sign(bitcoin.Hash32{7})
}

func wsN(c string) int { return map[string]int{"zero": 0, "one": 1, "many": 3, "wide": 253, "max": 254}[c] }
func wsU64(c string, i int) uint64 {
	switch c {
	case "zero":
		return 0
	case "one":
		return 1
	case "many":
		return []uint64{252, 253, 254}[i%3]
	case "wide":
		return []uint64{65535, 65536, 0xFFFFFFFF, 0x100000000}[i%4]
	}
	return []uint64{math.MaxUint64, math.MaxUint64 - 1, 1 << 63}[i%3]
}
func wsU32(c string, i int) uint32 {
	v := wsU64(c, i)
	if v > math.MaxUint32 {
		return math.MaxUint32
	}
	return uint32(v)
}
func wsI32(c string) int32 {
	return map[string]int32{"zero": 0, "one": -1, "many": 253, "wide": math.MaxInt32, "max": math.MinInt32}[c]
}
func wsHash(i int) bitcoin.Hash32 {
	var h bitcoin.Hash32
	for k := range h {
		h[k] = byte(i*7 + k)
	}
	return h
}
func wsBytes(c string, i int) []byte {
	n := map[string]int{"zero": 0, "one": 1, "many": 75 + i, "wide": []int{252, 253, 65535, 65536}[i%4], "max": 300}[c]
	b := make([]byte, n)
	for k := range b {
		b[k] = byte(k + i)
	}
	return b
}
func wsTx(c string, i int) *wire.MsgTx {
	tx := wire.NewMsgTx(int32(wsU32(c, i) & 0x7fffffff))
	nin := map[string]int{"zero": 1, "one": 1, "many": 3, "wide": 5, "max": 2}[c]
	for k := 0; k < nin; k++ {
		h := wsHash(i + k)
		tx.AddTxIn(wire.NewTxIn(wire.NewOutPoint(&h, wsU32(c, k)), wsBytes(c, k)[:minI(len(wsBytes(c, k)), 300)]))
	}
	for k := 0; k < wsN(c)%7; k++ {
		tx.AddTxOut(wire.NewTxOut(wsU64(c, k), wsBytes(c, k+1)[:minI(len(wsBytes(c, k+1)), 200)]))
	}
	tx.LockTime = wsU32(c, i+1)
	return tx
}
func minI(a, b int) int {
	if a < b {
		return a
	}
	return b
}
func wsHeader(c string, i int) wire.BlockHeader {
	return wire.BlockHeader{Version: wsI32(c), PrevBlock: wsHash(i), MerkleRoot: wsHash(i + 1), Timestamp: wsU32(c, i), Bits: wsU32(c, i+1), Nonce: wsU32(c, i+2)}
}
func wsState(c string) client.TxState {
	s := client.TxState{Safe: c == "one" || c == "wide", UnSafe: c == "many" || c == "max", Cancelled: c == "max", UnconfirmedDepth: wsU32(c, 0)}
	if c != "zero" {
		p := &client.MerkleProof{Index: wsU64(c, 1), BlockHeader: wsHeader(c, 3)}
		for k := 0; k < minI(wsN(c), 40); k++ {
			p.Path = append(p.Path, wsHash(k))
		}
		for k := 0; k < wsN(c)%5; k++ {
			p.DuplicatedIndexes = append(p.DuplicatedIndexes, wsU64(c, k))
		}
		s.MerkleProof = p
	}
	return s
}
func wsClientTx(c string) *client.Tx {
	tx := wsTx(c, 1)
	t := &client.Tx{ID: wsU64(c, 0), Tx: tx, State: wsState(c)}
	for k := range tx.TxIn {
		t.Outputs = append(t.Outputs, wire.NewTxOut(wsU64(c, k), wsBytes(c, k)[:minI(len(wsBytes(c, k)), 100)]))
	}
	return t
}
func wsOptHash(c string) *bitcoin.Hash32 {
	if c == "zero" || c == "many" {
		return nil
	}
	h := wsHash(9)
	return &h
}

// wsGen builds the message of a type code and value class (code 0: the stored transaction record).
// The dependency's mock merkle proofs draw from math/rand (position of the txid in the block, sibling hashes): seeded from VERIF_SEED so
// that a run - and its child processes, which rebuild the same inputs - is reproducible.
func init() {
	seed := int64(1)
	if v, err := strconv.Atoi(os.Getenv("VERIF_SEED")); err == nil {
		seed = int64(v)
	}
	mrand.Seed(seed)
}

func wsGen(t uint64, c string) client.MessagePayload {
	n := wsN(c)
	u32s := func() []uint32 {
		var l []uint32
		for k := 0; k < n; k++ {
			l = append(l, wsU32([]string{"zero", "one", "many", "wide", "max"}[k%5], k))
		}
		return l
	}
	ops := func() []*wire.OutPoint {
		var l []*wire.OutPoint
		for k := 0; k < n; k++ {
			h := wsHash(k)
			l = append(l, wire.NewOutPoint(&h, wsU32(c, k)))
		}
		return l
	}
	pds := func() [][]byte {
		var l [][]byte
		for k := 0; k < n; k++ {
			if n > 10 {
				l = append(l, wsBytes([]string{"one", "many", "zero"}[k%3], k))
			} else {
				l = append(l, wsBytes(c, k))
			}
		}
		return l
	}
	switch t {
	case 0:
		return wsClientTx(c)
	case client.MessageTypeRegister:
		return &client.Register{Version: uint8(wsU64(c, 0)), Key: wsKey.PublicKey(), Hash: wsHash(1), StartBlockHeight: wsU32(c, 0), ChainTip: wsHash(2),
			ConnectionType: client.ConnectionType(1 + n%2), Signature: wsSig}
	case client.MessageTypeSubscribePushData:
		return &client.SubscribePushData{PushDatas: pds()}
	case client.MessageTypeUnsubscribePushData:
		return &client.UnsubscribePushData{PushDatas: pds()}
	case client.MessageTypeSubscribeTx:
		return &client.SubscribeTx{TxID: wsHash(3), Indexes: u32s()}
	case client.MessageTypeUnsubscribeTx:
		return &client.UnsubscribeTx{TxID: wsHash(4), Indexes: u32s()}
	case client.MessageTypeSubscribeOutputs:
		return &client.SubscribeOutputs{Outputs: ops()}
	case client.MessageTypeUnsubscribeOutputs:
		return &client.UnsubscribeOutputs{Outputs: ops()}
	case client.MessageTypeSubscribeHeaders:
		return &client.SubscribeHeaders{}
	case client.MessageTypeUnsubscribeHeaders:
		return &client.UnsubscribeHeaders{}
	case client.MessageTypeSubscribeContracts:
		return &client.SubscribeContracts{}
	case client.MessageTypeUnsubscribeContracts:
		return &client.UnsubscribeContracts{}
	case client.MessageTypeReady:
		return &client.Ready{NextMessageID: wsU64(c, 0)}
	case client.MessageTypeGetChainTip:
		return &client.GetChainTip{}
	case client.MessageTypeGetHeaders:
		return &client.GetHeaders{RequestHeight: wsI32(c), MaxCount: wsU32(c, 1)}
	case client.MessageTypeSendTx:
		return &client.SendTx{Tx: wsTx(c, 2), Indexes: u32s()}
	case client.MessageTypeGetTx:
		return &client.GetTx{TxID: wsHash(5)}
	case client.MessageTypeGetHeader:
		return &client.GetHeader{BlockHash: wsHash(6)}
	case client.MessageTypeGetFeeQuotes:
		return &client.GetFeeQuotes{}
	case client.MessageTypePostMerkleProofs:
		m := &client.PostMerkleProofs{}
		for k := 0; k < minI(n, 5); k++ {
			m.MerkleProofs = append(m.MerkleProofs, merkle_proof.MockMerkleProofWithTxID(wsHash(k), 5+k*3))
		}
		return m
	case client.MessageTypeSendExpandedTx:
		etx := &expanded_tx.ExpandedTx{Tx: wsTx(c, 3)}
		for k := 0; k < minI(n, 3); k++ {
			etx.Ancestors = append(etx.Ancestors, &expanded_tx.AncestorTx{Tx: wsTx("one", k)})
		}
		if c == "many" || c == "max" {
			for k := range etx.Tx.TxIn {
				etx.SpentOutputs = append(etx.SpentOutputs, &expanded_tx.Output{Value: wsU64(c, k), LockingScript: wsBytes("one", k)})
			}
		}
		return &client.SendExpandedTx{Tx: etx, Indexes: u32s()}
	case client.MessageTypeSaveTxs:
		m := &client.SaveTxs{}
		for k := 0; k < minI(n, 4); k++ {
			a := &expanded_tx.AncestorTx{Tx: wsTx(c, k)}
			if k%2 == 1 {
				a.MerkleProofs = append(a.MerkleProofs, merkle_proof.MockMerkleProofWithTxID(*a.Tx.TxHash(), 4+k))
			}
			m.Txs = append(m.Txs, a)
		}
		return m
	case client.MessageTypeReprocessTx:
		m := &client.ReprocessTx{TxID: wsHash(7)}
		for k := 0; k < n; k++ {
			var h bitcoin.Hash20
			h[0], h[19] = byte(k), byte(k>>8)
			m.ClientIDs = append(m.ClientIDs, h)
		}
		return m
	case client.MessageTypeMarkHeaderInvalid:
		return &client.MarkHeaderInvalid{BlockHash: wsHash(8)}
	case client.MessageTypeMarkHeaderNotInvalid:
		return &client.MarkHeaderNotInvalid{BlockHash: wsHash(9)}
	case client.MessageTypeAcceptRegister:
		return &client.AcceptRegister{Key: wsKey.PublicKey(), PushDataCount: wsU64(c, 0), UTXOCount: wsU64(c, 1), MessageCount: wsU64(c, 2), Signature: wsSig}
	case client.MessageTypeBaseTx:
		return &client.BaseTx{Tx: wsTx(c, 4)}
	case client.MessageTypeTx:
		return wsClientTx(c)
	case client.MessageTypeTxUpdate:
		return &client.TxUpdate{ID: wsU64(c, 0), TxID: wsHash(10), State: wsState(c)}
	case client.MessageTypeInSync:
		return &client.InSync{}
	case client.MessageTypeChainTip:
		return &client.ChainTip{Height: wsU32(c, 0), Hash: wsHash(11)}
	case client.MessageTypeHeaders:
		m := &client.Headers{RequestHeight: wsI32(c), StartHeight: wsU32(c, 1)}
		for k := 0; k < n; k++ {
			h := wsHeader(c, k)
			m.Headers = append(m.Headers, &h)
		}
		return m
	case client.MessageTypeHeader:
		return &client.Header{Header: wsHeader(c, 0), BlockHeight: wsU32(c, 2), IsMostPOW: n%2 == 1}
	case client.MessageTypeFeeQuotes:
		m := &client.FeeQuotes{}
		for k := 0; k < minI(n, 6); k++ {
			ft := merchant_api.FeeTypeStandard
			if k%2 == 1 {
				ft = merchant_api.FeeTypeData
			}
			m.FeeQuotes = append(m.FeeQuotes, &merchant_api.FeeQuote{FeeType: ft, MiningFee: merchant_api.Fee{Satoshis: wsU64(c, k), Bytes: wsU64(c, k+1)},
				RelayFee: merchant_api.Fee{Satoshis: wsU64(c, k+2), Bytes: 1000}})
		}
		return m
	case client.MessageTypeAccept:
		return &client.Accept{MessageType: wsU64(c, 0), Hash: wsOptHash(c)}
	case client.MessageTypeReject:
		return &client.Reject{MessageType: wsU64(c, 0), Hash: wsOptHash(c), Code: client.RejectCode(n % 5), Message: string(wsBytes(c, 3))}
	case client.MessageTypePing:
		return &client.Ping{TimeStamp: wsU64(c, 0)}
	case client.MessageTypePong:
		return &client.Pong{RequestTimeStamp: wsU64(c, 0), TimeStamp: wsU64(c, 1)}
	}
	return nil
}

// wsEqual: structural equality that does not distinguish a nil from an empty slice.
func wsEqual(a, b reflect.Value) bool {
	if a.IsValid() != b.IsValid() {
		return false
	}
	if !a.IsValid() {
		return true
	}
	if a.Type() != b.Type() {
		return false
	}
	switch a.Kind() {
	case reflect.Ptr, reflect.Interface:
		if a.IsNil() || b.IsNil() {
			return a.IsNil() == b.IsNil()
		}
		return wsEqual(a.Elem(), b.Elem())
	case reflect.Slice:
		if a.Len() != b.Len() {
			return false
		}
		for i := 0; i < a.Len(); i++ {
			if !wsEqual(a.Index(i), b.Index(i)) {
				return false
			}
		}
		return true
	case reflect.Array:
		for i := 0; i < a.Len(); i++ {
			if !wsEqual(a.Index(i), b.Index(i)) {
				return false
			}
		}
		return true
	case reflect.Struct:
		if m := a.MethodByName("Equal"); false && m.IsValid() {
			_ = m
		}
		for i := 0; i < a.NumField(); i++ {
			if a.Type().Field(i).PkgPath != "" { // unexported: compare through the encoding instead
				continue
			}
			if !wsEqual(a.Field(i), b.Field(i)) {
				return false
			}
		}
		return true
	}
	if a.CanInterface() && b.CanInterface() {
		return reflect.DeepEqual(a.Interface(), b.Interface())
	}
	return true
}

func wsEncode(t uint64, p client.MessagePayload) ([]byte, error) {
	var buf bytes.Buffer
	if t == 0 {
		store := pstorage.NewMockStorage()
		tx := p.(*client.Tx)
		if err := SaveTxState(context.Background(), store, tx); err != nil {
			return nil, err
		}
		return store.Read(context.Background(), fmt.Sprintf("%s/%s", txStatePath, tx.Tx.TxHash()))
	}
	m := client.Message{Payload: p}
	if err := m.Serialize(&buf); err != nil {
		return nil, err
	}
	return buf.Bytes(), nil
}

type wsCounting struct {
	r io.Reader
	n int
}

func (c *wsCounting) Read(p []byte) (int, error) { n, err := c.r.Read(p); c.n += n; return n, err }

// wsDecode decodes one message (or stored record) from r; returns type code, payload, outcome.
func wsDecode(t0 uint64, r io.Reader) (t uint64, p client.MessagePayload, res string, detail string) {
	defer func() {
		if e := recover(); e != nil {
			res, detail = "panic", fmt.Sprint(e)
		}
	}()
	if t0 == 0 {
		tx := &client.Tx{}
		if err := tx.Deserialize(r); err != nil {
			return 0, nil, "error", err.Error()
		}
		return 0, tx, "ok", ""
	}
	m := &client.Message{}
	if err := m.Deserialize(r); err != nil {
		return 0, nil, "error", err.Error()
	}
	return m.Payload.Type(), m.Payload, "ok", ""
}

type wsAct struct {
	A   string `json:"a"`
	T   int    `json:"t"`
	C   string `json:"c"`
	N   int    `json:"n"`
	Res string `json:"res"`
}
type wsMsg struct {
	T int    `json:"t"`
	C string `json:"c"`
	N int    `json:"n"`
}
type wsSt struct {
	W   []wsMsg `json:"w"`
	R   int     `json:"r"`
	Pos int     `json:"pos"`
}
type wsLine struct {
	Tr     string `json:"tr"`
	Act    wsAct  `json:"act"`
	St     wsSt   `json:"st"`
	Eq     bool   `json:"eq"`     // (Read) the decoded message equals the one written, also byte for byte when re-encoded
	Cases  int    `json:"cases"`  // (Cut / Hostile) inputs tried
	Alloc  int    `json:"alloc"`  // (Hostile) largest allocation of one decode, bytes
	Detail string `json:"detail"` // first offending input
	Skip   string `json:"skip"`
}

func wsLoad(t *testing.T, into interface{}) {
	raw, err := os.ReadFile(os.Getenv("VERIF_SCRIPTS"))
	if err != nil {
		t.Fatal(err)
	}
	if err := json.Unmarshal(raw, into); err != nil {
		t.Fatal(err)
	}
}

func TestVerifWireStream(t *testing.T) {
	var in struct {
		Scripts []struct {
			ID    string  `json:"id"`
			Steps []wsAct `json:"steps"`
		} `json:"scripts"`
	}
	wsLoad(t, &in)
	f, _ := os.Create(os.Getenv("VERIF_TRACE"))
	defer f.Close()
	bw := bufio.NewWriter(f)
	defer bw.Flush()
	enc := json.NewEncoder(bw)
	for _, sc := range in.Scripts {
		var stream bytes.Buffer
		var encs [][]byte
		outOfStep := false
		var vals []client.MessagePayload
		st := wsSt{W: []wsMsg{}}
		reader := &wsCounting{r: &stream}
		enc.Encode(wsLine{Tr: sc.ID, Act: wsAct{A: "init"}, St: st})
		for _, a := range sc.Steps {
			ln := wsLine{Tr: sc.ID, Act: a}
			switch a.A {
			case "Write":
				v := wsGen(uint64(a.T), a.C)
				if v == nil {
					ln.Skip = "no generator for this type"
					break
				}
				b, err := wsEncode(uint64(a.T), v)
				if err != nil {
					ln.Skip = "encode: " + err.Error()
					break
				}
				stream.Write(b)
				encs = append(encs, b)
				vals = append(vals, v)
				ln.Act.N, ln.Act.Res = len(b), "ok"
				st.W = append(st.W, wsMsg{T: a.T, C: a.C, N: len(b)})
			case "Read":
				if st.R >= len(st.W) {
					ln.Skip = "nothing to read"
					break
				}
				if outOfStep {
					// an earlier read of this stream failed or consumed the wrong number of bytes: what follows is not a message
					// boundary any more, and decoding arbitrary bytes in this process can ask for any amount of memory (F12b)
					ln.Skip = "stream out of step after an earlier misread"
					break
				}
				before := reader.n
				want := st.W[st.R]
				typ, p, res, det := wsDecode(uint64(want.T), reader)
				ln.Act = wsAct{A: "Read", T: int(typ), C: want.C, N: reader.n - before, Res: res}
				ln.Detail = det
				if res == "ok" {
					re, err := wsEncode(uint64(want.T), p)
					ln.Eq = err == nil && bytes.Equal(re, encs[st.R]) && wsEqual(reflect.ValueOf(p), reflect.ValueOf(vals[st.R]))
					if !ln.Eq {
						ln.Act.C = "?"
					}
				}
				if res != "ok" || reader.n-before != want.N {
					outOfStep = true
				}
				st.R++
				st.Pos = reader.n
			case "Cut":
				if a.N < 1 || a.N > len(encs) {
					ln.Skip = "no such message"
					break
				}
				b := encs[a.N-1]
				ln.Act = wsAct{A: "Cut", T: st.W[a.N-1].T, C: st.W[a.N-1].C, N: a.N, Res: "error"}
				cuts := wsCuts(len(b))
				for _, m := range cuts {
					_, _, res, det := wsDecode(uint64(st.W[a.N-1].T), bytes.NewReader(b[:m]))
					ln.Cases++
					if res != "error" {
						ln.Act.Res = map[string]string{"ok": "decoded", "panic": "panic"}[res]
						ln.Detail = fmt.Sprintf("prefix of %d of %d bytes: %s %s", m, len(b), res, det)
						break
					}
				}
			default:
				ln.Skip = "unknown action"
			}
			ln.St = wsSt{W: append([]wsMsg{}, st.W...), R: st.R, Pos: st.Pos}
			enc.Encode(ln)
		}
	}
}

// wsCuts: every strict prefix for encodings up to 3000 bytes, otherwise the first and last 1000 and every 97th in between.
func wsCuts(n int) []int {
	var l []int
	for m := 0; m < n; m++ {
		if n <= 3000 || m < 1000 || m >= n-1000 || m%97 == 0 {
			l = append(l, m)
		}
	}
	return l
}

// ---- the type table as the code has it ----

func TestVerifWireTable(t *testing.T) {
	f, _ := os.Create(os.Getenv("VERIF_TRACE"))
	defer f.Close()
	type row struct {
		Code    int    `json:"code"`
		Name    string `json:"name"`
		Payload string `json:"payload"` // Go type PayloadForType returns
		Self    int    `json:"self"`    // the type code that payload reports
		ByName  string `json:"byname"`  // NameForMessageType(code)
	}
	var rows []row
	for code := uint64(0); code < 1000; code++ {
		p := client.PayloadForType(code)
		name, ok := client.MessageTypeNames[code]
		if p == nil && !ok {
			continue
		}
		r := row{Code: int(code), Name: name, Self: -1, ByName: client.NameForMessageType(code)}
		if p != nil {
			r.Payload = reflect.TypeOf(p).Elem().Name()
			r.Self = int(p.Type())
		}
		rows = append(rows, r)
	}
	json.NewEncoder(f).Encode(map[string]interface{}{"rows": rows})
}

// ---- C20: hostile bytes, decoded in child processes with a limited address space ----

var wsLies = map[string][]byte{
	"w3":    {0xfd, 0xff, 0xff},
	"w5":    {0xfe, 0xff, 0xff, 0xff, 0xff},
	"w9":    {0xff, 0, 0, 0, 0, 0, 0, 0, 0x80},
	"w9max": {0xff, 0xff, 0xff, 0xff, 0xff, 0xff, 0xff, 0xff, 0xff},
}

type wsHostileCase struct {
	T   int    `json:"t"`
	C   string `json:"c"`
	Lie string `json:"lie"`
	Rec string `json:"rec"` // "" = client message / stored tx record; else a storage record kind
}
type wsHostileOut struct {
	Case   wsHostileCase `json:"case"`
	Inputs int           `json:"inputs"`
	Worst  string        `json:"worst"` // ok | error | panic | alloc | killed
	Alloc  uint64        `json:"alloc"`
	Len    int           `json:"len"`
	Detail string        `json:"detail"`
}

// wsHostileInputs: the valid encoding with every position in turn overwritten by the lie (tail kept and tail cut).
func wsHostileInputs(b []byte, lie []byte) [][]byte {
	var l [][]byte
	for i := 0; i < len(b); i++ {
		if len(b) > 400 && i > 200 && i < len(b)-100 && i%13 != 0 {
			continue
		}
		x := append(append(append([]byte{}, b[:i]...), lie...), b[minI(i+1, len(b)):]...)
		l = append(l, x)
		l = append(l, append(append([]byte{}, b[:i]...), lie...))
	}
	return l
}

func wsHostileDecode(c wsHostileCase, in []byte) (res, det string) {
	defer func() {
		if e := recover(); e != nil {
			res, det = "panic", fmt.Sprint(e)
		}
	}()
	if c.Rec != "" {
		return wsDecodeRecord(c.Rec, in)
	}
	_, _, res, det = wsDecode(uint64(c.T), bytes.NewReader(in))
	return res, det
}

// TestVerifWireHostileChild runs one case list inside a process with a limited address space; it reports progress so that
// the parent knows which input killed it.
func TestVerifWireHostileChild(t *testing.T) {
	if os.Getenv("VERIF_WIRE_CHILD") == "" {
		t.Skip("child mode only")
	}
	lim := uint64(3) << 30
	syscall.Setrlimit(syscall.RLIMIT_AS, &syscall.Rlimit{Cur: lim, Max: lim})
	var cases []wsHostileCase
	raw, _ := os.ReadFile(os.Getenv("VERIF_SCRIPTS"))
	json.Unmarshal(raw, &cases)
	start, _ := strconv.Atoi(os.Getenv("VERIF_WIRE_START"))
	skipInput, _ := strconv.Atoi(os.Getenv("VERIF_WIRE_SKIP"))
	out, _ := os.OpenFile(os.Getenv("VERIF_TRACE"), os.O_APPEND|os.O_CREATE|os.O_WRONLY, 0644)
	defer out.Close()
	prog := os.Getenv("VERIF_TRACE") + ".progress"
	for ci := start; ci < len(cases); ci++ {
		c := cases[ci]
		valid := wsValidRecord(c)
		if valid == nil {
			continue
		}
		ins := wsHostileInputs(valid, wsLies[c.Lie])
		o := wsHostileOut{Case: c, Inputs: len(ins), Worst: "error", Len: len(valid)}
		first := 0
		if ci == start {
			first = skipInput
		}
		for k := first; k < len(ins); k++ {
			os.WriteFile(prog, []byte(fmt.Sprintf("%d %d", ci, k)), 0644)
			var m0, m1 runtime.MemStats
			runtime.ReadMemStats(&m0)
			res, det := wsHostileDecode(c, ins[k])
			runtime.ReadMemStats(&m1)
			alloc := m1.TotalAlloc - m0.TotalAlloc
			if alloc > o.Alloc {
				o.Alloc = alloc
			}
			bound := uint64(1<<20) + 256*uint64(len(ins[k]))
			if res == "panic" && o.Worst != "panic" {
				o.Worst, o.Detail = "panic", fmt.Sprintf("input %d (%d bytes): %s", k, len(ins[k]), det)
			} else if alloc > bound && o.Worst != "panic" && o.Worst != "alloc" {
				o.Worst, o.Detail = "alloc", fmt.Sprintf("input %d (%d bytes) allocated %d bytes", k, len(ins[k]), alloc)
			} else if res == "ok" && o.Worst == "error" {
				o.Worst = "ok"
			}
		}
		b, _ := json.Marshal(o)
		out.Write(append(b, '\n'))
	}
	os.WriteFile(prog, []byte("done"), 0644)
}

func wsValidRecord(c wsHostileCase) []byte {
	if c.Rec != "" {
		return wsValidStorageRecord(c.Rec)
	}
	v := wsGen(uint64(c.T), c.C)
	if v == nil {
		return nil
	}
	b, err := wsEncode(uint64(c.T), v)
	if err != nil {
		return nil
	}
	return b
}

// TestVerifWireHostile is the parent: it restarts the child after every input that killed it.
func TestVerifWireHostile(t *testing.T) {
	trace := os.Getenv("VERIF_TRACE")
	os.Remove(trace)
	var cases []wsHostileCase
	raw, _ := os.ReadFile(os.Getenv("VERIF_SCRIPTS"))
	json.Unmarshal(raw, &cases)
	start, skip := 0, 0
	killed := map[int]string{}
	kills := map[int]int{}
	for rounds := 0; rounds < 1200; rounds++ {
		cmd := exec.Command(os.Args[0], "-test.run", "^TestVerifWireHostileChild$")
		cmd.Env = append(os.Environ(), "VERIF_WIRE_CHILD=1", fmt.Sprintf("VERIF_WIRE_START=%d", start), fmt.Sprintf("VERIF_WIRE_SKIP=%d", skip))
		outb, _ := cmd.CombinedOutput()
		p, _ := os.ReadFile(trace + ".progress")
		if string(p) == "done" {
			break
		}
		var ci, k int
		if _, err := fmt.Sscanf(string(p), "%d %d", &ci, &k); err != nil {
			t.Fatalf("child failed without progress: %s", string(outb))
		}
		tail := string(outb)
		frame := ""
		for _, ln := range strings.Split(tail, "\n") { // the innermost frame outside the runtime
			if strings.HasPrefix(ln, "github.com/") {
				frame = strings.SplitN(ln, "(", 2)[0]
				break
			}
		}
		if len(tail) > 160 {
			tail = tail[:160]
		}
		if _, seen := killed[ci]; !seen {
			killed[ci] = fmt.Sprintf("input %d killed the process in %s: %s", k, frame, strings.ReplaceAll(tail, "\n", " | "))
		}
		kills[ci]++
		if kills[ci] >= 3 {
			start, skip = ci+1, 0 // enough evidence for this case
		} else {
			start, skip = ci, k+1
		}
	}
	if len(killed) > 0 {
		f, _ := os.OpenFile(trace, os.O_APPEND|os.O_CREATE|os.O_WRONLY, 0644)
		for ci, d := range killed {
			b, _ := json.Marshal(wsHostileOut{Case: cases[ci], Worst: "killed", Detail: d})
			f.Write(append(b, '\n'))
		}
		f.Close()
	}
}

// ---- the node's stored records (C20): loaded through the repositories from a storage that holds the hostile bytes ----

func init() {
	wsLies["i32neg"] = []byte{0xff, 0xff, 0xff, 0xff}
	wsLies["i32max"] = []byte{0xff, 0xff, 0xff, 0x7f}
	wsLies["i32p27"] = []byte{0, 0, 0, 0x08}
	wsLies["i32p31"] = []byte{0, 0, 0, 0x80}
	wsLies["w5p27"] = []byte{0xfe, 0, 0, 0, 0x08}
	wsLies["w9p59"] = []byte{0xff, 0, 0, 0, 0, 0, 0, 0, 0x08}
}

func wsValidStorageRecord(rec string) []byte {
	ctx := context.Background()
	store := pstorage.NewMockStorage()
	switch rec {
	case "peers":
		repo := NewPeerRepository(store)
		repo.Add(ctx, "1.2.3.4:8333")
		repo.Add(ctx, "[2001:db8::1]:8333")
		repo.Add(ctx, "example.org:18333")
		repo.UpdateScore(ctx, "1.2.3.4:8333", 5)
		repo.Save(ctx)
		b, _ := store.Read(ctx, peersPath)
		return b
	case "reorg":
		repo := NewReorgRepository(store)
		r := &Reorg{BlockHeight: 7}
		for k := 0; k < 2; k++ {
			rb := ReorgBlock{Header: wsHeader("many", k)}
			for j := 0; j < 2+k; j++ {
				rb.TxIds = append(rb.TxIds, wsHash(j))
			}
			r.Blocks = append(r.Blocks, rb)
		}
		repo.Save(ctx, r)
		b, _ := store.Read(ctx, repo.buildActivePath())
		return b
	case "unconfirmed":
		repo := NewTxRepository(store)
		repo.Load(ctx)
		for k := 0; k < 3; k++ {
			repo.Add(ctx, wsHash(k), k%2 == 0, k == 1, -1)
		}
		repo.MarkUnsafe(ctx, wsHash(2))
		repo.Save(ctx)
		b, _ := store.Read(ctx, unconfirmedPath)
		return b
	case "txblock":
		var b []byte
		for k := 0; k < 3; k++ {
			h := wsHash(k)
			b = append(b, h[:]...)
		}
		return b
	}
	return nil
}

func wsDecodeRecord(rec string, in []byte) (string, string) {
	ctx := context.Background()
	store := pstorage.NewMockStorage()
	var err error
	switch rec {
	case "peers":
		store.Write(ctx, peersPath, in, nil)
		err = NewPeerRepository(store).Load(ctx)
	case "reorg":
		repo := NewReorgRepository(store)
		store.Write(ctx, repo.buildActivePath(), in, nil)
		_, err = repo.GetActive(ctx)
	case "unconfirmed":
		store.Write(ctx, unconfirmedPath, in, nil)
		err = NewTxRepository(store).Load(ctx)
	case "txblock":
		repo := NewTxRepository(store)
		store.Write(ctx, repo.buildPath(5), in, nil)
		_, err = repo.GetBlock(ctx, 5)
	}
	if err != nil {
		return "error", err.Error()
	}
	return "ok", ""
}
