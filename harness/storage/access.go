package storage

// Overlay-only accessors for the verification harness (never part of /repo).

import (
	"time"

	"github.com/tokenized/pkg/bitcoin"
	"github.com/tokenized/pkg/storage"
)

type VerifUnconfirmed struct {
	Time    time.Time
	Unsafe  bool
	Safe    bool
	Trusted bool
}

// VerifProject returns the unconfirmed set. The caller must not hold the repository's lock
// (it is taken here; during block processing the lock is held by the block, see VerifProjectNoLock).
func (repo *TxRepository) VerifProject() map[bitcoin.Hash32]VerifUnconfirmed {
	repo.unconfirmedLock.Lock()
	defer repo.unconfirmedLock.Unlock()
	return repo.VerifProjectNoLock()
}

func (repo *TxRepository) VerifProjectNoLock() map[bitcoin.Hash32]VerifUnconfirmed {
	r := map[bitcoin.Hash32]VerifUnconfirmed{}
	for k, v := range repo.unconfirmed {
		r[k] = VerifUnconfirmed{Time: v.time, Unsafe: v.unsafe, Safe: v.safe, Trusted: v.trusted}
	}
	return r
}

// VerifShiftClocks moves the first-seen times back by d.
func (repo *TxRepository) VerifShiftClocks(d time.Duration) {
	repo.unconfirmedLock.Lock()
	defer repo.unconfirmedLock.Unlock()
	for _, v := range repo.unconfirmed {
		v.time = v.time.Add(-d)
	}
}

// VerifStore returns the storage the repository works on.
func (repo *BlockRepository) VerifStore() storage.Storage { return repo.store }
