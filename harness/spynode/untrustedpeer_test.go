package spynode

// Replay driver for spec/UntrustedPeer.tla (C12, growth): one real UntrustedNode whose real read loop (monitorIncoming) runs over an
// in-memory connection.  The loop is parked at its two named points (build tag verif): "unt.loop" (top, before check()) and
// "unt.read" (before the read), so that every step of the specification is one observable piece of the loop:
//   Check    release the loop at its top; it runs check() and arrives at the read
//   Recv(m)  write one wire message; the loop reads it, handles it and arrives at its top again (or ends)
// Broadcast, Expire and Stop come from other goroutines of the node and are called directly.

import (
	"bytes"
	"fmt"
	"io"
	"net"
	"sort"
	"testing"
	"time"

	"github.com/tokenized/pkg/bitcoin"
	"github.com/tokenized/pkg/wire"
	"github.com/tokenized/spynode/internal/handlers"
)

type upMsg struct {
	T string      `json:"t"`
	X interface{} `json:"x"`
}
type upAct struct {
	A string `json:"a"`
	M upMsg  `json:"m"`
}
type upOut struct {
	T string `json:"t"`
	X int    `json:"x"`
}
type upSt struct {
	Ver      bool    `json:"ver"`
	Hsk      bool    `json:"hsk"`
	Hreq     bool    `json:"hreq"`
	Verified bool    `json:"verified"`
	Scored   bool    `json:"scored"`
	AddrReq  bool    `json:"addrReq"`
	MpReq    bool    `json:"mpReq"`
	Stopping bool    `json:"stopping"`
	Score    int     `json:"score"`
	Known    []int   `json:"known"`
	Out      []upOut `json:"out"`
	Pend     []int   `json:"pend"`
	Chan     []int   `json:"chan"`
	Asked    []int   `json:"asked"`
	Tracked  []int   `json:"tracked"`
	Pc       string  `json:"pc"`
	Height   int     `json:"height"` // of the block repository (an untrusted peer must never change it)
	Tip      int     `json:"tip"`    // chain position of the repository's last hash
	Loop     string  `json:"loop"`   // "running" or "ended"
}
type upLine struct {
	Tr   string `json:"tr"`
	Act  upAct  `json:"act"`
	St   upSt   `json:"st"`
	Skip string `json:"skip"`
}

const upAddr = "10.9.8.7:8333"

type upH struct {
	t       *testing.T
	h       int
	n       *Node
	u       *UntrustedNode
	hdrs    []*wire.BlockHeader // stored chain 0..h
	side    []*wire.BlockHeader // headers nobody stored
	txs     map[int]*wire.MsgTx
	idOf    map[bitcoin.Hash32]int
	peer    net.Conn
	arrive  chan string   // the loop has reached a named point
	release chan struct{} // lets the loop pass its top
	ended   chan struct{}
	out     []upOut
	chanTx  []int
	pc      string
	loop    string
	panicked string
}

type upUnknown struct{ wire.MsgVerAck }

func (*upUnknown) Command() string { return "foobarbaz" }

func newUP(t *testing.T, height int) *upH {
	ctx := vCtx()
	h := &upH{t: t, h: height, txs: map[int]*wire.MsgTx{}, idOf: map[bitcoin.Hash32]int{}, pc: "top", loop: "running"}
	h.n = NewNode(vConfig(bitcoin.Hash32{0xDD, 0xDD}, 50), newVStore(), vNoFetch{}, vNoFetch{})
	if err := h.n.load(ctx); err != nil {
		t.Fatalf("load: %v", err)
	}
	h.n.unconfTxChannel.Open(1000)
	h.n.outgoing.Open(1000)
	gen, _ := h.n.blocks.Header(ctx, 0)
	h.hdrs = append(h.hdrs, gen)
	prev := *h.n.blocks.LastHash()
	for i := 1; i <= height; i++ {
		hd := wire.NewBlockHeader(1, &prev, &bitcoin.Hash32{byte(i)}, 0, uint32(3000+i))
		hd.Timestamp = uint32(1600000000 + i)
		if err := h.n.blocks.Add(ctx, hd); err != nil {
			t.Fatalf("add header: %v", err)
		}
		h.hdrs = append(h.hdrs, hd)
		prev = *hd.BlockHash()
	}
	sp := bitcoin.Hash32{0xEE, 0xEE}
	for i := 0; i < 4; i++ {
		hd := wire.NewBlockHeader(1, &sp, &bitcoin.Hash32{byte(200 + i)}, 0, uint32(4000+i))
		h.side = append(h.side, hd)
		sp = *hd.BlockHash()
	}
	for i := 1; i <= 4; i++ {
		tx := wire.NewMsgTx(1)
		z := bitcoin.Hash32{byte(i), 0x33}
		tx.AddTxIn(wire.NewTxIn(wire.NewOutPoint(&z, 0), []byte{0x51}))
		tx.AddTxOut(wire.NewTxOut(uint64(i), []byte{0x51}))
		h.txs[i] = tx
		h.idOf[*tx.TxHash()] = i
	}
	h.n.peers.Add(ctx, upAddr)
	u := NewUntrustedNode(upAddr, h.n.config, h.n.state, h.n.store, h.n.peers, h.n.blocks, h.n.txs, h.n.memPool,
		&h.n.unconfTxChannel, h.n.handlers, h.n, false)
	u.messageHandlers = handlers.NewUntrustedMessageHandlers(ctx, u.trustedState, u.untrustedState, u.peers, u.blocks, u.txTracker,
		u.memPool, u.txChannel, u.isRelevant, u.address)
	u.outgoing.Open(1000)
	a, b := net.Pipe()
	u.connection = a
	h.peer = b
	u.untrustedState.MarkConnected()
	u.active = true
	h.u = u
	h.arrive = make(chan string, 4)
	h.release = make(chan struct{})
	h.ended = make(chan struct{})
	verifHook = func(point string) {
		switch point {
		case "unt.loop":
			h.arrive <- point
			<-h.release
		case "unt.read":
			h.arrive <- point
		}
	}
	go func() {
		defer func() {
			if e := recover(); e != nil { // a panic in this goroutine takes the whole node down
				h.panicked = fmt.Sprintf("PANIC in the untrusted connection's read loop: %v", e)
			}
			close(h.ended)
		}()
		u.monitorIncoming(ctx)
	}()
	if !h.await("unt.loop") {
		t.Fatalf("the read loop did not start")
	}
	return h
}

func (h *upH) close() {
	verifHook = nil
	h.u.Stop(vCtx())
	h.peer.Close()
	h.u.connection.Close()
	select {
	case <-h.release:
	default:
		close(h.release)
	}
	select {
	case <-h.ended:
	case <-time.After(2 * time.Second):
	}
}

// await waits until the loop reaches the named point; false if it ended instead.
func (h *upH) await(point string) bool {
	select {
	case p := <-h.arrive:
		if p != point {
			h.t.Logf("loop arrived at %q, expected %q", p, point)
		}
		return p == point
	case <-h.ended:
		h.loop = "ended"
		return false
	case <-time.After(3 * time.Second):
		h.t.Logf("the loop did not reach %q", point)
		return false
	}
}

func (h *upH) headers(x map[string]interface{}) *wire.MsgHeaders {
	first := int(x["first"].(float64))
	linked := x["linked"].(bool)
	n := int(x["n"].(float64))
	m := wire.NewMsgHeaders()
	if n == 0 {
		return m
	}
	var chain []*wire.BlockHeader
	if first < 0 {
		chain = h.side
	} else {
		chain = append(chain, h.hdrs[first:]...)
		// beyond the stored tip: headers of blocks this node has not seen, linked to the tip
		prev := *h.hdrs[h.h].BlockHash()
		for i := 0; len(chain) < n; i++ {
			hd := wire.NewBlockHeader(1, &prev, &bitcoin.Hash32{byte(100 + i)}, 0, uint32(5000+i))
			chain = append(chain, hd)
			prev = *hd.BlockHash()
		}
	}
	for i := 0; i < n; i++ {
		hd := *chain[i]
		if !linked && i == n-1 && n >= 2 {
			hd.PrevBlock = bitcoin.Hash32{0x77, byte(i)}
		}
		m.AddBlockHeader(&hd)
	}
	return m
}

func (h *upH) write(m wire.Message) error {
	var buf bytes.Buffer
	if _, err := wire.WriteMessageN(&buf, m, wire.ProtocolVersion, wire.BitcoinNet(h.n.config.Net)); err != nil {
		return err
	}
	_, err := h.peer.Write(buf.Bytes())
	return err
}

func (h *upH) step(a upAct) (res string) {
	defer func() {
		if e := recover(); e != nil {
			res = fmt.Sprintf("PANIC: %v", e)
		}
	}()
	ctx := vCtx()
	if h.loop == "ended" && (a.A == "Check" || a.A == "Recv") {
		return "the loop has ended"
	}
	switch a.A {
	case "Check":
		if h.pc != "top" {
			return "loop not at its top"
		}
		h.release <- struct{}{}
		if h.await("unt.read") {
			h.pc = "read"
		}
	case "Recv":
		if h.pc != "read" {
			return "loop not reading"
		}
		var err error
		switch a.M.T {
		case "version":
			err = h.write(buildVersionMsg("/peer/", int32(h.h)))
		case "headers":
			err = h.write(h.headers(a.M.X.(map[string]interface{})))
		case "inv":
			m := wire.NewMsgInv()
			m.AddInvVect(wire.NewInvVect(wire.InvTypeTx, h.txs[int(a.M.X.(float64))].TxHash()))
			err = h.write(m)
		case "tx":
			err = h.write(h.txs[int(a.M.X.(float64))])
		case "addr":
			m := wire.NewMsgAddr()
			m.AddAddress(wire.NewNetAddressIPPort(net.IPv4(10, 1, 1, byte(int(a.M.X.(float64)))), 8333, 0))
			err = h.write(m)
		case "ping":
			err = h.write(wire.NewMsgPing(7))
		case "block":
			mb := wire.NewMsgBlock(h.hdrs[h.h])
			mb.AddTransaction(csCoinbase(1))
			err = h.write(mb)
		case "unknown":
			err = h.write(&upUnknown{})
		case "garbage":
			var buf bytes.Buffer
			wire.WriteMessageN(&buf, wire.NewMsgPing(9), wire.ProtocolVersion, wire.BitcoinNet(h.n.config.Net))
			raw := buf.Bytes()
			raw[len(raw)-1] ^= 0xFF // checksum mismatch
			_, err = h.peer.Write(raw)
		default:
			return "unknown message " + a.M.T
		}
		if err != nil && err != io.ErrClosedPipe {
			return "write: " + err.Error()
		}
		h.await("unt.loop")
		h.pc = "top"
		if h.panicked != "" {
			return h.panicked
		}
	case "Broadcast":
		if err := h.u.BroadcastTxs(ctx, []*wire.MsgTx{h.txs[int(a.M.X.(float64))]}); err != nil {
			return "broadcast: " + err.Error()
		}
	case "Expire":
		h.u.untrustedState.VerifShiftClocks(61 * time.Second)
		if err := h.u.untrustedState.CheckTimeouts(); err == nil {
			return "nothing timed out"
		}
		// monitorRequestTimeouts : 399-411 (its 10 s poll is not waited for)
		h.u.peers.UpdateScore(ctx, h.u.address, -1)
		h.u.Stop(ctx)
	case "Stop":
		h.u.Stop(ctx)
	default:
		return "unknown action " + a.A
	}
	return ""
}

func (h *upH) project() upSt {
	ctx := vCtx()
	p := h.u.untrustedState.VerifProject()
	st := upSt{Ver: p.Ver, Hsk: p.Hsk, Hreq: p.Hreq, Verified: p.Verified, Scored: p.Scored, AddrReq: p.AddrReq, MpReq: p.MpReq,
		Stopping: h.u.isStopping(), Pc: h.pc, Loop: h.loop, Known: []int{}, Pend: []int{}, Asked: []int{}, Tracked: []int{}}
	peers, _ := h.n.peers.Get(ctx, -1000)
	for _, pr := range peers {
		if pr.Address == upAddr {
			st.Score = int(pr.Score)
			continue
		}
		var a, b, c, d, port int
		if _, err := fmt.Sscanf(pr.Address, "[%d.%d.%d.%d]:%d", &a, &b, &c, &d, &port); err == nil && pr.Score == 0 {
			st.Known = append(st.Known, d)
		} else {
			st.Known = append(st.Known, -1)
		}
	}
	sort.Ints(st.Known)
	for len(h.u.outgoing.Channel) > 0 {
		m := <-h.u.outgoing.Channel
		o := upOut{T: m.Command()}
		switch x := m.(type) {
		case *wire.MsgGetHeaders:
			o.X = -1
			if len(x.BlockLocatorHashes) > 0 {
				if ht, ok := h.n.blocks.Height(x.BlockLocatorHashes[0]); ok {
					o.X = ht
				}
			}
		case *wire.MsgGetData:
			o.X = -1
			if len(x.InvList) == 1 && x.InvList[0].Type == wire.InvTypeTx {
				o.X = h.idOf[x.InvList[0].Hash]
			}
		case *wire.MsgTx:
			o.X = h.idOf[*x.TxHash()]
		}
		h.out = append(h.out, o)
	}
	st.Out = append([]upOut{}, h.out...)
	for len(h.n.unconfTxChannel.Channel) > 0 {
		d := <-h.n.unconfTxChannel.Channel
		id := h.idOf[*d.Msg.TxHash()]
		if d.Trusted || d.Safe {
			id = -id // an untrusted peer's transaction must be neither
		}
		h.chanTx = append(h.chanTx, id)
	}
	st.Chan = append([]int{}, h.chanTx...)
	h.u.pendingLock.Lock()
	for _, tx := range h.u.pendingOutgoing {
		st.Pend = append(st.Pend, h.idOf[*tx.TxHash()])
	}
	h.u.pendingLock.Unlock()
	_, _, reqs := h.n.memPool.VerifProject()
	for k := range reqs {
		st.Asked = append(st.Asked, h.idOf[k])
	}
	sort.Ints(st.Asked)
	for k := range h.u.txTracker.VerifProject() {
		st.Tracked = append(st.Tracked, h.idOf[k])
	}
	sort.Ints(st.Tracked)
	st.Height = h.n.blocks.LastHeight()
	st.Tip = -1
	for i, hd := range h.hdrs {
		if hd.BlockHash().Equal(h.n.blocks.LastHash()) {
			st.Tip = i
		}
	}
	return st
}

func TestVerifReplayUntrustedPeer(t *testing.T) {
	var in struct {
		H       int `json:"h"`
		Scripts []struct {
			ID    string  `json:"id"`
			Steps []upAct `json:"steps"`
		} `json:"scripts"`
	}
	vLoadScripts(t, &in)
	tr := vOpenTrace(t)
	defer tr.Close()
	for _, sc := range in.Scripts {
		h := newUP(t, in.H)
		tr.Emit(upLine{Tr: sc.ID, Act: upAct{A: "init", M: upMsg{T: "", X: 0}}, St: h.project()})
		for _, a := range sc.Steps {
			skip := h.step(a)
			if a.M.X == nil {
				a.M.X = 0
			}
			tr.Emit(upLine{Tr: sc.ID, Act: a, St: h.project(), Skip: skip})
		}
		h.close()
	}
}
