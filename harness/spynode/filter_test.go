package spynode

// Driver for spec/FilterCases.tla (C08): every enumerated case (script tokens, subscription word, contract flag,
// action output, position) is realised as concrete bytes -- several realisations per token -- and run through the
// real Subscribe/Unsubscribe calls and IsRelevant.

import (
	"fmt"
	"testing"

	"github.com/tokenized/pkg/bitcoin"
	"github.com/tokenized/pkg/wire"
	"github.com/tokenized/specification/dist/golang/actions"
	"github.com/tokenized/specification/dist/golang/protocol"
)

type fTok struct {
	K string `json:"k"`
	D string `json:"d"`
}
type fCase struct {
	Script    []fTok   `json:"script"`
	Word      []string `json:"word"`
	Pos       string   `json:"pos"`
	Contracts bool     `json:"contracts"`
	Action    string   `json:"action"`
	Expect    bool     `json:"expect"`
}
type fOut struct {
	ID     int    `json:"id"`
	Enc    int    `json:"enc"` // realisation variant
	Got    bool   `json:"got"`
	Expect bool   `json:"expect"`
	Panic  string `json:"panic"`
	Hex    string `json:"hex"`
}

var (
	fDataA = func() []byte { b := make([]byte, 33); for i := range b { b[i] = byte(0x30 + i) }; return b }()
	fDataB = func() []byte { b := make([]byte, 300); for i := range b { b[i] = byte(i*7 + 1) }; return b }()
	fDataX = []byte{9, 8, 7, 6, 5}
)

func fDatum(d string) []byte {
	switch d {
	case "A":
		return fDataA
	case "B":
		return fDataB
	case "HA":
		return bitcoin.Hash160(fDataA)
	case "HB":
		return bitcoin.Hash160(fDataB)
	case "x":
		return fDataX
	}
	return []byte{}
}

// fPush encodes a data push; enc selects among the valid encodings (minimal and non-minimal).
func fPush(data []byte, enc int) []byte {
	n := len(data)
	var variants [][]byte
	if n == 0 {
		variants = append(variants, []byte{0x00}, []byte{0x4c, 0x00}, []byte{0x4d, 0x00, 0x00}, []byte{0x4e, 0, 0, 0, 0})
	} else {
		if n <= 75 {
			variants = append(variants, append([]byte{byte(n)}, data...))
		}
		if n <= 255 {
			variants = append(variants, append([]byte{0x4c, byte(n)}, data...))
		}
		variants = append(variants, append([]byte{0x4d, byte(n), byte(n >> 8)}, data...))
		variants = append(variants, append([]byte{0x4e, byte(n), byte(n >> 8), 0, 0}, data...))
	}
	return variants[enc%len(variants)]
}

func fScript(toks []fTok, enc int) []byte {
	var s []byte
	for i, t := range toks {
		switch t.K {
		case "push":
			s = append(s, fPush(fDatum(t.D), enc+i)...)
		case "small":
			if t.D == "neg" {
				s = append(s, 0x4f)
			} else {
				s = append(s, byte(0x51+(enc+i)%16))
			}
		case "op":
			s = append(s, []byte{0x76, 0xa9, 0x88, 0xac, 0x6a, 0x87}[(enc+i)%6])
		case "trunc":
			// a push that declares more bytes than follow
			switch enc % 3 {
			case 0:
				s = append(s, 0x20, 1, 2, 3)
			case 1:
				s = append(s, 0x4c, 0xff, 1, 2)
			default:
				s = append(s, 0x4e, 0xff, 0xff, 0xff, 0x7f, 1)
			}
		case "cut":
			switch enc % 3 {
			case 0:
				s = append(s, 0x4c)
			case 1:
				s = append(s, 0x4d, 0x01)
			default:
				s = append(s, 0x4e, 0x01, 0x00)
			}
		}
	}
	return s
}

func fAction(a string) []byte {
	var act actions.Action
	switch a {
	case "CF":
		act = &actions.ContractFormation{ContractName: "verif"}
	case "IC":
		act = &actions.InstrumentCreation{InstrumentType: "CCY"}
	case "other":
		act = &actions.Message{MessageCode: 1}
	default:
		return nil
	}
	s, err := protocol.Serialize(act, true)
	if err != nil {
		panic(err)
	}
	return s
}

func TestVerifFilterCases(t *testing.T) {
	var in struct {
		Cases []fCase `json:"scripts"`
		Encs  int     `json:"encs"`
		Base  int     `json:"base"`
	}
	vLoadScripts(t, &in)
	tr := vOpenTrace(t)
	defer tr.Close()
	ctx := vCtx()
	if in.Encs < 1 {
		in.Encs = 1
	}
	for i, c := range in.Cases {
		for e := 0; e < in.Encs; e++ {
			o := fOut{ID: in.Base + i, Enc: e, Expect: c.Expect}
			func() {
				defer func() {
					if r := recover(); r != nil {
						o.Panic = fmt.Sprint(r)
					}
				}()
				n := NewNode(vConfig(bitcoin.Hash32{1}, 50), newVStore(), vNoFetch{}, vNoFetch{})
				for _, w := range c.Word {
					hashA, hashB := bitcoin.Hash160(fDataA), bitcoin.Hash160(fDataB)
					var args [][]byte
					switch w {
					case "SubRawA", "UnsubRawA":
						args = [][]byte{fDataA}
					case "SubHashA", "UnsubHashA":
						args = [][]byte{hashA}
					case "SubRawB":
						args = [][]byte{fDataB}
					case "UnsubHashB":
						args = [][]byte{hashB}
					case "SubAB":
						args = [][]byte{fDataA, hashB}
					case "UnsubAB":
						args = [][]byte{hashA, fDataB}
					case "UnsubBA":
						args = [][]byte{fDataB, fDataA}
					}
					if w[:3] == "Sub" {
						n.SubscribePushDatas(ctx, args)
					} else {
						n.UnsubscribePushDatas(ctx, args)
					}
				}
				if c.Contracts {
					n.SubscribeContracts(ctx)
				} else if e%2 == 1 {
					n.SubscribeContracts(ctx)
					n.UnsubscribeContracts(ctx)
				}
				script := fScript(c.Script, e)
				o.Hex = fmt.Sprintf("%x", script)
				tx := wire.NewMsgTx(1)
				h := bitcoin.Hash32{7}
				if c.Pos == "in" {
					tx.AddTxIn(wire.NewTxIn(wire.NewOutPoint(&h, 0), script))
					tx.AddTxOut(wire.NewTxOut(1, []byte{0x6a}))
				} else {
					tx.AddTxIn(wire.NewTxIn(wire.NewOutPoint(&h, 0), []byte{0x51}))
					if e%2 == 0 {
						tx.AddTxOut(wire.NewTxOut(1, []byte{0x6a}))
					}
					tx.AddTxOut(wire.NewTxOut(1, script))
				}
				if a := fAction(c.Action); a != nil {
					tx.AddTxOut(wire.NewTxOut(0, a))
				}
				o.Got = n.IsRelevant(ctx, tx)
			}()
			tr.Emit(o)
		}
	}
}
