package spynode

// Verification harness (overlay-only, never part of /repo): shared helpers.

import (
	"bufio"
	"context"
	"encoding/json"
	"errors"
	"fmt"
	"os"
	"sync"
	"testing"

	"github.com/tokenized/logger"
	"github.com/tokenized/pkg/bitcoin"
	"github.com/tokenized/pkg/storage"
	"github.com/tokenized/pkg/wire"
	"github.com/tokenized/spynode/internal/platform/config"
)

const (
	vERR   = -1 // the call returned an error
	vPANIC = -2 // the call panicked
	vNOMAP = -3 // the answer is an object the model does not know
	vNONE  = -4 // the call returned nothing without an error
)

func vCtx() context.Context {
	if os.Getenv("VERIF_LOG") != "" {
		return context.Background()
	}
	return logger.ContextWithNoLogger(context.Background())
}

func vLoadScripts(t *testing.T, into interface{}) {
	raw, err := os.ReadFile(os.Getenv("VERIF_SCRIPTS"))
	if err != nil {
		t.Fatal(err)
	}
	if err := json.Unmarshal(raw, into); err != nil {
		t.Fatal(err)
	}
}

type vTrace struct {
	f   *os.File
	w   *bufio.Writer
	enc *json.Encoder
	mu  sync.Mutex
}

func vOpenTrace(t *testing.T) *vTrace {
	f, err := os.Create(os.Getenv("VERIF_TRACE"))
	if err != nil {
		t.Fatal(err)
	}
	w := bufio.NewWriterSize(f, 1<<20)
	return &vTrace{f: f, w: w, enc: json.NewEncoder(w)}
}

func (tr *vTrace) Emit(v interface{}) {
	tr.mu.Lock()
	defer tr.mu.Unlock()
	tr.enc.Encode(v)
}

func (tr *vTrace) Close() {
	tr.w.Flush()
	tr.f.Close()
}

// vStore wraps the mock storage: it records every mutation, can make the j-th operation fail,
// and can behave like a back end on which removing a missing key succeeds.
type vStore struct {
	inner       *storage.MockStorage
	rmMissingOK bool
	mu          sync.Mutex
	ops         int            // operations seen (reads, writes, removes)
	failAt      int            // 1-based operation index that fails (0 = none)
	failed      bool           // the fault was injected
	failNextWrite bool         // the next write fails (once)
	muts        []vMutation    // mutation log
	gate        func(op, key string) // optional scheduling gate
}

type vMutation struct {
	Op   string `json:"op"` // "w" or "rm"
	Key  string `json:"key"`
	Data []byte `json:"-"`
	Len  int    `json:"len"`
}

var errInjected = errors.New("injected storage fault")

func newVStore() *vStore { return &vStore{inner: storage.NewMockStorage()} }

func (s *vStore) step(op, key string) error {
	if s.gate != nil {
		s.gate(op, key)
	}
	s.mu.Lock()
	defer s.mu.Unlock()
	s.ops++
	if s.failAt != 0 && s.ops == s.failAt {
		s.failed = true
		return errInjected
	}
	return nil
}

func (s *vStore) Read(ctx context.Context, key string) ([]byte, error) {
	if err := s.step("r", key); err != nil {
		return nil, err
	}
	return s.inner.Read(ctx, key)
}

func (s *vStore) Write(ctx context.Context, key string, body []byte, o *storage.Options) error {
	if err := s.step("w", key); err != nil {
		return err
	}
	s.mu.Lock()
	if s.failNextWrite {
		s.failNextWrite, s.failed = false, true
		s.mu.Unlock()
		return errInjected
	}
	s.mu.Unlock()
	c := make([]byte, len(body))
	copy(c, body)
	s.mu.Lock()
	s.muts = append(s.muts, vMutation{Op: "w", Key: key, Data: c, Len: len(c)})
	s.mu.Unlock()
	return s.inner.Write(ctx, key, c, o)
}

func (s *vStore) Remove(ctx context.Context, key string) error {
	if err := s.step("rm", key); err != nil {
		return err
	}
	err := s.inner.Remove(ctx, key)
	if err != nil && s.rmMissingOK && errors.Is(err, storage.ErrNotFound) {
		err = nil
	}
	if err == nil {
		s.mu.Lock()
		s.muts = append(s.muts, vMutation{Op: "rm", Key: key})
		s.mu.Unlock()
	}
	return err
}

func (s *vStore) Search(ctx context.Context, q map[string]string) ([][]byte, error) {
	return s.inner.Search(ctx, q)
}
func (s *vStore) Clear(ctx context.Context, q map[string]string) error { return s.inner.Clear(ctx, q) }
func (s *vStore) List(ctx context.Context, p string) ([]string, error) { return s.inner.List(ctx, p) }
func (s *vStore) Copy(ctx context.Context, a, b string) error {
	if err := s.step("w", b); err != nil {
		return err
	}
	return s.inner.Copy(ctx, a, b)
}

// vImage materialises the storage contents after the first n mutations of the log.
func vImage(muts []vMutation, n int) *storage.MockStorage {
	m := storage.NewMockStorage()
	ctx := context.Background()
	for _, x := range muts[:n] {
		if x.Op == "w" {
			m.Write(ctx, x.Key, x.Data, nil)
		} else {
			m.Remove(ctx, x.Key)
		}
	}
	return m
}

type vNoFetch struct{}

func (vNoFetch) GetOutputs(ctx context.Context, ops []wire.OutPoint) ([]bitcoin.UTXO, error) {
	return make([]bitcoin.UTXO, len(ops)), nil
}
func (vNoFetch) GetTx(ctx context.Context, h bitcoin.Hash32) (*wire.MsgTx, error) {
	return nil, fmt.Errorf("not available")
}

func vConfig(start bitcoin.Hash32, safeDelayMs int) config.Config {
	cfg, _ := config.NewConfig(bitcoin.MainNet, true, "127.0.0.1:1", "verif", start.String(), 0, safeDelayMs, 10, 10, 100, false)
	return cfg
}

func vRecover(f func() int) (r int) {
	defer func() {
		if e := recover(); e != nil {
			r = vPANIC
		}
	}()
	return f()
}
