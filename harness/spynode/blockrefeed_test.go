package spynode

// Replay driver for spec/BlockRefeed.tla (growth beyond the listed properties): the real processBlocks goroutine, parked at its
// named point "proc.loop" (build tag verif) so that one Loop step of the specification is one iteration of the real loop; block
// messages go through the real message handlers; RefeedBlocksFromHeight is the real call.

import (
	"context"
	"fmt"
	"testing"
	"time"

	"github.com/tokenized/pkg/bitcoin"
	"github.com/tokenized/pkg/wire"
	"github.com/tokenized/spynode/pkg/client"
)

type brAct struct {
	A string `json:"a"`
	X int    `json:"x"`
}
type brSt struct {
	Next      int     `json:"next"`
	Held      int     `json:"held"`
	Out       []int   `json:"out"`
	Net       []int   `json:"net"`
	Provided  [][]int `json:"provided"`
	Delivered []int   `json:"delivered"` // relevant transactions handed to the handlers during the refeed (block b holds transaction b; update = -b)
	WindowLen int     `json:"window"`
}
type brLine struct {
	Tr   string `json:"tr"`
	Act  brAct  `json:"act"`
	St   brSt   `json:"st"`
	Skip string `json:"skip"`
}

type brRec struct {
	h        *brH
	provided [][]int
	txs      []int
}

func (r *brRec) HandleTx(ctx context.Context, tx *client.Tx)             { r.txs = append(r.txs, r.h.h.idOfTx[*tx.Tx.TxHash()]) }
func (r *brRec) HandleTxUpdate(ctx context.Context, u *client.TxUpdate) { r.txs = append(r.txs, -r.h.h.idOfTx[u.TxID]) }
func (r *brRec) HandleHeaders(ctx context.Context, hs *client.Headers) {
	for i, hd := range hs.Headers {
		r.provided = append(r.provided, []int{int(hs.StartHeight) + i, r.h.blockOf[*hd.BlockHash()]})
	}
}
func (r *brRec) HandleInSync(ctx context.Context)                            {}
func (r *brRec) HandleMessage(ctx context.Context, p client.MessagePayload) {}

type brH struct {
	t       *testing.T
	h       *txH // a node in sync on a chain of H blocks above its start block
	height  int
	blockOf map[bitcoin.Hash32]int // block hash -> height above the start block (1..H)
	msgs    map[int]*wire.MsgBlock
	rec     *brRec
	base    int // repository height of block 0 (the start block)
	out     []int
	net     []int
	arrive  chan struct{}
	release chan struct{}
	done    chan error
}

func newBR(t *testing.T, height int) *brH {
	ctx := vCtx()
	nt := height
	ins := make([][]int, nt)
	rel := make([]bool, nt)
	blk := make([][]int, nt)
	for i := 0; i < nt; i++ {
		ins[i] = []int{i + 1}
		rel[i] = true
		blk[i] = []int{i + 1} // block i+1 confirms transaction i+1
	}
	b := &brH{t: t, height: height, blockOf: map[bitcoin.Hash32]int{}, msgs: map[int]*wire.MsgBlock{}}
	b.h = newTxH(t, nt, ins, rel, blk)
	for i := 1; i <= height; i++ {
		if err := b.h.feedBlock(i + 1); err != nil {
			t.Fatalf("feed block %d: %v", i, err)
		}
	}
	n := b.h.n
	b.base = n.blocks.LastHeight() - height
	for i := 1; i <= height; i++ {
		hash, err := n.blocks.Hash(ctx, b.base+i)
		if err != nil {
			t.Fatalf("hash: %v", err)
		}
		b.blockOf[*hash] = i
		b.msgs[i] = b.h.blocks[i+1]
	}
	b.rec = &brRec{h: b}
	n.handlers = append(n.handlers, b.rec)
	b.h.drainOut()
	b.arrive = make(chan struct{}, 1)
	b.release = make(chan struct{})
	b.done = make(chan error, 1)
	verifHook = func(p string) {
		if p == "proc.loop" {
			b.arrive <- struct{}{}
			<-b.release
		}
	}
	go func() { b.done <- n.processBlocks(ctx) }()
	select {
	case <-b.arrive:
	case <-time.After(3 * time.Second):
		t.Fatalf("the block processor did not start")
	}
	return b
}

func (b *brH) close() {
	b.h.n.stopping = true
	select {
	case b.release <- struct{}{}:
	case <-time.After(time.Second):
	}
	select {
	case <-b.done:
	case <-time.After(2 * time.Second):
	}
	verifHook = nil
}

func (b *brH) collectOut() {
	ch := b.h.n.outgoing.Channel
	for len(ch) > 0 {
		m := <-ch
		if gd, ok := m.(*wire.MsgGetData); ok {
			for _, iv := range gd.InvList {
				if iv.Type == wire.InvTypeBlock {
					b.out = append(b.out, b.blockOf[iv.Hash])
				}
			}
		}
	}
}

func (b *brH) step(a brAct) (res string) {
	defer func() {
		if e := recover(); e != nil {
			res = fmt.Sprintf("PANIC: %v", e)
		}
	}()
	ctx := vCtx()
	n := b.h.n
	switch a.A {
	case "Refeed":
		if err := n.RefeedBlocksFromHeight(ctx, b.base+a.X); err != nil {
			return "refeed: " + err.Error()
		}
	case "Loop":
		if n.blockRefeeder.NextHeight() == 0 {
			return "refeeder inactive"
		}
		b.release <- struct{}{} // one iteration of the real loop
		select {
		case <-b.arrive:
		case err := <-b.done:
			return fmt.Sprintf("the block processor ended: %v", err)
		case <-time.After(5 * time.Second):
			return "the block processor did not come back"
		}
		b.collectOut()
	case "Answer":
		if len(b.out) == 0 {
			return "no request"
		}
		b.net = append(b.net, b.out[0])
		b.out = b.out[1:]
	case "Deliver":
		if len(b.net) == 0 {
			return "nothing in flight"
		}
		x := b.net[0]
		b.net = b.net[1:]
		mb := b.msgs[x]
		cp := wire.NewMsgBlock(&mb.Header)
		for _, tx := range mb.Transactions {
			cp.AddTransaction(tx)
		}
		n.handleMessage(ctx, cp)
	default:
		return "unknown action " + a.A
	}
	return ""
}

func (b *brH) project() brSt {
	n := b.h.n
	st := brSt{Out: append([]int{}, b.out...), Net: append([]int{}, b.net...), Provided: [][]int{}, Delivered: append([]int{}, b.rec.txs...)}
	if nh := n.blockRefeeder.NextHeight(); nh != 0 {
		st.Next = nh - b.base
	}
	if blk, _, _ := n.blockRefeeder.GetBlock(); blk != nil {
		hd := blk.GetHeader()
		st.Held = b.blockOf[*hd.BlockHash()]
	}
	for _, p := range b.rec.provided {
		st.Provided = append(st.Provided, []int{p[0] - b.base, p[1]})
	}
	req, _, _, _ := n.state.VerifProject()
	st.WindowLen = len(req)
	return st
}

func TestVerifReplayBlockRefeed(t *testing.T) {
	var in struct {
		H       int `json:"h"`
		Scripts []struct {
			ID    string  `json:"id"`
			Steps []brAct `json:"steps"`
		} `json:"scripts"`
	}
	vLoadScripts(t, &in)
	tr := vOpenTrace(t)
	defer tr.Close()
	for _, sc := range in.Scripts {
		b := newBR(t, in.H)
		tr.Emit(brLine{Tr: sc.ID, Act: brAct{A: "init"}, St: b.project()})
		for _, a := range sc.Steps {
			skip := b.step(a)
			tr.Emit(brLine{Tr: sc.ID, Act: a, St: b.project(), Skip: skip})
		}
		b.close()
	}
}
