package spynode

// Replay driver for spec/ChainSync.tla (C01, C02, C12 chain part, C13 at handler level).
// The real handlers, check(), NextBlock()/ProcessBlock() are stepped in the order a script gives;
// the trusted peer and the network are played by the harness.  After every step the real state is
// projected onto the specification's variables and logged.

import (
	"context"
	"encoding/json"
	"fmt"
	"sync"
	"testing"
	"time"

	"github.com/tokenized/pkg/bitcoin"
	"github.com/tokenized/pkg/wire"
	"github.com/tokenized/spynode/internal/handlers"
	"github.com/tokenized/spynode/internal/state"
	"github.com/tokenized/spynode/pkg/client"
)

// ---- recording client handler --------------------------------------------------------------
type csCB struct {
	Cb string `json:"cb"`
	H  int    `json:"h"`
	B  int    `json:"b"`
}

type csHandler struct {
	mu   sync.Mutex
	h    *csH
	cbs  []csCB
	annH []int
	annB []int
}

func (r *csHandler) HandleTx(ctx context.Context, tx *client.Tx)             {}
func (r *csHandler) HandleTxUpdate(ctx context.Context, u *client.TxUpdate) {}
func (r *csHandler) HandleHeaders(ctx context.Context, hs *client.Headers) {
	r.mu.Lock()
	defer r.mu.Unlock()
	for i, hd := range hs.Headers {
		b := r.h.id(*hd.BlockHash())
		r.cbs = append(r.cbs, csCB{Cb: "hdr", H: int(hs.StartHeight) + i, B: b})
		r.annH = append(r.annH, int(hs.StartHeight)+i)
		r.annB = append(r.annB, b)
	}
}
func (r *csHandler) HandleInSync(ctx context.Context) {
	r.mu.Lock()
	defer r.mu.Unlock()
	r.cbs = append(r.cbs, csCB{Cb: "insync"})
}
func (r *csHandler) HandleMessage(ctx context.Context, p client.MessagePayload) {}

// ---- gated block: parks ProcessBlock between the tip check and blocks.Add ---------------------
type csGate struct {
	wire.Block
	id      int
	reached chan struct{}
	release chan struct{}
	once    sync.Once
}

func (g *csGate) IsMerkleRootValid() bool {
	g.once.Do(func() { close(g.reached) })
	<-g.release
	return g.Block.IsMerkleRootValid()
}

// ---- messages --------------------------------------------------------------------------------
type csMsg struct {
	T  string `json:"t"`
	Hs []int  `json:"hs"`
	B  int    `json:"b"`
	F  int    `json:"f"`
}
type csReq struct {
	T   string `json:"t"`
	B   int    `json:"b"`
	Loc []int  `json:"loc"`
}
type csAct struct {
	A string `json:"a"`
	M csMsg  `json:"m"`
	R csReq  `json:"r"`
	T int    `json:"t"`
	K bool   `json:"k"`
}

func (m csMsg) key() string { b, _ := json.Marshal(m); return string(b) }
func (r csReq) key() string { b, _ := json.Marshal(r); return string(b) }

type csInfl struct {
	B  int    `json:"b"`
	F  int    `json:"f"`
	Pc string `json:"pc"`
}
type csReqP struct {
	B int `json:"b"`
	F int `json:"f"`
}
type csSt struct {
	Ptip      int      `json:"ptip"`
	Pann      int      `json:"pann"`
	Sendhdrs  bool     `json:"sendhdrs"`
	Net       []csMsg  `json:"net"`
	Out       []csReq  `json:"out"`
	Chain     []int    `json:"chain"`
	StartH    int      `json:"startH"`
	Req       []csReqP `json:"req"`
	ToReq     []int    `json:"toReq"`
	LastSaved int      `json:"lastSaved"`
	Infl      csInfl   `json:"infl"`
	InSync    bool     `json:"inSync"`
	PendSync  bool     `json:"pendSync"`
	HdrReq    bool     `json:"hdrReq"`
	HsDone    bool     `json:"hsDone"`
	Notified  bool     `json:"notified"`
	AnnH      []int    `json:"ann"`
	AnnB      []int    `json:"annb"`
	Hts       []int    `json:"hts"` // Height(hash of block id) for ids 1..N, -1 if not contained
	Saved     int      `json:"saved"`
}
type csLine struct {
	Tr   string `json:"tr"`
	Act  csAct  `json:"act"`
	St   csSt   `json:"st"`
	Obs  []csCB `json:"obs"`
	Skip string `json:"skip"` // non-empty: the scripted step was not enabled on the real system
	Auto bool   `json:"auto"` // step chosen by the harness's fair completion, not by the script
	Fin  bool   `json:"fin"`  // last line of a trace that was driven to quiescence
	Adv  bool   `json:"adv"`  // the trace contains adversarial input (no convergence obligation)
}

type csH struct {
	t        *testing.T
	par      []int
	startB   int
	batch    int
	n        *Node
	store    *vStore
	rec      *csHandler
	blk      map[int]*wire.MsgBlock
	bad      map[int]*wire.MsgBlock
	idOf     map[bitcoin.Hash32]int
	hashOf   map[int]bitcoin.Hash32
	ht       map[int]int
	ptip     int
	pann     int
	sendh    bool
	net      []csMsg
	out      []csReq
	infl     *csGate
	inflRaw  wire.Block
	inflID   int
	inflF    int
	inflPc   string
	done     chan error
	utrusted map[string]handlers.MessageHandler
	genesis  bitcoin.Hash32
	bootErr  error
}

func csCoinbase(tag int) *wire.MsgTx {
	t := wire.NewMsgTx(1)
	z := bitcoin.Hash32{}
	t.AddTxIn(wire.NewTxIn(wire.NewOutPoint(&z, 0xffffffff), []byte{4, byte(tag), byte(tag >> 8), 0, 0}))
	t.AddTxOut(wire.NewTxOut(50, []byte{0x51}))
	return t
}

func csGenesis() bitcoin.Hash32 {
	ctx := vCtx()
	tmp := NewNode(vConfig(bitcoin.Hash32{1}, 50), newVStore(), vNoFetch{}, vNoFetch{})
	tmp.load(ctx)
	return *tmp.blocks.LastHash()
}

func newCS(t *testing.T, par []int, startB, batch int, store *vStore) *csH {
	h := &csH{t: t, par: par, startB: startB, batch: batch, blk: map[int]*wire.MsgBlock{}, bad: map[int]*wire.MsgBlock{},
		idOf: map[bitcoin.Hash32]int{}, hashOf: map[int]bitcoin.Hash32{}, ht: map[int]int{0: 0}, inflPc: "idle"}
	h.genesis = csGenesis()
	h.idOf[h.genesis] = 0
	h.hashOf[0] = h.genesis
	for b := 1; b <= len(par)+1; b++ { // block len(par)+1 is the "unknown" header (parent nobody knows)
		var prev bitcoin.Hash32
		if b <= len(par) {
			prev = h.hashOf[par[b-1]]
			h.ht[b] = h.ht[par[b-1]] + 1
		} else {
			prev = bitcoin.Hash32{0xEE, 0xEE}
		}
		hdr := wire.NewBlockHeader(1, &prev, &bitcoin.Hash32{}, 0, uint32(1000+b))
		hdr.Timestamp = uint32(1600000000 + b)
		mb := wire.NewMsgBlock(hdr)
		mb.AddTransaction(csCoinbase(b))
		root, _ := mb.CalculateMerkleHash()
		mb.Header.MerkleRoot = *root
		h.blk[b] = mb
		h.hashOf[b] = *mb.Header.BlockHash()
		h.idOf[h.hashOf[b]] = b
		// same header, different body
		bb := wire.NewMsgBlock(&mb.Header)
		bb.AddTransaction(csCoinbase(b))
		bb.AddTransaction(csCoinbase(1000 + b))
		h.bad[b] = bb
	}
	h.store = store
	if err := h.boot(); err != nil {
		h.bootErr = err
	}
	return h
}

// boot creates a node process on the storage (first start or restart).
func (h *csH) boot() (err error) {
	defer func() {
		if e := recover(); e != nil {
			err = fmt.Errorf("PANIC in load: %v", e)
		}
	}()
	ctx := vCtx()
	start := bitcoin.Hash32{0xDD, 0xDD}
	if x, ok := h.hashOf[h.startB]; ok && h.startB >= 1 && h.startB <= len(h.par) {
		start = x
	}
	h.n = NewNode(vConfig(start, 50), h.store, vNoFetch{}, vNoFetch{})
	h.rec = &csHandler{h: h}
	h.n.RegisterHandler(h.rec)
	if err := h.n.load(ctx); err != nil {
		return err
	}
	h.n.unconfTxChannel.Open(1000)
	h.n.outgoing.Open(10000)
	h.n.state.SetVersionReceived()
	h.n.state.MarkConnected()
	h.net, h.out, h.sendh, h.pann = nil, nil, false, 0
	h.infl, h.inflRaw, h.inflID, h.inflF, h.inflPc = nil, nil, 0, 0, "idle"
	us := state.NewUntrustedState()
	h.utrusted = handlers.NewUntrustedMessageHandlers(ctx, h.n.state, us, h.n.peers, h.n.blocks, h.n.txTracker,
		h.n.memPool, &h.n.unconfTxChannel, h.n, "1.2.3.4:8333")
	return nil
}

func (h *csH) id(x bitcoin.Hash32) int {
	if v, ok := h.idOf[x]; ok {
		return v
	}
	return -99
}

func (h *csH) pathTo(b int) []int {
	var p []int
	for b != 0 {
		p = append([]int{b}, p...)
		b = h.par[b-1]
	}
	return p
}

// drain moves what the node queued for sending into the set of requests in flight.
func (h *csH) drain() {
	for {
		select {
		case m := <-h.n.outgoing.Channel:
			switch msg := m.(type) {
			case *wire.MsgGetHeaders:
				loc := []int{}
				for _, l := range msg.BlockLocatorHashes {
					loc = append(loc, h.id(*l))
				}
				h.out = append(h.out, csReq{T: "gh", Loc: loc})
			case *wire.MsgGetData:
				for _, iv := range msg.InvList {
					if iv.Type == wire.InvTypeBlock {
						h.out = append(h.out, csReq{T: "gd", B: h.id(iv.Hash), Loc: []int{}})
					}
				}
			case *wire.MsgSendHeaders:
				h.sendh = true
			}
		default:
			return
		}
	}
}

func (h *csH) more() {
	ctx := vCtx()
	_ = ctx
	g := wire.NewMsgGetData()
	for {
		x, _ := h.n.state.GetNextBlockToRequest()
		if x == nil {
			break
		}
		g.AddInvVect(wire.NewInvVect(wire.InvTypeBlock, x))
	}
	if len(g.InvList) > 0 {
		h.n.queueOutgoing(g)
	}
	h.drain()
}

func (h *csH) hdrMsg(hs []int) *wire.MsgHeaders {
	msg := wire.NewMsgHeaders()
	for _, x := range hs {
		hd := h.blk[x].Header
		msg.AddBlockHeader(&hd)
	}
	return msg
}

// handle gives one message to the real message handlers of the trusted connection.
func (h *csH) handle(m csMsg) {
	ctx := vCtx()
	if m.T == "hdr" {
		h.n.handleMessage(ctx, h.hdrMsg(m.Hs))
	} else {
		src := h.blk
		if m.F == 2 {
			src = h.bad
		}
		h.n.handleMessage(ctx, src[m.B])
		h.wrap(m.B)
	}
	h.drain()
}

// wrap puts the gate around a freshly buffered block so that ProcessBlock can be parked.
func (h *csH) wrap(b int) {
	h.n.state.VerifWrapBlock(h.hashOf[b], func(inner wire.Block) wire.Block {
		if g, ok := inner.(*csGate); ok {
			return g
		}
		return &csGate{Block: inner, id: b, reached: make(chan struct{}), release: make(chan struct{})}
	})
}

// send puts a message of the peer in flight (the network is a set: identical messages coincide).
func (h *csH) send(m csMsg) {
	if m.Hs == nil {
		m.Hs = []int{}
	}
	h.net = append(h.net, m)
}

func (h *csH) peerAnswer(r csReq) {
	if r.T == "gd" {
		if r.B >= 1 && r.B <= len(h.par) {
			h.send(csMsg{T: "blk", B: r.B, F: 1, Hs: []int{}})
		}
		return
	}
	pc := h.pathTo(h.ptip)
	on := map[int]int{0: 0}
	for i, b := range pc {
		on[b] = i + 1
	}
	from := 0
	for _, l := range r.Loc {
		if ht, ok := on[l]; ok {
			from = ht
			break
		}
	}
	end := from + h.batch
	if end > len(pc) {
		end = len(pc)
	}
	hs := append([]int{}, pc[from:end]...)
	h.send(csMsg{T: "hdr", Hs: hs})
	if len(hs) > 0 {
		h.pann = hs[len(hs)-1]
	} else {
		h.pann = h.ptip // nothing to send: the node is taken to be at the peer's tip
	}
}

func (h *csH) common(a, b int) int {
	for a != b {
		if h.ht[a] >= h.ht[b] {
			a = h.par[a-1]
		} else {
			b = h.par[b-1]
		}
	}
	return a
}

func (h *csH) netHas(m csMsg) int {
	k := m.key()
	for i, x := range h.net {
		if x.key() == k {
			return i
		}
	}
	return -1
}

func (h *csH) popInfl() bool {
	b := h.n.state.NextBlock()
	if b == nil {
		return false
	}
	h.inflRaw = b
	if g, ok := b.(*csGate); ok {
		h.infl = g
		h.inflID = g.id
	} else {
		h.infl = nil
		hd := b.GetHeader()
		h.inflID = h.id(*hd.BlockHash())
	}
	h.inflF = 1
	if !b.(*csGate).Block.IsMerkleRootValid() {
		h.inflF = 2
	}
	h.inflPc = "popped"
	return true
}

func (h *csH) clearInfl() {
	h.infl, h.inflRaw, h.inflID, h.inflF, h.inflPc = nil, nil, 0, 0, "idle"
}

// step executes one action; returns "" or the reason why it was not enabled.
func (h *csH) step(a csAct) (res string) {
	defer func() {
		if e := recover(); e != nil {
			res = fmt.Sprintf("PANIC: %v", e)
		}
	}()
	return h.step1(a)
}

func (h *csH) step1(a csAct) string {
	ctx := vCtx()
	switch a.A {
	case "PeerAdvance":
		if a.T < 1 || a.T > len(h.par) || h.ht[a.T] <= h.ht[h.ptip] {
			return "tip does not advance"
		}
		h.ptip = a.T
		if h.sendh {
			c := h.common(a.T, h.pann)
			p := h.pathTo(a.T)
			hs := append([]int{}, p[h.ht[c]:]...)
			if len(hs) <= 8 {
				h.send(csMsg{T: "hdr", Hs: hs})
				h.pann = a.T
			}
		}
	case "PeerAnswer":
		i := a.T - 1
		if i < 0 || i >= len(h.out) || h.out[i].key() != a.R.key() {
			// not at the scripted position: answer the same request wherever it is
			i = -1
			for j, o := range h.out {
				if o.key() == a.R.key() {
					i = j
					break
				}
			}
			if i < 0 {
				return "the node never made this request"
			}
		}
		r := h.out[i]
		h.out = append(h.out[:i:i], h.out[i+1:]...)
		h.peerAnswer(r)
	case "Deliver":
		if a.M.Hs == nil {
			a.M.Hs = []int{}
		}
		i := a.T - 1
		if i < 0 || i >= len(h.net) || h.net[i].key() != a.M.key() {
			i = h.netHas(a.M)
			if i < 0 {
				return "no such message in flight"
			}
		}
		m := h.net[i]
		if !a.K {
			h.net = append(h.net[:i:i], h.net[i+1:]...)
		}
		h.handle(m)
	case "AdvMsg":
		h.handle(a.M)
	case "UntrustedBlock":
		src := h.blk
		if a.M.F == 2 {
			src = h.bad
		}
		filled := false
		req, _, _, _ := h.n.state.VerifProject()
		for _, r := range req {
			if h.id(r.Hash) == a.M.B && !r.Filled {
				filled = true
			}
		}
		if !filled {
			return "no unfilled request for this block"
		}
		if hd, ok := h.utrusted[wire.CmdBlock]; ok {
			hd.Handle(ctx, src[a.M.B])
		}
		h.wrap(a.M.B)
		h.drain()
	case "Check":
		if err := h.n.check(ctx); err != nil {
			return "check failed: " + err.Error()
		}
		h.drain()
	case "ProcPop":
		if h.inflPc != "idle" {
			return "processor busy"
		}
		if !h.popInfl() {
			return "nothing to pop"
		}
	case "ProcCheck":
		if h.inflPc != "popped" {
			return "nothing popped"
		}
		h.done = make(chan error, 1)
		blk := h.inflRaw
		go func() { h.done <- h.n.ProcessBlock(ctx, blk) }()
		select {
		case <-h.infl.reached:
			h.inflPc = "checked"
		case <-h.done:
			h.clearInfl()
			h.more()
		case <-time.After(20 * time.Second):
			h.t.Fatalf("ProcCheck stuck")
		}
	case "ProcAdd":
		if h.inflPc != "checked" {
			return "nothing checked"
		}
		close(h.infl.release)
		select {
		case <-h.done:
		case <-time.After(20 * time.Second):
			h.t.Fatalf("ProcAdd stuck")
		}
		h.clearInfl()
		h.more()
	case "Restart":
		if h.inflPc != "idle" {
			return "processor busy"
		}
		h.n.state.VerifShiftClocks(601 * time.Second)
		if err := h.n.state.CheckTimeouts(); err == nil {
			return "no request timed out"
		}
		h.reconnect()
	case "Drop": // the connection is lost: same path (node.restart()) without a time-out
		if h.inflPc != "idle" {
			return "processor busy"
		}
		if !h.n.state.HandshakeComplete() {
			return "no handshake yet"
		}
		h.reconnect()
	case "ProcRestart":
		if h.inflPc != "idle" {
			return "processor busy"
		}
		h.n.blocks.Save(ctx)
		h.n.txs.Save(ctx)
		h.n.peers.Save(ctx)
		if err := h.boot(); err != nil {
			return "LOAD FAILED: " + err.Error()
		}
	default:
		h.t.Fatalf("unknown action %q", a.A)
	}
	return ""
}

// reconnect is node.restart(): Run saves, resets the state and reconnects; what was in flight is gone.
func (h *csH) reconnect() {
	h.n.blocks.Save(vCtx())
	h.n.state.Reset()
	h.n.state.SetVersionReceived()
	h.n.state.MarkConnected()
	for len(h.n.outgoing.Channel) > 0 {
		<-h.n.outgoing.Channel
	}
	h.net, h.out, h.sendh, h.pann = nil, nil, false, 0
}

func (h *csH) release() {
	if h.inflPc == "checked" && h.infl != nil {
		close(h.infl.release)
		<-h.done
	}
}

func (h *csH) project() csSt {
	ctx := vCtx()
	n := h.n
	st := csSt{Ptip: h.ptip, Pann: h.pann, Sendhdrs: h.sendh, Chain: []int{}, Req: []csReqP{}, ToReq: []int{},
		Net: []csMsg{}, Out: []csReq{}, Hts: []int{}}
	for i := 1; i <= n.blocks.LastHeight(); i++ {
		x, err := n.blocks.Hash(ctx, i)
		if err != nil {
			st.Chain = append(st.Chain, -1)
			continue
		}
		st.Chain = append(st.Chain, h.id(*x))
	}
	req, toReq, last, _ := n.state.VerifProject()
	for _, r := range req {
		f := 0
		if r.Filled {
			f = 1
			if r.Size > 200 { // the bad body has two transactions
				f = 2
			}
		}
		st.Req = append(st.Req, csReqP{B: h.id(r.Hash), F: f})
	}
	for _, x := range toReq {
		st.ToReq = append(st.ToReq, h.id(x))
	}
	st.LastSaved = h.id(last)
	st.Infl = csInfl{B: h.inflID, F: h.inflF, Pc: h.inflPc}
	st.StartH = n.state.StartHeight()
	st.InSync = n.state.IsReady()
	st.PendSync = n.state.IsPendingSync()
	st.HdrReq = n.state.HeadersRequested() != nil
	st.HsDone = n.state.HandshakeComplete()
	st.Notified = n.state.NotifiedSync()
	st.Net = append(st.Net, h.net...)
	st.Out = append(st.Out, h.out...)
	h.rec.mu.Lock()
	st.AnnH = append([]int{}, h.rec.annH...)
	st.AnnB = append([]int{}, h.rec.annB...)
	h.rec.mu.Unlock()
	for b := 1; b <= len(h.par); b++ {
		hash := h.hashOf[b]
		ht, ok := n.blocks.Height(&hash)
		if ok != n.blocks.Contains(&hash) {
			st.Hts = append(st.Hts, -7)
		} else if !ok {
			st.Hts = append(st.Hts, -1)
		} else {
			st.Hts = append(st.Hts, ht)
		}
	}
	return st
}

func (h *csH) takeObs() []csCB {
	h.rec.mu.Lock()
	defer h.rec.mu.Unlock()
	o := h.rec.cbs
	h.rec.cbs = nil
	if o == nil {
		o = []csCB{}
	}
	return o
}

func csSame(a, b csSt) bool {
	x, _ := json.Marshal(a)
	y, _ := json.Marshal(b)
	return string(x) == string(y)
}

// complete drives the system to quiescence with a fixed fair policy; every step is logged.
func (h *csH) complete(tr *vTrace, id string, adv bool, max int) {
	needCheck := true
	for i := 0; i < max; i++ {
		before := h.project()
		if needCheck {
			// monitorIncoming runs check() before it reads the next message
			needCheck = false
			ca := csAct{A: "Check"}
			if h.step(ca) == "" && !csSame(before, h.project()) {
				tr.Emit(csLine{Tr: id, Act: csNorm(ca), St: h.project(), Obs: h.takeObs(), Auto: true, Adv: adv})
				continue
			}
		}
		var a csAct
		if h.inflPc == "idle" {
			// the processor goroutine is never starved by network traffic: it takes a delivered block as soon as there is one
			pa := csAct{A: "ProcPop"}
			if h.step(pa) == "" {
				tr.Emit(csLine{Tr: id, Act: csNorm(pa), St: h.project(), Obs: h.takeObs(), Auto: true, Adv: adv})
				continue
			}
		}
		switch {
		case h.inflPc == "popped":
			a = csAct{A: "ProcCheck"}
		case h.inflPc == "checked":
			a = csAct{A: "ProcAdd"}
		case len(h.net) > 0:
			a = csAct{A: "Deliver", M: h.net[0], T: 1}
		case len(h.out) > 0:
			a = csAct{A: "PeerAnswer", R: h.out[0], T: 1}
		default:
			a = csAct{A: "ProcPop"}
		}
		skip := h.step(a)
		if skip != "" && a.A == "ProcPop" {
			a = csAct{A: "Check"}
			skip = h.step(a)
			if skip == "" && csSame(before, h.project()) {
				// nothing left to do: let the request time-outs fire
				a = csAct{A: "Restart"}
				skip = h.step(a)
				if skip != "" {
					return
				}
			}
		}
		if skip != "" {
			h.t.Logf("%s: completion step %v not enabled: %s", id, a.A, skip)
			return
		}
		if a.A == "Deliver" {
			needCheck = true
		}
		tr.Emit(csLine{Tr: id, Act: csNorm(a), St: h.project(), Obs: h.takeObs(), Auto: true, Adv: adv})
	}
	h.t.Logf("%s: completion did not reach quiescence in %d steps", id, max)
}

func csNorm(a csAct) csAct {
	if a.M.T == "" {
		a.M = csMsg{T: "hdr", Hs: []int{}}
	}
	if a.M.Hs == nil {
		a.M.Hs = []int{}
	}
	if a.R.T == "" {
		a.R = csReq{T: "gd", Loc: []int{}}
	}
	if a.R.Loc == nil {
		a.R.Loc = []int{}
	}
	return a
}

func TestVerifReplayChainSync(t *testing.T) {
	var in struct {
		Par     []int `json:"par"`
		Start   int   `json:"start"`
		Batch   int   `json:"batch"`
		Scripts []struct {
			ID       string  `json:"id"`
			Ptip     int     `json:"ptip"`
			Steps    []csAct `json:"steps"`
			Complete bool    `json:"complete"`
			Adv      bool    `json:"adv"`
		} `json:"scripts"`
	}
	vLoadScripts(t, &in)
	tr := vOpenTrace(t)
	defer tr.Close()
	for _, sc := range in.Scripts {
		h := newCS(t, in.Par, in.Start, in.Batch, newVStore())
		h.ptip = sc.Ptip
		tr.Emit(csLine{Tr: sc.ID, Act: csNorm(csAct{A: "init"}), St: h.project(), Obs: []csCB{}, Adv: sc.Adv})
		panicked := false
		for _, a := range sc.Steps {
			before := h.project()
			skip := h.step(a)
			if len(skip) >= 5 && skip[:5] == "PANIC" {
				// locks may still be held by the panicking call: do not touch the node again
				tr.Emit(csLine{Tr: sc.ID, Act: csNorm(a), St: before, Obs: []csCB{}, Skip: skip, Adv: sc.Adv})
				panicked = true
				break
			}
			if skip != "" {
				tr.Emit(csLine{Tr: sc.ID, Act: csNorm(a), St: h.project(), Obs: h.takeObs(), Skip: skip, Adv: sc.Adv})
				continue
			}
			tr.Emit(csLine{Tr: sc.ID, Act: csNorm(a), St: h.project(), Obs: h.takeObs(), Adv: sc.Adv})
		}
		if panicked {
			continue
		}
		if sc.Complete {
			h.complete(tr, sc.ID, sc.Adv, 700)
			tr.Emit(csLine{Tr: sc.ID, Act: csNorm(csAct{A: "final"}), St: h.project(), Obs: h.takeObs(), Fin: true, Adv: sc.Adv})
		}
		h.release()
	}
	_ = fmt.Sprint
}


// runScript executes a script (with the pseudo action "Complete" = drive to quiescence) and logs it when tr != nil.
func (h *csH) runScript(tr *vTrace, id string, steps []csAct, adv bool) bool {
	for _, a := range steps {
		if a.A == "Complete" {
			h.complete(tr, id, adv, 1500)
			continue
		}
		before := h.project()
		skip := h.step(a)
		if len(skip) >= 5 && skip[:5] == "PANIC" {
			tr.Emit(csLine{Tr: id, Act: csNorm(a), St: before, Obs: []csCB{}, Skip: skip, Adv: adv})
			return false
		}
		tr.Emit(csLine{Tr: id, Act: csNorm(a), St: h.project(), Obs: h.takeObs(), Skip: skip, Adv: adv})
	}
	return true
}

// TestVerifCrashChainSync (C10): every scenario is run once on a recording storage; then, for every prefix of the recorded
// storage mutations, a new node is started on the surviving image and driven to quiescence against the peer; and for every
// operation index j the scenario is re-run with the j-th storage operation failing, followed by a restart on what was stored.
func TestVerifCrashChainSync(t *testing.T) {
	var in struct {
		Par     []int `json:"par"`
		Start   int   `json:"start"`
		Batch   int   `json:"batch"`
		Scripts []struct {
			ID     string  `json:"id"`
			Ptip   int     `json:"ptip"`
			Steps  []csAct `json:"steps"`
			Faults bool    `json:"faults"`
			Stride int     `json:"stride"`
		} `json:"scripts"`
	}
	vLoadScripts(t, &in)
	tr := vOpenTrace(t)
	defer tr.Close()
	for _, sc := range in.Scripts {
		store := newVStore()
		h := newCS(t, in.Par, in.Start, in.Batch, store)
		h.ptip = sc.Ptip
		tr.Emit(csLine{Tr: sc.ID, Act: csNorm(csAct{A: "init"}), St: h.project(), Obs: []csCB{}, Adv: true})
		h.runScript(tr, sc.ID, sc.Steps, true)
		h.release()
		muts := append([]vMutation{}, store.muts...)
		ops := store.ops
		final := h.ptip
		stride := sc.Stride
		if stride < 1 {
			stride = 1
		}
		for i := 0; i <= len(muts); i++ {
			if i%stride != 0 && i != len(muts) {
				continue
			}
			id := fmt.Sprintf("%s#crash%d", sc.ID, i)
			h2 := newCS(t, in.Par, in.Start, in.Batch, &vStore{inner: vImage(muts, i)})
			if h2.bootErr != nil {
				tr.Emit(csLine{Tr: id, Act: csNorm(csAct{A: "init"}), St: csSt{Chain: []int{}, Req: []csReqP{}, ToReq: []int{}, Net: []csMsg{}, Out: []csReq{}, Hts: make([]int, len(in.Par)), AnnH: []int{}, AnnB: []int{}, Infl: csInfl{Pc: "idle"}},
					Obs: []csCB{}, Skip: "LOAD FAILED: " + h2.bootErr.Error()})
				continue
			}
			h2.ptip = final
			tr.Emit(csLine{Tr: id, Act: csNorm(csAct{A: "init"}), St: h2.project(), Obs: []csCB{}})
			h2.complete(tr, id, false, 1500)
			tr.Emit(csLine{Tr: id, Act: csNorm(csAct{A: "final"}), St: h2.project(), Obs: h2.takeObs(), Fin: true})
			h2.release()
		}
		if !sc.Faults {
			continue
		}
		for j := 1; j <= ops; j++ {
			if j%stride != 0 {
				continue
			}
			s2 := newVStore()
			s2.failAt = j
			idm := fmt.Sprintf("%s#fault%dm", sc.ID, j)
			h3 := newCS(t, in.Par, in.Start, in.Batch, s2)
			if h3.bootErr != nil {
				continue // the very first load failed: nothing was ever stored or held
			}
			h3.ptip = sc.Ptip
			tr.Emit(csLine{Tr: idm, Act: csNorm(csAct{A: "init"}), St: h3.project(), Obs: []csCB{}, Adv: true})
			ok := h3.runScript(tr, idm, sc.Steps, true)
			if ok {
				tr.Emit(csLine{Tr: idm, Act: csNorm(csAct{A: "final"}), St: h3.project(), Obs: h3.takeObs(), Adv: true})
			}
			h3.release()
			idr := fmt.Sprintf("%s#fault%dr", sc.ID, j)
			h4 := newCS(t, in.Par, in.Start, in.Batch, &vStore{inner: s2.inner})
			if h4.bootErr != nil {
				tr.Emit(csLine{Tr: idr, Act: csNorm(csAct{A: "init"}), St: csSt{Chain: []int{}, Req: []csReqP{}, ToReq: []int{}, Net: []csMsg{}, Out: []csReq{}, Hts: make([]int, len(in.Par)), AnnH: []int{}, AnnB: []int{}, Infl: csInfl{Pc: "idle"}},
					Obs: []csCB{}, Skip: "LOAD FAILED: " + h4.bootErr.Error()})
				continue
			}
			h4.ptip = h3.ptip
			tr.Emit(csLine{Tr: idr, Act: csNorm(csAct{A: "init"}), St: h4.project(), Obs: []csCB{}})
			h4.complete(tr, idr, false, 1500)
			tr.Emit(csLine{Tr: idr, Act: csNorm(csAct{A: "final"}), St: h4.project(), Obs: h4.takeObs(), Fin: true})
			h4.release()
		}
	}
}
