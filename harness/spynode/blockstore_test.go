package spynode

// Replay driver for spec/BlockStore.tla (C09): call sequences on the real BlockRepository at
// real scale (blocksPerKey = 1000).  Model height q*K+r is real height 1000*q + rho[r].

import (
	"testing"

	"github.com/tokenized/pkg/bitcoin"
	"github.com/tokenized/pkg/wire"
	"github.com/tokenized/spynode/internal/storage"
)

type bsStep struct {
	A  string `json:"a"`
	T  int    `json:"t"`
	N  int    `json:"n"`
	Mh int    `json:"mh"` // model height after the step according to the script (contract layer)
}

type bsGH struct {
	Cnt    int  `json:"cnt"`
	First  int  `json:"first"`
	Err    bool `json:"err"`
	Linked bool `json:"linked"`
}

type bsObs struct {
	H     int    `json:"h"`
	Tip   int    `json:"tip"`
	Hs    []int  `json:"hs"`
	Hd    []int  `json:"hd"`
	Ts    []int  `json:"ts"`
	Neg   []int  `json:"neg"`
	HdTip int    `json:"hdtip"`
	BhTip int    `json:"bhtip"`
	Ids   []int  `json:"ids"`
	Gh    []bsGH `json:"gh"`
}

type bsLine struct {
	Tr  string `json:"tr"`
	A   string `json:"a"`
	T   int    `json:"t"`
	N   int    `json:"n"`
	Rs  string `json:"rs"`
	Obs bsObs  `json:"obs"`
}

type bsH struct {
	k, rtop      int
	rho          []int
	maxH, maxID  int
	node         *Node
	store        *vStore
	idOf         map[bitcoin.Hash32]int
	hashOf       map[int]bitcoin.Hash32
	tsOf         map[uint32]int
	filler       uint32
	genesisStamp uint32
}

func (h *bsH) R(q int) int { return h.rtop*(q/h.k) + h.rho[q%h.k] }
func (h *bsH) RInv(x int) int {
	if x < 0 {
		return vNOMAP
	}
	for j, r := range h.rho {
		if r == x%h.rtop {
			return (x/h.rtop)*h.k + j
		}
	}
	return vNOMAP
}

func (h *bsH) idOfHash(x *bitcoin.Hash32) int {
	if x == nil {
		return vNONE
	}
	if id, ok := h.idOf[*x]; ok {
		return id
	}
	return vNOMAP
}

func newBS(k, rtop int, rho []int, maxH, maxID int, rmMissingOK bool) *bsH {
	ctx := vCtx()
	h := &bsH{k: k, rtop: rtop, rho: rho, maxH: maxH, maxID: maxID, idOf: map[bitcoin.Hash32]int{},
		hashOf: map[int]bitcoin.Hash32{}, tsOf: map[uint32]int{}}
	h.store = newVStore()
	h.store.rmMissingOK = rmMissingOK
	h.node = NewNode(vConfig(bitcoin.Hash32{1}, 50), h.store, vNoFetch{}, vNoFetch{})
	if err := h.node.blocks.Load(ctx); err != nil {
		panic(err)
	}
	g, _ := h.node.blocks.Header(ctx, 0)
	h.idOf[*g.BlockHash()] = 0
	h.hashOf[0] = *g.BlockHash()
	h.tsOf[g.Timestamp] = 0
	return h
}

// add appends real headers up to the real height of model height mh; the last one is header `id`.
func (h *bsH) add(id, mh int) string {
	ctx := vCtx()
	blocks := h.node.blocks
	target := h.R(mh)
	from := 0
	if mh > 0 {
		from = h.R(mh-1) + 1
	}
	for x := from; x <= target; x++ {
		prev := *blocks.LastHash()
		h.filler++
		hdr := wire.BlockHeader{Version: 1, PrevBlock: prev, Timestamp: 7, Bits: h.filler}
		if x == target {
			hdr.Timestamp = uint32(100000 + id)
		}
		if err := blocks.Add(ctx, &hdr); err != nil {
			return "err"
		}
		if x == target {
			h.idOf[*hdr.BlockHash()] = id
			h.hashOf[id] = *hdr.BlockHash()
			h.tsOf[hdr.Timestamp] = id
		}
	}
	return "ok"
}

func (h *bsH) code(x *bitcoin.Hash32, err error) int {
	if err != nil {
		return vERR
	}
	return h.idOfHash(x)
}

func (h *bsH) obs() bsObs {
	ctx := vCtx()
	b := h.node.blocks
	o := bsObs{}
	o.H = h.RInv(b.LastHeight())
	o.Tip = vRecover(func() int { return h.idOfHash(b.LastHash()) })
	hashAt := func(x int) int { return vRecover(func() int { r, err := b.Hash(ctx, x); return h.code(r, err) }) }
	hdrAt := func(x int) int {
		return vRecover(func() int {
			r, err := b.Header(ctx, x)
			if err != nil {
				return vERR
			}
			return h.idOfHash(r.BlockHash())
		})
	}
	timeAt := func(x int) int {
		return vRecover(func() int {
			r, err := h.node.Time(ctx, x)
			if err != nil {
				return vERR
			}
			if r == 0 {
				return vNONE
			}
			if id, ok := h.tsOf[r]; ok {
				return id
			}
			return vNOMAP
		})
	}
	for q := 0; q <= h.maxH+1; q++ {
		o.Hs = append(o.Hs, hashAt(h.R(q)))
		o.Hd = append(o.Hd, hdrAt(h.R(q)))
		o.Ts = append(o.Ts, timeAt(h.R(q)))
	}
	o.Neg = []int{hashAt(-1), hashAt(-2), hdrAt(-2), timeAt(-1), timeAt(-2)}
	o.HdTip = hdrAt(-1)
	o.BhTip = vRecover(func() int { r, err := h.node.BlockHash(ctx, -1); return h.code(r, err) })
	for id := 1; id <= h.maxID; id++ {
		hash, ok := h.hashOf[id]
		if !ok {
			o.Ids = append(o.Ids, vERR)
			continue
		}
		ht, exists := b.Height(&hash)
		if exists != b.Contains(&hash) {
			o.Ids = append(o.Ids, vNOMAP)
		} else if !exists {
			o.Ids = append(o.Ids, vERR)
		} else {
			o.Ids = append(o.Ids, h.RInv(ht))
		}
	}
	probes := []int{-1}
	for q := 0; q <= h.maxH+1; q++ {
		probes = append(probes, q)
	}
	for _, q := range probes {
		for _, n := range []int{1, 2, 3} {
			g := bsGH{First: vNONE, Linked: true}
			func() {
				defer func() {
					if e := recover(); e != nil {
						g = bsGH{First: vPANIC, Err: true, Linked: true}
					}
				}()
				rq := q
				if q >= 0 {
					rq = h.R(q)
				}
				r, err := h.node.GetHeaders(ctx, rq, n)
				if err != nil {
					g.Err = true
					return
				}
				g.Cnt = len(r.Headers)
				for i, hd := range r.Headers {
					if i == 0 {
						g.First = h.idOfHash(hd.BlockHash())
						// the reported start height must be the height of the first header
						if ht, ok := b.Height(hd.BlockHash()); !ok || uint32(ht) != r.StartHeight {
							g.Linked = false
						}
					} else if hd.PrevBlock != *r.Headers[i-1].BlockHash() {
						g.Linked = false
					}
				}
			}()
			o.Gh = append(o.Gh, g)
		}
	}
	return o
}

func TestVerifReplayBlockStore(t *testing.T) {
	var in struct {
		K       int   `json:"k"`
		RTop    int   `json:"rtop"`
		Rho     []int `json:"rho"`
		MaxH    int   `json:"maxh"`
		MaxID   int   `json:"maxid"`
		Scripts []struct {
			ID    string   `json:"id"`
			RmOK  bool     `json:"rmok"` // back end: removing a missing key succeeds
			Rho   []int    `json:"rho"`  // height map of this script (default: the payload's)
			Steps []bsStep `json:"steps"`
		} `json:"scripts"`
	}
	vLoadScripts(t, &in)
	tr := vOpenTrace(t)
	defer tr.Close()
	ctx := vCtx()
	for _, sc := range in.Scripts {
		rho := in.Rho
		if len(sc.Rho) == in.K {
			rho = sc.Rho
		}
		h := newBS(in.K, in.RTop, rho, in.MaxH, in.MaxID, sc.RmOK)
		tr.Emit(bsLine{Tr: sc.ID, A: "reset", Obs: h.obs()})
		mh := 0
		for _, st := range sc.Steps {
			ln := bsLine{Tr: sc.ID, A: st.A, T: st.T, N: st.N}
			func() {
				defer func() {
					if e := recover(); e != nil {
						ln.Rs = "panic"
					}
				}()
				switch st.A {
				case "Add":
					ln.Rs = h.add(st.T, mh+1)
				case "Save":
					ln.Rs = "ok"
					if err := h.node.blocks.Save(ctx); err != nil {
						ln.Rs = "err"
					}
				case "Load":
					ln.Rs = "ok"
					if err := h.node.blocks.Load(ctx); err != nil {
						ln.Rs = "err"
					}
				case "Revert":
					ln.Rs = "ok"
					if err := h.node.blocks.Revert(ctx, h.R(st.T)); err != nil {
						ln.Rs = "err"
					}
				default:
					t.Fatalf("unknown action %s", st.A)
				}
			}()
			mh = st.Mh
			ln.Obs = h.obs()
			tr.Emit(ln)
		}
	}
	_ = storage.ErrInvalidHeight
}
