package spynode

// Replay driver for spec/BlockStore.tla (C09): call sequences on the real BlockRepository at
// real scale (blocksPerKey = 1000).  Model height q*K+r is real height 1000*q + rho[r].

import (
	"fmt"
	"testing"

	"github.com/tokenized/pkg/bitcoin"
	"github.com/tokenized/pkg/wire"
	"github.com/tokenized/spynode/internal/storage"
)

type bsStep struct {
	A  string `json:"a"`
	T  int    `json:"t"`
	N  int    `json:"n"`
	Mh int    `json:"mh"` // model height after the step according to the script (contract layer)
}

type bsGH struct {
	Cnt    int  `json:"cnt"`
	First  int  `json:"first"`
	Err    bool `json:"err"`
	Linked bool `json:"linked"`
}

type bsObs struct {
	H     int    `json:"h"`
	Tip   int    `json:"tip"`
	Hs    []int  `json:"hs"`
	Hd    []int  `json:"hd"`
	Ts    []int  `json:"ts"`
	Neg   []int  `json:"neg"`
	HdTip int    `json:"hdtip"`
	BhTip int    `json:"bhtip"`
	Ids   []int  `json:"ids"`
	Gh    []bsGH `json:"gh"`
}

type bsLine struct {
	Tr  string `json:"tr"`
	A   string `json:"a"`
	T   int    `json:"t"`
	N   int    `json:"n"`
	Rs  string `json:"rs"`
	Obs bsObs  `json:"obs"`
}

type bsCrash struct {
	Tr    string `json:"tr"`
	A     string `json:"a"`   // "crash"
	K     int    `json:"k"`   // number of storage mutations that survived
	Of    int    `json:"of"`  // total mutations of the scenario
	Ok    bool   `json:"ok"`  // the surviving files load to a prefix of the chain before or after the interrupted call
	Why   string `json:"why"`
	H     int    `json:"h"`   // loaded height
}

type bsH struct {
	ghost        []bitcoin.Hash32   // the chain as the calls and their results define it (real scale)
	pghost       []bitcoin.Hash32   // ... as last persisted
	k, rtop      int
	rho          []int
	maxH, maxID  int
	node         *Node
	store        *vStore
	idOf         map[bitcoin.Hash32]int
	hashOf       map[int]bitcoin.Hash32
	tsOf         map[uint32]int
	filler       uint32
	genesisStamp uint32
}

func (h *bsH) R(q int) int { return h.rtop*(q/h.k) + h.rho[q%h.k] }
func (h *bsH) RInv(x int) int {
	if x < 0 {
		return vNOMAP
	}
	for j, r := range h.rho {
		if r == x%h.rtop {
			return (x/h.rtop)*h.k + j
		}
	}
	return vNOMAP
}

func (h *bsH) idOfHash(x *bitcoin.Hash32) int {
	if x == nil {
		return vNONE
	}
	if id, ok := h.idOf[*x]; ok {
		return id
	}
	return vNOMAP
}

func newBS(k, rtop int, rho []int, maxH, maxID int, rmMissingOK bool) *bsH {
	ctx := vCtx()
	h := &bsH{k: k, rtop: rtop, rho: rho, maxH: maxH, maxID: maxID, idOf: map[bitcoin.Hash32]int{},
		hashOf: map[int]bitcoin.Hash32{}, tsOf: map[uint32]int{}}
	h.store = newVStore()
	h.store.rmMissingOK = rmMissingOK
	h.node = NewNode(vConfig(bitcoin.Hash32{1}, 50), h.store, vNoFetch{}, vNoFetch{})
	if err := h.node.blocks.Load(ctx); err != nil {
		panic(err)
	}
	g, _ := h.node.blocks.Header(ctx, 0)
	h.idOf[*g.BlockHash()] = 0
	h.hashOf[0] = *g.BlockHash()
	h.tsOf[g.Timestamp] = 0
	h.ghost = []bitcoin.Hash32{*g.BlockHash()}
	h.pghost = []bitcoin.Hash32{*g.BlockHash()}
	return h
}

func bsIsPrefix(a, b []bitcoin.Hash32) bool {
	if len(a) > len(b) {
		return false
	}
	for i := range a {
		if a[i] != b[i] {
			return false
		}
	}
	return true
}

// add appends real headers up to the real height of model height mh; the last one is header `id`.
func (h *bsH) add(id, mh int) string {
	ctx := vCtx()
	blocks := h.node.blocks
	target := h.R(mh)
	from := 0
	if mh > 0 {
		from = h.R(mh-1) + 1
	}
	for x := from; x <= target; x++ {
		prev := *blocks.LastHash()
		h.filler++
		hdr := wire.BlockHeader{Version: 1, PrevBlock: prev, Timestamp: 7, Bits: h.filler}
		if x == target {
			hdr.Timestamp = uint32(100000 + id)
		}
		if err := blocks.Add(ctx, &hdr); err != nil {
			return "err"
		}
		if len(h.ghost)%1000 == 0 {
			h.pghost = append([]bitcoin.Hash32{}, h.ghost...) // a full file is saved on roll-over
		}
		h.ghost = append(h.ghost, *hdr.BlockHash())
		if x == target {
			h.idOf[*hdr.BlockHash()] = id
			h.hashOf[id] = *hdr.BlockHash()
			h.tsOf[hdr.Timestamp] = id
		}
	}
	return "ok"
}

func (h *bsH) code(x *bitcoin.Hash32, err error) int {
	if err != nil {
		return vERR
	}
	return h.idOfHash(x)
}

func (h *bsH) obs() bsObs {
	ctx := vCtx()
	b := h.node.blocks
	o := bsObs{}
	o.H = h.RInv(b.LastHeight())
	o.Tip = vRecover(func() int { return h.idOfHash(b.LastHash()) })
	hashAt := func(x int) int { return vRecover(func() int { r, err := b.Hash(ctx, x); return h.code(r, err) }) }
	hdrAt := func(x int) int {
		return vRecover(func() int {
			r, err := b.Header(ctx, x)
			if err != nil {
				return vERR
			}
			return h.idOfHash(r.BlockHash())
		})
	}
	timeAt := func(x int) int {
		return vRecover(func() int {
			r, err := h.node.Time(ctx, x)
			if err != nil {
				return vERR
			}
			if r == 0 {
				return vNONE
			}
			if id, ok := h.tsOf[r]; ok {
				return id
			}
			return vNOMAP
		})
	}
	for q := 0; q <= h.maxH+1; q++ {
		o.Hs = append(o.Hs, hashAt(h.R(q)))
		o.Hd = append(o.Hd, hdrAt(h.R(q)))
		o.Ts = append(o.Ts, timeAt(h.R(q)))
	}
	o.Neg = []int{hashAt(-1), hashAt(-2), hdrAt(-2), timeAt(-1), timeAt(-2)}
	o.HdTip = hdrAt(-1)
	o.BhTip = vRecover(func() int { r, err := h.node.BlockHash(ctx, -1); return h.code(r, err) })
	for id := 1; id <= h.maxID; id++ {
		hash, ok := h.hashOf[id]
		if !ok {
			o.Ids = append(o.Ids, vERR)
			continue
		}
		ht, exists := b.Height(&hash)
		if exists != b.Contains(&hash) {
			o.Ids = append(o.Ids, vNOMAP)
		} else if !exists {
			o.Ids = append(o.Ids, vERR)
		} else {
			o.Ids = append(o.Ids, h.RInv(ht))
		}
	}
	probes := []int{-1}
	for q := 0; q <= h.maxH+1; q++ {
		probes = append(probes, q)
	}
	for _, q := range probes {
		for _, n := range []int{1, 2, 3} {
			g := bsGH{First: vNONE, Linked: true}
			func() {
				defer func() {
					if e := recover(); e != nil {
						g = bsGH{First: vPANIC, Err: true, Linked: true}
					}
				}()
				rq := q
				if q >= 0 {
					rq = h.R(q)
				}
				r, err := h.node.GetHeaders(ctx, rq, n)
				if err != nil {
					g.Err = true
					return
				}
				g.Cnt = len(r.Headers)
				for i, hd := range r.Headers {
					if i == 0 {
						g.First = h.idOfHash(hd.BlockHash())
						// the reported start height must be the height of the first header
						if ht, ok := b.Height(hd.BlockHash()); !ok || uint32(ht) != r.StartHeight {
							g.Linked = false
						}
					} else if hd.PrevBlock != *r.Headers[i-1].BlockHash() {
						g.Linked = false
					}
				}
			}()
			o.Gh = append(o.Gh, g)
		}
	}
	return o
}

func TestVerifReplayBlockStore(t *testing.T) {
	var in struct {
		K       int   `json:"k"`
		RTop    int   `json:"rtop"`
		Rho     []int `json:"rho"`
		MaxH    int   `json:"maxh"`
		MaxID   int   `json:"maxid"`
		Scripts []struct {
			ID    string   `json:"id"`
			RmOK  bool     `json:"rmok"` // back end: removing a missing key succeeds
			Crash bool     `json:"crash"` // enumerate crash points over the recorded storage mutations
			Rho   []int    `json:"rho"`  // height map of this script (default: the payload's)
			Steps []bsStep `json:"steps"`
		} `json:"scripts"`
	}
	vLoadScripts(t, &in)
	tr := vOpenTrace(t)
	defer tr.Close()
	ctx := vCtx()
	for _, sc := range in.Scripts {
		rho := in.Rho
		if len(sc.Rho) == in.K {
			rho = sc.Rho
		}
		h := newBS(in.K, in.RTop, rho, in.MaxH, in.MaxID, sc.RmOK)
		tr.Emit(bsLine{Tr: sc.ID, A: "reset", Obs: h.obs()})
		mh := 0
		type snap struct {
			at     int // number of mutations issued before the call
			before []bitcoin.Hash32
		}
		var snaps []snap
		for _, st := range sc.Steps {
			snaps = append(snaps, snap{at: len(h.store.muts), before: append([]bitcoin.Hash32{}, h.ghost...)})
			ln := bsLine{Tr: sc.ID, A: st.A, T: st.T, N: st.N}
			func() {
				defer func() {
					if e := recover(); e != nil {
						ln.Rs = "panic"
					}
				}()
				switch st.A {
				case "Add":
					ln.Rs = h.add(st.T, mh+1)
				case "Save":
					ln.Rs = "ok"
					if err := h.node.blocks.Save(ctx); err != nil {
						ln.Rs = "err"
					}
				case "Load":
					ln.Rs = "ok"
					if err := h.node.blocks.Load(ctx); err != nil {
						ln.Rs = "err"
					}
				case "Revert":
					ln.Rs = "ok"
					if err := h.node.blocks.Revert(ctx, h.R(st.T)); err != nil {
						ln.Rs = "err"
					}
				default:
					t.Fatalf("unknown action %s", st.A)
				}
			}()
			mh = st.Mh
			// contract layer at real scale (BlockStoreC!Ghost)
			if ln.Rs == "ok" {
				switch st.A {
				case "Save":
					h.pghost = append([]bitcoin.Hash32{}, h.ghost...)
				case "Revert":
					if n := h.R(st.T) + 1; n <= len(h.ghost) { // (a store that accepts a revert above the tip is caught by the answers)
						h.ghost = h.ghost[:n]
					}
					h.pghost = append([]bitcoin.Hash32{}, h.ghost...)
				case "Load":
					h.ghost = append([]bitcoin.Hash32{}, h.pghost...)
				}
			}
			ln.Obs = h.obs()
			tr.Emit(ln)
		}
		if !sc.Crash {
			continue
		}
		// C10: the process dies after any individual storage mutation
		snaps = append(snaps, snap{at: len(h.store.muts), before: append([]bitcoin.Hash32{}, h.ghost...)})
		muts := h.store.muts
		for k := 0; k <= len(muts); k++ {
			// the call that was interrupted: the last snapshot with at <= k (and the state after it = next snapshot's before)
			var before, after []bitcoin.Hash32
			for i := range snaps {
				if snaps[i].at <= k {
					before = snaps[i].before
					if i+1 < len(snaps) {
						after = snaps[i+1].before
					} else {
						after = before
					}
				}
			}
			c := bsCrash{Tr: sc.ID, A: "crash", K: k, Of: len(muts), Ok: true}
			repo := storage.NewBlockRepository(h.node.config, vImage(muts, k))
			func() {
				defer func() {
					if e := recover(); e != nil {
						c.Ok, c.Why = false, fmt.Sprintf("PANIC in Load: %v", e)
					}
				}()
				if err := repo.Load(ctx); err != nil {
					c.Ok, c.Why = false, "load failed: "+err.Error()
					return
				}
				c.H = repo.LastHeight()
				loaded := make([]bitcoin.Hash32, 0, c.H+1)
				for i := 0; i <= c.H; i++ {
					x, err := repo.Hash(ctx, i)
					if err != nil {
						c.Ok, c.Why = false, fmt.Sprintf("hash(%d) after load: %v", i, err)
						return
					}
					loaded = append(loaded, *x)
					if i > 2 && i < c.H-1200 && i%1000 > 2 && i%1000 < 997 {
						i += 90 // older files: sample (every file is read and parsed per query)
					}
				}
				// sampled comparison: compare what was read position by position
				ok := func(ref []bitcoin.Hash32) bool {
					if c.H+1 > len(ref) {
						return false
					}
					j := 0
					for i := 0; i <= c.H; i++ {
						if loaded[j] != ref[i] {
							return false
						}
						j++
						if i > 2 && i < c.H-1200 && i%1000 > 2 && i%1000 < 997 {
							i += 90
						}
					}
					return true
				}
				if !ok(before) && !ok(after) {
					c.Ok, c.Why = false, fmt.Sprintf("loaded chain of height %d is not a prefix of the chain before (%d) or after (%d) the interrupted call", c.H, len(before)-1, len(after)-1)
					return
				}
				// resume on the surviving image: grow across the next two file boundaries, save, and load again
				// (files left behind by the interrupted call must not come back)
				tipBefore := *repo.LastHash()
				var added []bitcoin.Hash32
				var repo2 *storage.BlockRepository
				for _, upto := range []int{500, 2100} {
					for g := len(added); g < upto; g++ {
						prev := *repo.LastHash()
						hdr := wire.BlockHeader{Version: 2, PrevBlock: prev, Timestamp: 9, Bits: uint32(g)}
						if err := repo.Add(ctx, &hdr); err != nil {
							c.Ok, c.Why = false, "add after recovery: "+err.Error()
							return
						}
						added = append(added, *hdr.BlockHash())
					}
					if err := repo.Save(ctx); err != nil {
						c.Ok, c.Why = false, "save after recovery: "+err.Error()
						return
					}
					repo2 = storage.NewBlockRepository(h.node.config, repo.VerifStore())
					if err := repo2.Load(ctx); err != nil {
						c.Ok, c.Why = false, fmt.Sprintf("after recovery and growth by %d the store does not load: %v", upto, err)
						return
					}
					if repo2.LastHeight() != c.H+upto || *repo2.LastHash() != added[len(added)-1] {
						c.Ok, c.Why = false, fmt.Sprintf("after recovery, growth by %d and reload the height is %d (expected %d)", upto, repo2.LastHeight(), c.H+upto)
						return
					}
					for _, off := range []int{0, 1, 2, 499, 500, 999, 1000, 1001, 1999, 2000, 2001, 2099} {
						if off >= upto {
							continue
						}
						x, err := repo2.Hash(ctx, c.H+1+off)
						if err != nil || *x != added[off] {
							c.Ok, c.Why = false, fmt.Sprintf("after recovery, growth by %d and reload the hash at height %d is wrong", upto, c.H+1+off)
							return
						}
					}
				}
				if x, err := repo2.Hash(ctx, c.H); err != nil || *x != tipBefore {
					c.Ok, c.Why = false, "after recovery, growth and reload the recovered tip is gone"
				}
			}()
			tr.Emit(c)
		}
	}
	_ = storage.ErrInvalidHeight
}
