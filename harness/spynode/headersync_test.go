package spynode

// Replay driver for spec/HeaderSync.tla (C10, a single failing storage write during the header-only sync across block-file roll-overs):
// the real headers handler, state and BlockRepository of a Node whose start block is never found (every header is added by the handler
// itself), a peer chain of 2050 headers answered 700 at a time, a storage whose next write can be made to fail once.  The chain is
// projected as runs of consecutive peer heights; `saved` and `schain` are what a NEW node loads from the storage as it is.

import (
	"fmt"
	"testing"
)

type hsRun struct {
	A int `json:"a"`
	B int `json:"b"`
}
type hsSt struct {
	Chain  []hsRun `json:"chain"`
	Last   int     `json:"last"`
	Saved  int     `json:"saved"`
	SChain []hsRun `json:"schain"`
	SLoad  string  `json:"sload"`
	Req    int     `json:"req"`
	Fault  string  `json:"fault"`
	Hs     bool    `json:"hs"`
	Ptip   int     `json:"ptip"`
}
type hsAct struct {
	A string `json:"a"`
	T int    `json:"t"`
}
type hsLine struct {
	Tr   string `json:"tr"`
	Act  hsAct  `json:"act"`
	St   hsSt   `json:"st"`
	Skip string `json:"skip"`
}

func hsRuns(n *Node, h *csH) []hsRun {
	ctx := vCtx()
	out := []hsRun{}
	for i := 1; i <= n.blocks.LastHeight(); i++ {
		id := -1
		if x, err := n.blocks.Hash(ctx, i); err == nil {
			id = h.id(*x)
		}
		if k := len(out); k > 0 && out[k-1].B == id-1 && id > 0 {
			out[k-1].B = id
		} else {
			out = append(out, hsRun{id, id})
		}
	}
	return out
}

func (h *csH) hsProject() (st hsSt) {
	st = hsSt{Chain: hsRuns(h.n, h), Last: h.id(h.n.state.LastHash()), Req: -1, Fault: "none", Hs: h.n.state.HandshakeComplete(), Ptip: h.ptip, SChain: []hsRun{}}
	if h.n.state.HeadersRequested() != nil {
		st.Req = -2
		for _, o := range h.out {
			if o.T == "gh" && len(o.Loc) > 0 {
				st.Req = o.Loc[0]
				break
			}
		}
	}
	h.store.mu.Lock()
	if h.store.failNextWrite {
		st.Fault = "armed"
	}
	muts := append([]vMutation{}, h.store.muts...)
	h.store.mu.Unlock()
	// what a new node would load from the storage as it is now
	func() {
		defer func() {
			if e := recover(); e != nil {
				st.SLoad = fmt.Sprintf("PANIC in load: %v", e)
			}
		}()
		n2 := NewNode(vConfig(h.hashOf[len(h.par)+1], 50), &vStore{inner: vImage(muts, len(muts))}, vNoFetch{}, vNoFetch{})
		if err := n2.load(vCtx()); err != nil {
			st.SLoad = "LOAD FAILED: " + err.Error()
			return
		}
		st.Saved = n2.blocks.LastHeight()
		st.SChain = hsRuns(n2, h)
	}()
	return st
}

func (h *csH) hsCheck() {
	for i := 0; i < 4; i++ {
		n := len(h.out)
		h.step(csAct{A: "Check"})
		if len(h.out) == n {
			return
		}
	}
}

func (h *csH) hsAnswer() string {
	for i, o := range h.out {
		if o.T != "gh" {
			continue
		}
		h.out = append(h.out[:i:i], h.out[i+1:]...)
		h.peerAnswer(o)
		if len(h.net) == 0 {
			return "the peer sent nothing"
		}
		m := h.net[len(h.net)-1]
		h.net = h.net[:len(h.net)-1]
		h.handle(m)
		return ""
	}
	return "not enabled"
}

func (h *csH) hsStep(a hsAct) (res string) {
	defer func() {
		if e := recover(); e != nil {
			res = fmt.Sprintf("PANIC: %v", e)
		}
	}()
	switch a.A {
	case "Check":
		if h.n.state.HeadersRequested() != nil {
			return "not enabled"
		}
		h.hsCheck()
	case "Answer":
		return h.hsAnswer()
	case "Timeout":
		if h.n.state.HeadersRequested() == nil {
			return "not enabled"
		}
		return h.step(csAct{A: "Restart"})
	case "Restart":
		if h.store.failNextWrite {
			return "not enabled"
		}
		return h.step(csAct{A: "ProcRestart"})
	case "Crash":
		h.store.mu.Lock()
		h.store.failNextWrite = false
		h.store.mu.Unlock()
		if err := h.boot(); err != nil {
			return "LOAD FAILED: " + err.Error()
		}
	case "Arm":
		if h.store.failNextWrite || h.n.state.HeadersRequested() == nil {
			return "not enabled"
		}
		h.store.mu.Lock()
		h.store.failNextWrite = true
		h.store.mu.Unlock()
	default:
		return "unknown action " + a.A
	}
	return ""
}

// hsComplete lets the node sync to quiescence the way the run loop would: check, answer, and a time-out when nothing moves.
func (h *csH) hsComplete() {
	for i := 0; i < 40; i++ {
		if h.n.state.HeadersRequested() == nil {
			before := len(h.out)
			h.hsCheck()
			if len(h.out) == before {
				return // nothing requested: the node considers itself done
			}
			continue
		}
		if h.hsAnswer() != "" {
			if h.step(csAct{A: "Restart"}) != "" {
				return
			}
		}
	}
}

func TestVerifReplayHeaderSync(t *testing.T) {
	var in struct {
		N       int `json:"n"`
		Batch   int `json:"batch"`
		Scripts []struct {
			ID    string  `json:"id"`
			Ptip  int     `json:"ptip"`
			Steps []hsAct `json:"steps"`
		} `json:"scripts"`
	}
	vLoadScripts(t, &in)
	tr := vOpenTrace(t)
	defer tr.Close()
	par := make([]int, in.N)
	for i := range par {
		par[i] = i // block i+1 on block i: one linear chain
	}
	for _, sc := range in.Scripts {
		h := newCS(t, par, 0, in.Batch, newVStore()) // start block 0 = a hash the peer never announces: header-only sync throughout
		if h.bootErr != nil {
			t.Fatalf("first load failed: %v", h.bootErr)
		}
		h.ptip = sc.Ptip
		tr.Emit(hsLine{Tr: sc.ID, Act: hsAct{A: "init"}, St: h.hsProject()})
		for _, a := range sc.Steps {
			skip := h.hsStep(a)
			tr.Emit(hsLine{Tr: sc.ID, Act: a, St: h.hsProject(), Skip: skip})
		}
		skip := ""
		func() {
			defer func() {
				if e := recover(); e != nil {
					skip = fmt.Sprintf("PANIC: %v", e)
				}
			}()
			h.store.mu.Lock()
			h.store.failNextWrite = false
			h.store.mu.Unlock()
			h.hsComplete()
		}()
		tr.Emit(hsLine{Tr: sc.ID, Act: hsAct{A: "final"}, St: h.hsProject(), Skip: skip})
		h.release()
	}
}
