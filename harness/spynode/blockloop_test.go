package spynode

// Replay driver for spec/BlockLoop.tla (C13 at the level of the wire): the real headers handler, block handler and the real
// processBlocks goroutine (parked at its named point "proc.loop", build tag verif: one Loop step = one iteration of the real loop);
// every getdata(block) the node queues for the trusted connection is recorded in order.

import (
	"fmt"
	"testing"
	"time"

	"github.com/tokenized/pkg/wire"
)

type blAct struct {
	A string `json:"a"`
	X int    `json:"x"`
}
type blReq struct {
	B int  `json:"b"`
	F bool `json:"f"`
}
type blSt struct {
	Ann   int     `json:"ann"`
	Req   []blReq `json:"req"`
	ToReq []int   `json:"toReq"`
	Wire  []int   `json:"wire"`
	Ans   int     `json:"ans"`
	Net   []int   `json:"net"`
	Done  int     `json:"done"`
}
type blLine struct {
	Tr   string `json:"tr"`
	Act  blAct  `json:"act"`
	St   blSt   `json:"st"`
	Skip string `json:"skip"`
}

type blH struct {
	t       *testing.T
	h       *csH
	n       int
	ann     int
	wire    []int
	ans     int
	net     []int
	arrive  chan struct{}
	release chan struct{}
	done    chan error
}

func newBL(t *testing.T, n int) *blH {
	par := make([]int, n)
	for i := range par {
		par[i] = i
	}
	b := &blH{t: t, n: n, h: newCS(t, par, 1, 2000, newVStore())}
	if b.h.bootErr != nil {
		t.Fatalf("boot: %v", b.h.bootErr)
	}
	ctx := vCtx()
	b.h.n.check(ctx) // handshake: the header request goes out
	b.collect()
	b.wire = nil
	b.arrive = make(chan struct{}, 1)
	b.release = make(chan struct{})
	b.done = make(chan error, 1)
	verifHook = func(p string) {
		if p == "proc.loop" {
			b.arrive <- struct{}{}
			<-b.release
		}
	}
	go func() { b.done <- b.h.n.processBlocks(ctx) }()
	select {
	case <-b.arrive:
	case <-time.After(3 * time.Second):
		t.Fatalf("the block processor did not start")
	}
	return b
}

func (b *blH) close() {
	b.h.n.stopping = true
	select {
	case b.release <- struct{}{}:
	case <-time.After(time.Second):
	}
	select {
	case <-b.done:
	case <-time.After(2 * time.Second):
	}
	verifHook = nil
}

// collect appends every block request the node has queued for the connection, in order.
func (b *blH) collect() {
	ch := b.h.n.outgoing.Channel
	for len(ch) > 0 {
		if gd, ok := (<-ch).(*wire.MsgGetData); ok {
			for _, iv := range gd.InvList {
				if iv.Type == wire.InvTypeBlock {
					b.wire = append(b.wire, b.h.id(iv.Hash))
				}
			}
		}
	}
}

func (b *blH) step(a blAct) (res string) {
	defer func() {
		if e := recover(); e != nil {
			res = fmt.Sprintf("PANIC: %v", e)
		}
	}()
	ctx := vCtx()
	n := b.h.n
	switch a.A {
	case "Announce":
		if b.ann+a.X > b.n {
			return "no more headers"
		}
		hs := []int{}
		for i := 1; i <= a.X; i++ {
			hs = append(hs, b.ann+i)
		}
		b.ann += a.X
		n.handleMessage(ctx, b.h.hdrMsg(hs))
		b.collect()
	case "Answer":
		if b.ans >= len(b.wire) {
			return "nothing to answer"
		}
		b.net = append(b.net, b.wire[b.ans])
		b.ans++
	case "Deliver":
		if len(b.net) == 0 {
			return "nothing in flight"
		}
		x := b.net[0]
		b.net = b.net[1:]
		mb := b.h.blk[x]
		cp := wire.NewMsgBlock(&mb.Header)
		for _, tx := range mb.Transactions {
			cp.AddTransaction(tx)
		}
		n.handleMessage(ctx, cp)
		b.collect()
	case "Loop":
		b.release <- struct{}{} // one iteration of the real loop
		select {
		case <-b.arrive:
		case err := <-b.done:
			return fmt.Sprintf("the block processor ended: %v", err)
		case <-time.After(5 * time.Second):
			return "the block processor did not come back"
		}
		b.collect()
	default:
		return "unknown action " + a.A
	}
	return ""
}

func (b *blH) project() blSt {
	st := blSt{Ann: b.ann, Req: []blReq{}, ToReq: []int{}, Wire: append([]int{}, b.wire...), Ans: b.ans, Net: append([]int{}, b.net...)}
	req, toReq, _, _ := b.h.n.state.VerifProject()
	for _, r := range req {
		st.Req = append(st.Req, blReq{B: b.h.id(r.Hash), F: r.Filled})
	}
	for _, x := range toReq {
		st.ToReq = append(st.ToReq, b.h.id(x))
	}
	st.Done = b.h.n.blocks.LastHeight() // genesis is height 0, block b is height b
	return st
}

func TestVerifReplayBlockLoop(t *testing.T) {
	var in struct {
		N       int `json:"n"`
		Scripts []struct {
			ID    string  `json:"id"`
			Steps []blAct `json:"steps"`
		} `json:"scripts"`
	}
	vLoadScripts(t, &in)
	tr := vOpenTrace(t)
	defer tr.Close()
	for _, sc := range in.Scripts {
		b := newBL(t, in.N)
		tr.Emit(blLine{Tr: sc.ID, Act: blAct{A: "init"}, St: b.project()})
		for _, a := range sc.Steps {
			skip := b.step(a)
			tr.Emit(blLine{Tr: sc.ID, Act: a, St: b.project(), Skip: skip})
		}
		b.close()
	}
}
