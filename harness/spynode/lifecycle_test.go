package spynode

// Driver for spec/NodeLifecycle.tla (C19): the real Node.Run() with all its goroutines against a scripted Bitcoin peer on
// a loop-back socket.  The environment steps (accept, version, headers, block, tx, close/reset, Stop, holding a handler
// call-back in the middle of a block) are scripted; after every step the driver waits for the step's observable effect
// and logs what the peer, the handlers, the caller of Stop and the storage have observed.

import (
	"context"
	"fmt"
	"net"
	"os"
	"strings"
	"sync"
	"testing"
	"time"

	"github.com/tokenized/pkg/bitcoin"
	"github.com/tokenized/pkg/wire"
	"github.com/tokenized/spynode/internal/platform/config"
	"github.com/tokenized/spynode/pkg/client"
)

type lcAct struct {
	A string `json:"a"`
	N int    `json:"n"`
	K string `json:"k"`
}
type lcSaved struct {
	Tip int `json:"tip"`
	Utx int `json:"utx"`
}
type lcSt struct {
	Run     string   `json:"run"`
	Epoch   int      `json:"epoch"`
	Hs      bool     `json:"hs"`
	Done    int      `json:"done"`
	InSync  bool     `json:"insync"`
	Ntx     int      `json:"ntx"`
	Gate    string   `json:"gate"`
	StopReq bool     `json:"stopReq"`
	StopRet bool     `json:"stopRet"`
	Phases  []string `json:"phases"`
	Saved   lcSaved  `json:"saved"`
	LocTop  int      `json:"locTop"`
	CbAfter int      `json:"cbAfter"` // handler call-backs observed after Stop returned
	StopMs  int      `json:"stopMs"`  // how long Stop took (-1: not returned)
	Hdrs    []int    `json:"hdrs"`    // heights announced to the handlers, in order
	Peers   bool     `json:"peers"`   // the peer data is in storage
	Feed    string   `json:"feed"`    // the client thread that submits transactions: "" | "blocked" | "ended a/r" (accepted / refused) | "PANIC ..."
}
type lcLine struct {
	Tr   string `json:"tr"`
	Act  lcAct  `json:"act"`
	St   lcSt   `json:"st"`
	Skip string `json:"skip"`
}

type lcHandler struct {
	h       *lcH
	mu      sync.Mutex
	hdrs    []int
	ntx     int
	total   int
	arm     bool
	parked  chan struct{}
	release chan struct{}
}

func (r *lcHandler) count() { r.mu.Lock(); r.total++; r.mu.Unlock() }
func (r *lcHandler) HandleTx(ctx context.Context, tx *client.Tx) {
	r.mu.Lock()
	r.ntx++
	r.total++
	r.mu.Unlock()
}
func (r *lcHandler) HandleTxUpdate(ctx context.Context, u *client.TxUpdate) { r.count() }
func (r *lcHandler) HandleHeaders(ctx context.Context, hs *client.Headers) {
	r.mu.Lock()
	r.total++
	arm := r.arm
	r.arm = false
	parked, release := r.parked, r.release
	r.mu.Unlock()
	if arm {
		close(parked)
		<-release
	}
	r.mu.Lock()
	for i := range hs.Headers {
		r.hdrs = append(r.hdrs, int(hs.StartHeight)+i)
	}
	r.mu.Unlock()
}
func (r *lcHandler) HandleInSync(ctx context.Context)                            { r.count() }
func (r *lcHandler) HandleMessage(ctx context.Context, p client.MessagePayload) { r.count() }

type lcFetch struct{}

func (lcFetch) GetOutputs(ctx context.Context, ops []wire.OutPoint) ([]bitcoin.UTXO, error) {
	out := make([]bitcoin.UTXO, len(ops))
	for i, op := range ops {
		out[i] = bitcoin.UTXO{Hash: op.Hash, Index: op.Index, Value: 7, LockingScript: []byte{0x51}}
	}
	return out, nil
}
func (lcFetch) GetTx(ctx context.Context, h bitcoin.Hash32) (*wire.MsgTx, error) {
	return nil, fmt.Errorf("not available")
}

type lcH struct {
	t        *testing.T
	nb       int
	addr     string
	cfg      config.Config
	store    *vStore
	n        *Node
	rec      *lcHandler
	chain    []*wire.MsgBlock // 0 unused, 1..nb
	hashes   map[bitcoin.Hash32]int
	key      []byte
	ln       net.Listener
	conn     net.Conn
	in       chan wire.Message
	epoch    int
	hs       bool
	ann      int
	gate     string
	stopReq  bool
	stopRet  bool
	stopMs   int
	stopDone chan int
	runDone  chan error
	runOver  bool
	pmu      sync.Mutex
	feed     string
	feedOn   bool
	phases   []string
	saved    lcSaved
	locTop   int
	lastLoc  int
	cbAtStop int
	cbAfter  int
	ntxSent  int
	getdata  map[int]bool
}

func newLC(t *testing.T, nb int) *lcH {
	h := &lcH{t: t, nb: nb, hashes: map[bitcoin.Hash32]int{}, locTop: -1, stopMs: -1, gate: "none", getdata: map[int]bool{}}
	pid := os.Getpid()
	h.addr = fmt.Sprintf("127.%d.%d.%d:18333", 1+(pid>>16)&0x7f, (pid>>8)&0xff, pid&0xff) // a loop-back address of this process alone
	h.key = make([]byte, 20)
	for i := range h.key {
		h.key[i] = byte(0xB0 + i)
	}
	prev := csGenesis()
	h.hashes[prev] = 0
	h.chain = append(h.chain, nil)
	for b := 1; b <= nb; b++ {
		hdr := wire.NewBlockHeader(1, &prev, &bitcoin.Hash32{}, 0, uint32(3000+b))
		hdr.Timestamp = uint32(1600000000 + b)
		mb := wire.NewMsgBlock(hdr)
		mb.AddTransaction(csCoinbase(700 + b))
		root, _ := mb.CalculateMerkleHash()
		mb.Header.MerkleRoot = *root
		h.chain = append(h.chain, mb)
		prev = *mb.Header.BlockHash()
		h.hashes[prev] = b
	}
	start := *h.chain[1].Header.BlockHash()
	h.cfg, _ = config.NewConfig(bitcoin.MainNet, true, h.addr, "verif", start.String(), 0, 50, 10, 10, 100, false)
	h.store = newVStore()
	h.n = NewNode(h.cfg, h.store, lcFetch{}, lcFetch{})
	h.rec = &lcHandler{h: h}
	h.n.RegisterHandler(h.rec)
	h.n.SubscribePushDatas(vCtx(), [][]byte{h.key})
	verifHook = func(p string) {
		if !strings.HasPrefix(p, "run.") {
			return
		}
		if p == "run.saved" {
			s := h.readSaved()
			h.pmu.Lock()
			h.saved = s
			h.pmu.Unlock()
		}
		h.pmu.Lock()
		h.phases = append(h.phases, p[4:])
		h.pmu.Unlock()
	}
	h.runDone = make(chan error, 1)
	go func() { h.runDone <- h.n.Run(vCtx()) }()
	return h
}

// readSaved loads what is in storage with fresh repositories.
func (h *lcH) readSaved() lcSaved {
	n2 := NewNode(h.cfg, h.store, lcFetch{}, lcFetch{})
	if err := n2.load(vCtx()); err != nil {
		return lcSaved{Tip: -1, Utx: -1}
	}
	return lcSaved{Tip: n2.blocks.LastHeight(), Utx: len(n2.txs.VerifProject())}
}

func (h *lcH) hasPhase(p string) bool {
	h.pmu.Lock()
	defer h.pmu.Unlock()
	for _, x := range h.phases {
		if x == p {
			return true
		}
	}
	return false
}

func (h *lcH) waitFor(d time.Duration, cond func() bool) bool {
	dl := time.Now().Add(d)
	for !cond() {
		if time.Now().After(dl) {
			return false
		}
		time.Sleep(2 * time.Millisecond)
	}
	return true
}

func (h *lcH) send(m wire.Message) error {
	_, err := wire.WriteMessageN(h.conn, m, wire.ProtocolVersion, wire.BitcoinNet(h.cfg.Net))
	return err
}

// expect reads what the node sends until pred is satisfied (bookkeeping of locators and block requests on the way).
func (h *lcH) expect(d time.Duration, pred func() bool) bool {
	deadline := time.After(d)
	for !pred() {
		select {
		case m, ok := <-h.in:
			if !ok {
				return pred()
			}
			switch x := m.(type) {
			case *wire.MsgGetHeaders:
				h.lastLoc = -2
				if len(x.BlockLocatorHashes) > 0 {
					if b, ok := h.hashes[*x.BlockLocatorHashes[0]]; ok {
						h.lastLoc = b
					}
				}
			case *wire.MsgGetData:
				for _, iv := range x.InvList {
					if b, ok := h.hashes[iv.Hash]; ok {
						h.getdata[b] = true
					}
				}
			}
		case <-deadline:
			return pred()
		}
	}
	return true
}

func (h *lcH) drain() { h.expect(0, func() bool { return false }) }

func (h *lcH) done() int {
	h.rec.mu.Lock()
	defer h.rec.mu.Unlock()
	return len(h.rec.hdrs)
}
func (h *lcH) ntx() int {
	h.rec.mu.Lock()
	defer h.rec.mu.Unlock()
	return h.rec.ntx
}
func (h *lcH) total() int {
	h.rec.mu.Lock()
	defer h.rec.mu.Unlock()
	return h.rec.total
}

func (h *lcH) runState() string {
	if !h.runOver {
		select {
		case <-h.runDone:
			h.runOver = true
		default:
		}
	}
	if h.runOver {
		return "stopped"
	}
	if h.conn != nil {
		return "up"
	}
	return "connecting"
}

func (h *lcH) tx(k int) *wire.MsgTx {
	tx := wire.NewMsgTx(1)
	z := bitcoin.Hash32{byte(k), 0x0E, 0x0E}
	tx.AddTxIn(wire.NewTxIn(wire.NewOutPoint(&z, 0), []byte{0x01, byte(k)}))
	script := append([]byte{0x76, 0xa9, 0x14}, h.key...)
	script = append(script, 0x88, 0xac)
	tx.AddTxOut(wire.NewTxOut(uint64(2000+k), script))
	return tx
}

func (h *lcH) setFeed(v string) {
	h.pmu.Lock()
	h.feed = v
	h.pmu.Unlock()
}

func (h *lcH) afterStopReturned() {
	h.stopRet = true
	h.cbAtStop = h.total()
}

func (h *lcH) step(a lcAct) (res string) {
	defer func() {
		if e := recover(); e != nil {
			res = fmt.Sprintf("PANIC: %v", e)
		}
	}()
	h.pmu.Lock()
	h.phases = nil
	h.pmu.Unlock()
	if h.runState() == "stopped" {
		return "run ended"
	}
	switch a.A {
	case "Accept":
		if h.conn != nil || h.stopReq {
			return "not enabled"
		}
		ln, err := net.Listen("tcp", h.addr)
		if err != nil {
			return "listen: " + err.Error()
		}
		h.ln = ln
		ch := make(chan net.Conn, 1)
		go func() {
			c, err := ln.Accept()
			if err == nil {
				ch <- c
			}
		}()
		select {
		case c := <-ch:
			h.conn = c
		case <-time.After(5 * time.Second):
			return "the node did not connect"
		}
		h.epoch++
		h.hs = false
		h.ann = h.done()
		h.getdata = map[int]bool{}
		in := make(chan wire.Message, 1000)
		h.in = in
		conn := h.conn
		go func() {
			for {
				_, m, _, err := wire.ReadMessageN(conn, wire.ProtocolVersion, wire.BitcoinNet(h.cfg.Net))
				if err != nil {
					close(in)
					return
				}
				in <- m
			}
		}()
		gotVersion := false
		h.expectMsg(3*time.Second, func(m wire.Message) bool { _, ok := m.(*wire.MsgVersion); gotVersion = gotVersion || ok; return gotVersion })
		if !gotVersion {
			return "the node did not send its version"
		}
	case "Version":
		if h.conn == nil || h.hs {
			return "not enabled"
		}
		me := wire.NewNetAddressIPPort(net.IPv4(127, 0, 0, 1), 8333, 0)
		v := wire.NewMsgVersion(me, me, 4242, int32(h.nb))
		if err := h.send(v); err != nil {
			return "send: " + err.Error()
		}
		h.send(wire.NewMsgVerAck())
		h.lastLoc = -1
		if !h.expect(3*time.Second, func() bool { return h.lastLoc != -1 }) {
			h.lastLoc = -3 // no header request after the handshake: the node does not resume
		}
		h.locTop = h.lastLoc // the locator of the first header request of this connection
		h.hs = true
	case "Headers":
		if h.conn == nil || !h.hs || h.ann+a.N > h.nb {
			return "not enabled"
		}
		msg := wire.NewMsgHeaders()
		for b := h.ann + 1; b <= h.ann+a.N; b++ {
			hd := h.chain[b].Header
			msg.AddBlockHeader(&hd)
		}
		if err := h.send(msg); err != nil {
			return "send: " + err.Error()
		}
		from, to := h.ann+1, h.ann+a.N
		h.ann = to
		if a.N > 0 {
			if !h.expect(3*time.Second, func() bool {
				for b := from; b <= to; b++ {
					if !h.getdata[b] {
						return false
					}
				}
				return true
			}) {
				return "the announced blocks were not requested"
			}
		} else {
			want := h.ann == h.done() && h.gate == "none"
			h.waitFor(1500*time.Millisecond, func() bool { return !want || h.n.state.IsReady() })
			time.Sleep(20 * time.Millisecond)
		}
	case "Block":
		if h.conn == nil || !h.hs || h.gate != "none" || h.done() >= h.ann {
			return "not enabled"
		}
		b := h.done() + 1
		before := h.done()
		if a.K == "gate" {
			h.rec.mu.Lock()
			h.rec.arm = true
			h.rec.parked = make(chan struct{})
			h.rec.release = make(chan struct{})
			parked := h.rec.parked
			h.rec.mu.Unlock()
			if err := h.send(h.chain[b]); err != nil {
				return "send: " + err.Error()
			}
			select {
			case <-parked:
				h.gate = "held"
			case <-time.After(4 * time.Second):
				return "the block did not reach the handlers"
			}
		} else {
			if err := h.send(h.chain[b]); err != nil {
				return "send: " + err.Error()
			}
			if !h.waitFor(4*time.Second, func() bool { return h.done() > before }) {
				return "the block was not processed"
			}
			h.n.blockLock.Lock() // ProcessBlock holds this lock until it is done (incl. the in-sync transition)
			h.n.blockLock.Unlock()
		}
	case "Release":
		if h.gate != "held" {
			return "not enabled"
		}
		before := h.done()
		t0 := time.Now()
		close(h.rec.release)
		h.gate = "none"
		h.waitFor(4*time.Second, func() bool { return h.done() > before })
		if h.stopReq {
			select {
			case <-h.stopDone:
				h.stopMs = int(time.Since(t0) / time.Millisecond) // Stop could not return while the application held the call-back
				h.afterStopReturned()
			case <-time.After(8 * time.Second):
			}
		} else if h.conn == nil {
			h.waitFor(6*time.Second, func() bool { return h.hasPhase("restarting") })
		} else {
			h.n.blockLock.Lock()
			h.n.blockLock.Unlock()
		}
	case "Feed":
		// a thread of the application submits transactions that match no filter while the call-back is held: the consumer is
		// waiting for the transaction repository, the channel fills up and the submitting call blocks
		if h.gate != "held" || h.conn == nil || h.feedOn {
			return "not enabled"
		}
		h.feedOn = true
		h.setFeed("blocked")
		go func() {
			acc, ref := 0, 0
			defer func() {
				if e := recover(); e != nil {
					h.setFeed(fmt.Sprintf("PANIC in the submitting thread: %v", e))
					return
				}
				h.setFeed(fmt.Sprintf("ended %d/%d", acc, ref))
			}()
			for i := 0; i < 160; i++ {
				tx := wire.NewMsgTx(1)
				z := bitcoin.Hash32{byte(i), 0x0F, 0x0F}
				tx.AddTxIn(wire.NewTxIn(wire.NewOutPoint(&z, 0), []byte{0x51}))
				tx.AddTxOut(wire.NewTxOut(1, []byte{0x51}))
				if err := h.n.HandleTx(vCtx(), tx); err != nil {
					ref++
				} else {
					acc++
				}
			}
		}()
		h.waitFor(3*time.Second, func() bool { return len(h.n.unconfTxChannel.Channel) >= 100 })
		time.Sleep(20 * time.Millisecond)
	case "Tx":
		if h.conn == nil || !h.hs {
			return "not enabled"
		}
		before := h.ntx()
		h.ntxSent++
		if err := h.send(h.tx(h.ntxSent)); err != nil {
			return "send: " + err.Error()
		}
		h.waitFor(3*time.Second, func() bool { return h.ntx() > before })
	case "Close":
		if h.conn == nil {
			return "not enabled"
		}
		if a.K == "rst" {
			if tc, ok := h.conn.(*net.TCPConn); ok {
				tc.SetLinger(0)
			}
		}
		h.ln.Close()
		h.conn.Close()
		h.conn = nil
		h.hs = false
		if h.gate == "held" {
			h.waitFor(1500*time.Millisecond, func() bool { return h.hasPhase("channelsClosed") })
		} else {
			h.waitFor(8*time.Second, func() bool { return h.hasPhase("restarting") })
		}
	case "Stop":
		if h.stopReq {
			return "not enabled"
		}
		h.stopReq = true
		h.stopDone = make(chan int, 1)
		go func() {
			t0 := time.Now()
			h.n.Stop(vCtx())
			h.stopDone <- int(time.Since(t0) / time.Millisecond)
		}()
		if h.gate == "held" {
			if h.conn != nil {
				h.waitFor(1500*time.Millisecond, func() bool { return h.hasPhase("channelsClosed") })
			} else {
				time.Sleep(300 * time.Millisecond)
			}
		} else {
			select {
			case ms := <-h.stopDone:
				h.stopMs = ms
				h.afterStopReturned()
			case <-time.After(10 * time.Second):
			}
		}
	default:
		h.t.Fatalf("unknown action %q", a.A)
	}
	return ""
}

// expectMsg reads messages until pred(message) is true.
func (h *lcH) expectMsg(d time.Duration, pred func(wire.Message) bool) bool {
	deadline := time.After(d)
	for {
		select {
		case m, ok := <-h.in:
			if !ok {
				return false
			}
			if pred(m) {
				return true
			}
		case <-deadline:
			return false
		}
	}
}

func (h *lcH) project() lcSt {
	if h.conn != nil {
		h.drain()
	}
	if h.stopRet {
		// anything the handlers receive from now on comes after Stop returned
		time.Sleep(250 * time.Millisecond)
		h.cbAfter = h.total() - h.cbAtStop
	}
	s := lcSt{Run: h.runState(), Epoch: h.epoch, Hs: h.hs, Done: h.done(), InSync: h.n.state.IsReady(), Ntx: h.ntx(), Gate: h.gate,
		StopReq: h.stopReq, StopRet: h.stopRet, LocTop: h.locTop, CbAfter: h.cbAfter, StopMs: h.stopMs}
	if h.stopRet {
		h.waitFor(2*time.Second, func() bool { return h.runState() == "stopped" })
		s.Run = h.runState()
	}
	h.pmu.Lock()
	s.Phases = append([]string{}, h.phases...)
	s.Saved = h.saved
	s.Feed = h.feed
	h.pmu.Unlock()
	if s.Run == "stopped" {
		s.Saved = h.readSaved() // what a new process would find
	}
	h.rec.mu.Lock()
	s.Hdrs = append([]int{}, h.rec.hdrs...)
	h.rec.mu.Unlock()
	if keys, err := h.store.List(vCtx(), ""); err == nil {
		for _, k := range keys {
			if strings.Contains(k, "peers") {
				s.Peers = true
			}
		}
	}
	return s
}

func (h *lcH) close() {
	verifHook = nil
	if h.gate == "held" {
		close(h.rec.release)
	}
	if h.conn != nil {
		h.conn.Close()
	}
	if h.ln != nil {
		h.ln.Close()
	}
	if h.runState() != "stopped" {
		done := make(chan struct{})
		go func() { h.n.Stop(vCtx()); close(done) }()
		select {
		case <-done:
		case <-time.After(10 * time.Second):
		}
	}
}

func TestVerifReplayNodeLifecycle(t *testing.T) {
	var in struct {
		NB      int `json:"nb"`
		Scripts []struct {
			ID    string  `json:"id"`
			Steps []lcAct `json:"steps"`
		} `json:"scripts"`
	}
	vLoadScripts(t, &in)
	tr := vOpenTrace(t)
	defer tr.Close()
	for _, sc := range in.Scripts {
		h := newLC(t, in.NB)
		tr.Emit(lcLine{Tr: sc.ID, Act: lcAct{A: "init"}, St: h.project()})
		for _, a := range sc.Steps {
			skip := h.step(a)
			tr.Emit(lcLine{Tr: sc.ID, Act: a, St: h.project(), Skip: skip})
			if strings.HasPrefix(skip, "PANIC") {
				break
			}
		}
		h.close()
	}
}
