package spynode

// Replay driver for spec/TxPipeline.tla (C03, C04, C05, C06, C07, C11): transactions from trusted and
// untrusted connections, inventories, local submission, blocks, the safe-delay checker, clock ticks and clean
// restarts are fed to the real node in the scripted order.  The consumer (processUnconfirmedTx) is parked at the
// hook utx.afterMempool between ConsumeA and ConsumeB.

import (
	"os"
	"bytes"
	"context"
	"crypto/sha256"
	"fmt"
	"sort"
	"strings"
	"sync"
	"testing"
	"time"

	"github.com/tokenized/pkg/bitcoin"
	"github.com/tokenized/pkg/wire"
	"github.com/tokenized/spynode/internal/handlers"
	"github.com/tokenized/spynode/internal/state"
	istorage "github.com/tokenized/spynode/internal/storage"
	"github.com/tokenized/spynode/pkg/client"
)

// One model clock tick.  Time is advanced by shifting the stored timestamps, never by waiting; a tick of one hour (safe delay
// 1.5 h) makes the real time a script takes (milliseconds, under load seconds) irrelevant for every comparison with the delay.
const txTick = time.Hour

type txNote struct {
	K      string `json:"k"`
	T      int    `json:"t"`
	Safe   bool   `json:"safe"`
	Unsafe bool   `json:"unsafe"`
	Canc   bool   `json:"canc"`
	Proof  bool   `json:"proof"`
	Depth  int    `json:"depth"`
	// Go-side facts (not part of the model's notification record)
	PV   bool `json:"pv"`   // the merkle proof verifies against the header the node holds, with the true index
	Outs bool `json:"outs"` // a new-tx notification carries, per input, the output it spends
}

type txRec struct {
	mu  sync.Mutex
	h   *txH
	dl  []txNote
	hdr []int
}

func (r *txRec) HandleTx(ctx context.Context, tx *client.Tx) {
	r.mu.Lock()
	defer r.mu.Unlock()
	n := r.h.note("new", *tx.Tx.TxHash(), tx.State)
	n.Outs = r.h.outsOK(tx)
	r.dl = append(r.dl, n)
}
func (r *txRec) HandleTxUpdate(ctx context.Context, u *client.TxUpdate) {
	r.mu.Lock()
	defer r.mu.Unlock()
	r.dl = append(r.dl, r.h.note("upd", u.TxID, u.State))
}
func (r *txRec) HandleHeaders(ctx context.Context, hs *client.Headers) {
	r.mu.Lock()
	defer r.mu.Unlock()
	r.hdr = append(r.hdr, int(hs.StartHeight))
}
func (r *txRec) HandleInSync(ctx context.Context)                            {}
func (r *txRec) HandleMessage(ctx context.Context, p client.MessagePayload) {}

type txFetch struct{ h *txH }

func (f txFetch) GetOutputs(ctx context.Context, ops []wire.OutPoint) ([]bitcoin.UTXO, error) {
	r := make([]bitcoin.UTXO, len(ops))
	for i, op := range ops {
		want := f.h.outWant(f.h.outID(op))
		r[i] = bitcoin.UTXO{Hash: op.Hash, Index: op.Index, Value: want.Value, LockingScript: want.LockingScript}
	}
	return r, nil
}
func (f txFetch) GetTx(ctx context.Context, h bitcoin.Hash32) (*wire.MsgTx, error) {
	return nil, fmt.Errorf("not available")
}

type txQ struct {
	T    int  `json:"t"`
	Tr   bool `json:"tr"`
	Safe bool `json:"safe"`
}
type txMp struct {
	St string `json:"st"`
	Tr bool   `json:"tr"`
}
type txUn struct {
	In     bool `json:"in"`
	Safe   bool `json:"safe"`
	Unsafe bool `json:"unsafe"`
	Tr     bool `json:"tr"`
	T0     int  `json:"t0"`
}
type txSt struct {
	Has    bool `json:"has"`
	Safe   bool `json:"safe"`
	Unsafe bool `json:"unsafe"`
	Canc   bool `json:"canc"`
	Proof  bool `json:"proof"`
	Depth  int  `json:"depth"`
	Pst    bool `json:"pst"` // the stored proof is of a block that is not in the chain
}
type txC struct {
	Pc   string `json:"pc"`
	T    int    `json:"t"`
	Tr   bool   `json:"tr"`
	Safe bool   `json:"safe"`
}
type txState struct {
	Mp       []txMp   `json:"mp"`
	Idx      [][]int  `json:"idx"` // per outpoint (ascending id): txs spending it, in index order
	Un       []txUn   `json:"un"`
	St       []txSt   `json:"st"`
	Q        []txQ    `json:"q"`
	C        txC      `json:"c"`
	Nblk     int      `json:"nblk"`
	Clock    int      `json:"clock"`
	Dl       []txNote `json:"dl"`
	Arr      int      `json:"arr"`
	Restarts int      `json:"restarts"`
	Checks   int      `json:"checks"`
	Height   int      `json:"height"`
	Ready    bool     `json:"ready"`
	Orphd    []int    `json:"orphd"`
	GetTxOK  bool     `json:"gettx"` // GetTx(txid) of every delivered tx returns the delivered transaction
}
type txAct struct {
	A string `json:"a"`
	T int    `json:"t"`
	S string `json:"s"`
}
type txLine struct {
	Exp  []string `json:"exp"` // (C04 enumeration) expected notification per transaction of the block: new | upd | none
	Tr   string  `json:"tr"`
	Act  txAct   `json:"act"`
	St   txState `json:"st"`
	Skip string  `json:"skip"`
	Fin  bool    `json:"fin"`
}

type txH struct {
	t        *testing.T
	nt       int
	ins      [][]int
	rel      []bool
	blk      [][]int
	outs     []int // sorted outpoint ids
	store    *vStore
	n        *Node
	rec      *txRec
	us       *state.UntrustedState
	utrusted map[string]handlers.MessageHandler
	unverif  map[string]handlers.MessageHandler // handlers of an untrusted connection that has not been verified
	txs      map[int]*wire.MsgTx
	idOfTx   map[bitcoin.Hash32]int
	blocks   map[int]*wire.MsgBlock // 1 = start block, j+1 = Blk[j]
	key      []byte
	q        []txQ
	c        txC
	done     chan error
	reached  chan struct{}
	release  chan struct{}
	nblk     int
	clock    int
	arr      int
	restarts int
	checks   int
	start    bitcoin.Hash32
	chain    []int // indexes of the processed blocks that are in the chain
	orphd    []int
	pending  bool  // a replacement block has been announced (after Reorg) and is awaited
}

// Output ids from txParentBase up are "output 0 of transaction o-txParentBase" (a tracked parent: the node may resolve it from its own
// tx state records instead of asking the fetcher); the others are outputs of transactions the node has never seen.
const txParentBase = 50

// outWant: the output an input spending abstract output o must be delivered with.
func (h *txH) outWant(o int) *wire.TxOut {
	if o >= txParentBase {
		return h.txs[o-txParentBase].TxOut[0]
	}
	return wire.NewTxOut(uint64(5000+o), []byte{0x51, byte(o)})
}

func (h *txH) outHash(o int) bitcoin.Hash32 {
	if o >= txParentBase {
		return *h.txs[o-txParentBase].TxHash()
	}
	var x bitcoin.Hash32
	x[0] = byte(o)
	x[1] = 0x0F
	x[31] = 0x77
	return x
}
func (h *txH) outID(op wire.OutPoint) int {
	if op.Hash[1] == 0x0F && op.Hash[31] == 0x77 {
		return int(op.Hash[0])
	}
	if p, ok := h.idOfTx[op.Hash]; ok {
		return txParentBase + p
	}
	return -1
}

func (h *txH) buildTx(t int) *wire.MsgTx {
	tx := wire.NewMsgTx(1)
	ins := append([]int{}, h.ins[t-1]...)
	sort.Ints(ins)
	for _, o := range ins {
		hash := h.outHash(o)
		tx.AddTxIn(wire.NewTxIn(wire.NewOutPoint(&hash, 0), []byte{0x01, byte(t)}))
	}
	script := []byte{0x76, 0xa9, 0x14}
	if h.rel[t-1] {
		script = append(script, h.key...)
	} else {
		other := make([]byte, 20)
		other[0] = 0xEE
		other[19] = byte(t)
		script = append(script, other...)
	}
	script = append(script, 0x88, 0xac)
	tx.AddTxOut(wire.NewTxOut(uint64(1000+t), script))
	tx.AddTxOut(wire.NewTxOut(0, []byte{0x00, 0x6a, 0x02, byte(t), 0x5A}))
	return tx
}

func newTxH(t *testing.T, nt int, ins [][]int, rel []bool, blk [][]int) *txH {
	h := &txH{t: t, nt: nt, ins: ins, rel: rel, blk: blk, txs: map[int]*wire.MsgTx{}, idOfTx: map[bitcoin.Hash32]int{},
		blocks: map[int]*wire.MsgBlock{}, c: txC{Pc: "idle"}}
	h.key = make([]byte, 20)
	for i := range h.key {
		h.key[i] = byte(0xA0 + i)
	}
	seen := map[int]bool{}
	for _, l := range ins {
		for _, o := range l {
			if !seen[o] {
				seen[o] = true
				h.outs = append(h.outs, o)
			}
		}
	}
	sort.Ints(h.outs)
	for i := 1; i <= nt; i++ {
		h.txs[i] = h.buildTx(i)
		h.idOfTx[*h.txs[i].TxHash()] = i
	}
	h.mkBlock(1, csGenesis())
	h.start = *h.blocks[1].Header.BlockHash()
	h.store = newVStore()
	h.rec = &txRec{h: h}
	h.boot(true)
	return h
}

// mkBlock builds block b (1 = start block, j+1 = Blk[j]) on top of prev; blocks are built when they are needed because a
// reorganisation decides what the parent of the next block is.
func (h *txH) mkBlock(b int, prev bitcoin.Hash32) *wire.MsgBlock {
	if mb, ok := h.blocks[b]; ok && mb.Header.PrevBlock == prev {
		return mb
	}
	hdr := wire.NewBlockHeader(1, &prev, &bitcoin.Hash32{}, 0, uint32(2000+b))
	hdr.Timestamp = uint32(1600000000 + b)
	mb := wire.NewMsgBlock(hdr)
	mb.AddTransaction(csCoinbase(500 + b))
	if b >= 2 {
		for _, x := range h.blk[b-2] {
			mb.AddTransaction(h.txs[x])
		}
	}
	root, _ := mb.CalculateMerkleHash()
	mb.Header.MerkleRoot = *root
	h.blocks[b] = mb
	return mb
}

// boot starts a node process on the storage, synchronises it with the chain so far and leaves it in sync.
func (h *txH) boot(first bool) {
	ctx := vCtx()
	h.n = NewNode(vConfig(h.start, 5400000), h.store, txFetch{h}, txFetch{h})
	h.n.RegisterHandler(h.rec)
	h.n.SubscribePushDatas(ctx, [][]byte{h.key})
	if err := h.n.load(ctx); err != nil {
		h.t.Fatalf("load: %v", err)
	}
	h.n.unconfTxChannel.Open(1000)
	h.n.outgoing.Open(10000)
	h.n.state.SetVersionReceived()
	h.n.state.MarkConnected()
	h.n.check(ctx)
	if first {
		h.feedBlock(1)
	}
	h.n.handleMessage(ctx, wire.NewMsgHeaders()) // empty headers: in sync
	h.n.check(ctx)
	if !h.n.state.IsReady() {
		h.t.Fatalf("node not in sync after boot")
	}
	h.us = state.NewUntrustedState()
	h.us.SetVerified()
	h.utrusted = handlers.NewUntrustedMessageHandlers(ctx, h.n.state, h.us, h.n.peers, h.n.blocks, state.NewTxTracker(),
		h.n.memPool, &h.n.unconfTxChannel, h.n, "1.2.3.4:8333")
	h.unverif = handlers.NewUntrustedMessageHandlers(ctx, h.n.state, state.NewUntrustedState(), h.n.peers, h.n.blocks, state.NewTxTracker(),
		h.n.memPool, &h.n.unconfTxChannel, h.n, "1.2.3.5:8333")
	h.drainOut()
}

func (h *txH) drainOut() {
	for len(h.n.outgoing.Channel) > 0 {
		<-h.n.outgoing.Channel
	}
}

// feedBlock announces, delivers and processes block b through the real handlers and ProcessBlock.
func (h *txH) feedBlock(b int) error {
	ctx := vCtx()
	var mb *wire.MsgBlock
	if h.pending {
		mb = h.blocks[b] // announced by the reorganisation
		h.pending = false
	} else {
		prev := csGenesis()
		if b > 1 {
			prev = *h.n.blocks.LastHash()
		}
		mb = h.mkBlock(b, prev)
		msg := wire.NewMsgHeaders()
		hd := mb.Header
		msg.AddBlockHeader(&hd)
		h.n.handleMessage(ctx, msg)
	}
	h.n.handleMessage(ctx, mb)
	blk := h.n.state.NextBlock()
	if blk == nil {
		return fmt.Errorf("block %d was not requested/buffered", b)
	}
	err := h.n.ProcessBlock(ctx, blk)
	for {
		x, _ := h.n.state.GetNextBlockToRequest()
		if x == nil {
			break
		}
	}
	h.drainOut()
	return err
}

func (h *txH) note(kind string, txid bitcoin.Hash32, s client.TxState) txNote {
	n := txNote{K: kind, T: -1, Safe: s.Safe, Unsafe: s.UnSafe, Canc: s.Cancelled, Proof: s.MerkleProof != nil,
		Depth: int(s.UnconfirmedDepth), PV: true, Outs: true}
	if id, ok := h.idOfTx[txid]; ok {
		n.T = id
	}
	if s.MerkleProof != nil {
		n.PV = h.proofOK(txid, s.MerkleProof)
	}
	return n
}

// proofOK is an independent verifier of the merkle proof: the root is recomputed from the txid, the index, the path and
// the duplicated layers and compared with the header the node holds at that height; the index must be the true position.
func (h *txH) proofOK(txid bitcoin.Hash32, p *client.MerkleProof) bool {
	ctx := vCtx()
	bh := p.BlockHeader.BlockHash()
	height, ok := h.n.blocks.Height(bh)
	if !ok {
		return false
	}
	held, err := h.n.blocks.Header(ctx, height)
	if err != nil || *held.BlockHash() != *bh {
		return false
	}
	// true index
	var mb *wire.MsgBlock
	for _, b := range h.blocks {
		if *b.Header.BlockHash() == *bh {
			mb = b
		}
	}
	if mb == nil {
		return false
	}
	idx := -1
	for i, tx := range mb.Transactions {
		if *tx.TxHash() == txid {
			idx = i
		}
	}
	if idx < 0 || uint64(idx) != p.Index {
		return false
	}
	cur := txid
	index := p.Index
	path := p.Path
	dups := p.DuplicatedIndexes
	for layer := uint64(1); ; layer++ {
		var other bitcoin.Hash32
		if len(dups) > 0 && dups[0] == layer {
			other = cur
			dups = dups[1:]
		} else if len(path) > 0 {
			other = path[0]
			path = path[1:]
		} else {
			break
		}
		var buf []byte
		if index%2 == 0 {
			buf = append(append(buf, cur[:]...), other[:]...)
		} else {
			buf = append(append(buf, other[:]...), cur[:]...)
		}
		a := sha256.Sum256(buf)
		cur = sha256.Sum256(a[:])
		index /= 2
	}
	return cur == held.MerkleRoot
}

func (h *txH) outsOK(tx *client.Tx) bool {
	if len(tx.Outputs) != len(tx.Tx.TxIn) {
		return false
	}
	for i, in := range tx.Tx.TxIn {
		o := h.outID(in.PreviousOutPoint)
		out := tx.Outputs[i]
		if o < 0 || out == nil {
			return false
		}
		if want := h.outWant(o); out.Value != want.Value || !bytes.Equal(out.LockingScript, want.LockingScript) {
			return false
		}
	}
	return true
}

func (h *txH) step(a txAct) (res string) {
	defer func() {
		if e := recover(); e != nil {
			res = fmt.Sprintf("PANIC: %v", e)
		}
	}()
	ctx := vCtx()
	switch a.A {
	case "Arrive":
		tx := h.txs[a.T]
		before := len(h.n.unconfTxChannel.Channel)
		switch a.S {
		case "TT":
			h.n.handleMessage(ctx, tx)
		case "UT":
			h.utrusted[wire.CmdTx].Handle(ctx, tx)
		case "NU":
			h.unverif[wire.CmdTx].Handle(ctx, tx)
		case "UX", "TX", "NX":
			var buf bytes.Buffer
			tx.BtcEncode(&buf, wire.ProtocolVersion)
			ext := &wire.MsgExtended{ExtCommand: wire.CmdTx, Length: uint64(buf.Len()), Payload: buf.Bytes()}
			if a.S == "UX" {
				h.utrusted[wire.CmdExtended].Handle(ctx, ext)
			} else if a.S == "NX" {
				h.unverif[wire.CmdExtended].Handle(ctx, ext)
			} else {
				h.n.handleMessage(ctx, ext)
			}
		case "LOC":
			if err := h.n.SendTx(ctx, tx); err != nil {
				return "SendTx: " + err.Error()
			}
		}
		h.drainOut()
		h.arr++
		if len(h.n.unconfTxChannel.Channel) > before {
			h.q = append(h.q, txQ{T: a.T, Tr: a.S != "UT" && a.S != "UX" && a.S != "NU" && a.S != "NX", Safe: a.S == "LOC"})
		}
	case "Inv":
		inv := wire.NewMsgInv()
		inv.AddInvVect(wire.NewInvVect(wire.InvTypeTx, h.txs[a.T].TxHash()))
		if a.S == "TT" {
			h.n.handleMessage(ctx, inv)
		} else if a.S == "NU" {
			h.unverif[wire.CmdInv].Handle(ctx, inv)
		} else {
			h.utrusted[wire.CmdInv].Handle(ctx, inv)
		}
		h.drainOut()
		h.arr++
	case "Tick":
		h.n.txs.VerifShiftClocks(txTick)
		h.n.memPool.VerifShiftClocks(txTick)
		h.n.txTracker.VerifShiftClocks(txTick)
		h.clock++
	case "ConsumeA":
		if h.c.Pc != "idle" || len(h.q) == 0 {
			return "nothing to consume"
		}
		x := <-h.n.unconfTxChannel.Channel
		item := h.q[0]
		h.q = h.q[1:]
		h.done = make(chan error, 1)
		h.reached = make(chan struct{})
		h.release = make(chan struct{})
		reached, release := h.reached, h.release
		var once sync.Once
		verifHook = func(p string) {
			if p == "utx.afterMempool" {
				once.Do(func() { close(reached); <-release })
			}
		}
		go func() { h.done <- h.n.processUnconfirmedTx(ctx, x) }()
		select {
		case <-reached:
			_ = item
			h.c = txC{Pc: "mid", T: h.idOfTx[*x.Msg.TxHash()], Tr: x.Trusted, Safe: x.Safe} // what the channel item really says
		case err := <-h.done:
			verifHook = nil
			if err != nil {
				return "processUnconfirmedTx: " + err.Error()
			}
		case <-time.After(20 * time.Second):
			h.t.Fatalf("ConsumeA stuck")
		}
	case "ConsumeB":
		if h.c.Pc != "mid" {
			return "consumer not parked"
		}
		close(h.release)
		var err error
		select {
		case err = <-h.done:
		case <-time.After(20 * time.Second):
			h.t.Fatalf("ConsumeB stuck")
		}
		verifHook = nil
		h.c = txC{Pc: "idle"}
		if err != nil {
			return "processUnconfirmedTx: " + err.Error()
		}
	case "Block":
		if h.nblk >= len(h.blk) {
			return "no more blocks"
		}
		if h.pending != !h.n.state.IsReady() {
			return "block while out of sync without a pending replacement"
		}
		h.nblk++
		h.chain = append(h.chain, h.nblk)
		if err := h.feedBlock(h.nblk + 1); err != nil {
			return "ProcessBlock: " + err.Error()
		}
	case "Reorg":
		// a competing header for the height of the top block: the headers handler orphans the top block and requests the
		// replacement (the next block of the universe); an empty headers message follows (the peer has nothing more)
		if h.pending || !h.n.state.IsReady() || len(h.chain) == 0 || h.nblk >= len(h.blk) {
			return "reorg not enabled"
		}
		top := h.n.blocks.LastHeight()
		parent, err := h.n.blocks.Hash(ctx, top-1)
		if err != nil {
			return "parent: " + err.Error()
		}
		mb := h.mkBlock(h.nblk+2, *parent)
		msg := wire.NewMsgHeaders()
		hd := mb.Header
		msg.AddBlockHeader(&hd)
		h.n.handleMessage(ctx, msg)
		h.n.handleMessage(ctx, wire.NewMsgHeaders())
		h.drainOut()
		if h.n.blocks.LastHeight() != top-1 {
			return fmt.Sprintf("the top block was not reverted (height %d)", h.n.blocks.LastHeight())
		}
		h.orphd = append(h.orphd, h.chain[len(h.chain)-1])
		h.chain = h.chain[:len(h.chain)-1]
		h.pending = true
	case "BadBlock":
		// a block message whose body does not hash to its (unchanged) header: S = add | drop | swap | alter
		if h.nblk >= len(h.blk) {
			return "no more blocks"
		}
		good := h.mkBlock(h.nblk+2, *h.n.blocks.LastHash())
		bad := wire.NewMsgBlock(&good.Header)
		txs := append([]*wire.MsgTx{}, good.Transactions...)
		switch a.S {
		case "add":
			txs = append(txs, csCoinbase(9000+a.T))
		case "drop":
			if len(txs) < 2 {
				return "nothing to drop"
			}
			txs = txs[:len(txs)-1]
		case "swap":
			if len(txs) < 3 {
				return "nothing to swap"
			}
			txs[1], txs[2] = txs[2], txs[1]
		case "alter":
			c := txs[len(txs)-1].Copy()
			c.TxOut[0].Value++
			txs[len(txs)-1] = &c
		}
		for _, x := range txs {
			bad.AddTransaction(x)
		}
		msg := wire.NewMsgHeaders()
		hd := good.Header
		msg.AddBlockHeader(&hd)
		h.n.handleMessage(ctx, msg)
		h.n.handleMessage(ctx, bad)
		blk := h.n.state.NextBlock()
		if blk == nil {
			return "bad block was not requested/buffered"
		}
		err := h.n.ProcessBlock(ctx, blk)
		h.drainOut()
		// restore the request state so that the genuine block can follow (the trusted peer resends it)
		h.n.state.ClearBlockRequests(ctx)
		h.n.state.SetLastHash(*h.n.blocks.LastHash())
		if err == nil {
			return "ACCEPTED: the block with a non-matching body was processed without error"
		}
	case "Checker":
		if h.c.Pc != "idle" {
			return "consumer parked"
		}
		fin := make(chan struct{})
		var once sync.Once
		verifHook = func(p string) {
			if p == "delay.loop" {
				once.Do(func() { // the loop ends after this iteration
					h.n.lock.Lock()
					h.n.stopping = true
					h.n.lock.Unlock()
				})
			}
		}
		go func() { h.n.checkTxDelays(ctx); close(fin) }()
		select {
		case <-fin:
		case <-time.After(20 * time.Second):
			h.t.Fatalf("Checker stuck")
		}
		verifHook = nil
		h.n.lock.Lock()
		h.n.stopping = false
		h.n.lock.Unlock()
		h.checks++
	case "Restart":
		if h.c.Pc != "idle" || len(h.q) != 0 {
			return "not quiescent"
		}
		h.n.blocks.Save(ctx)
		h.n.txs.Save(ctx)
		h.n.peers.Save(ctx)
		h.boot(false)
		h.restarts++
	default:
		h.t.Fatalf("unknown action %q", a.A)
	}
	return ""
}

func (h *txH) project() txState {
	ctx := vCtx()
	s := txState{Mp: []txMp{}, Idx: [][]int{}, Un: []txUn{}, St: []txSt{}, Dl: []txNote{}, Q: append([]txQ{}, h.q...), C: h.c, Nblk: h.nblk, Clock: h.clock, Arr: h.arr, Restarts: h.restarts, Checks: h.checks,
		Height: h.n.blocks.LastHeight(), GetTxOK: true, Ready: h.n.state.IsReady(), Orphd: append([]int{}, h.orphd...)}
	mtxs, minputs, _ := h.n.memPool.VerifProject()
	var un map[bitcoin.Hash32]istorage.VerifUnconfirmed
	if h.c.Pc == "mid" || true {
		un = h.n.txs.VerifProject()
	}
	now := time.Now()
	for t := 1; t <= h.nt; t++ {
		txid := *h.txs[t].TxHash()
		m := txMp{St: "no"}
		if e, ok := mtxs[txid]; ok {
			m.St = "mark"
			if e.Body {
				m.St = "body"
			}
			m.Tr = e.Trusted
		}
		s.Mp = append(s.Mp, m)
		u := txUn{}
		if e, ok := un[txid]; ok {
			age := int((now.Sub(e.Time) + txTick/2) / txTick)
			u = txUn{In: true, Safe: e.Safe, Unsafe: e.Unsafe, Tr: e.Trusted, T0: h.clock - age}
		}
		s.Un = append(s.Un, u)
		x := txSt{}
		if ts, err := istorage.FetchTxState(ctx, h.n.store, txid); err == nil {
			x = txSt{Has: true, Safe: ts.State.Safe, Unsafe: ts.State.UnSafe, Canc: ts.State.Cancelled,
				Proof: ts.State.MerkleProof != nil, Depth: int(ts.State.UnconfirmedDepth)}
			x.Pst = ts.State.MerkleProof != nil && !h.n.blocks.Contains(ts.State.MerkleProof.BlockHeader.BlockHash())
			if got, err := h.n.GetTx(ctx, txid); err != nil || *got.TxHash() != txid {
				s.GetTxOK = false
			}
		}
		s.St = append(s.St, x)
	}
	for _, o := range h.outs {
		hash := h.outHash(o)
		op := wire.NewOutPoint(&hash, 0)
		l := []int{}
		for _, x := range minputs[*op.OutpointHash()] {
			if id, ok := h.idOfTx[x]; ok {
				l = append(l, id)
			} else {
				l = append(l, -1)
			}
		}
		s.Idx = append(s.Idx, l)
	}
	h.rec.mu.Lock()
	s.Dl = append([]txNote{}, h.rec.dl...)
	h.rec.mu.Unlock()
	return s
}

func TestVerifReplayTxPipeline(t *testing.T) {
	var in struct {
		NT      int     `json:"nt"`
		Ins     [][]int `json:"ins"`
		Rel     []bool  `json:"rel"`
		Blk     [][]int `json:"blk"`
		Scripts []struct {
			ID    string   `json:"id"`
			Steps []txAct  `json:"steps"`
			Exp   []string `json:"exp"`
			Uni   *struct {
				NT  int     `json:"nt"`
				Ins [][]int `json:"ins"`
				Rel []bool  `json:"rel"`
				Blk [][]int `json:"blk"`
			} `json:"uni"`
		} `json:"scripts"`
	}
	vLoadScripts(t, &in)
	tr := vOpenTrace(t)
	defer tr.Close()
	for _, sc := range in.Scripts {
		nt, ins, rel, blk := in.NT, in.Ins, in.Rel, in.Blk
		if sc.Uni != nil {
			nt, ins, rel, blk = sc.Uni.NT, sc.Uni.Ins, sc.Uni.Rel, sc.Uni.Blk
		}
		h := newTxH(t, nt, ins, rel, blk)
		exp := sc.Exp
		if exp == nil {
			exp = []string{}
		}
		last := h.project()
		tr.Emit(txLine{Tr: sc.ID, Act: txAct{A: "init"}, St: last, Exp: exp})
		panicked := false
		for _, a := range sc.Steps {
			t0 := time.Now()
			skip := h.step(a)
			if d := time.Since(t0); d > 300*time.Millisecond && os.Getenv("VERIF_DEBUG") != "" {
				fmt.Fprintf(os.Stderr, "slow step %s %v: %v\n", sc.ID, a, d)
			}
			if strings.HasPrefix(skip, "PANIC") {
				// locks may still be held by the panicking call: do not touch the node again
				tr.Emit(txLine{Tr: sc.ID, Act: a, St: last, Skip: skip, Exp: exp})
				panicked = true
				break
			}
			last = h.project()
			tr.Emit(txLine{Tr: sc.ID, Act: a, St: last, Skip: skip, Exp: exp})
		}
		if panicked {
			continue
		}
		// quiescence: finish a parked consumer and drain the channel
		if h.c.Pc == "mid" {
			a := txAct{A: "ConsumeB", T: h.c.T}
			skip := h.step(a)
			tr.Emit(txLine{Tr: sc.ID, Act: a, St: h.project(), Skip: skip, Exp: exp})
		}
		for len(h.q) > 0 {
			for _, a := range []txAct{{A: "ConsumeA", T: h.q[0].T}, {A: "ConsumeB"}} {
				if a.A == "ConsumeB" {
					if h.c.Pc != "mid" {
						continue
					}
					a.T = h.c.T
				}
				skip := h.step(a)
				tr.Emit(txLine{Tr: sc.ID, Act: a, St: h.project(), Skip: skip, Exp: exp})
			}
		}
		tr.Emit(txLine{Tr: sc.ID, Act: txAct{A: "final"}, St: h.project(), Fin: true, Exp: exp})
	}
}
