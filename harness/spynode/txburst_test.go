package spynode

// Concurrency binding for spec/TxRequests.tla (C14).  The specification treats MemPool.AddRequest as ONE atomic step per caller;
// concurrent announcements and concurrent periodic checks are then interleavings of those steps and every interleaving asks for a
// transaction exactly once per window.  This driver checks that assumption on the real code: the same inventory arrives on every
// connection (trusted + real UntrustedNode objects) at the same moment, each handled by its own goroutine as in production, and after
// the request window all connections run their periodic check at the same moment.

import (
	"sync"
	"testing"
	"time"

	"github.com/tokenized/pkg/bitcoin"
	"github.com/tokenized/pkg/wire"
)

type tbSt struct {
	Round int `json:"round"`
	K     int `json:"k"`     // transactions announced in this round
	Once  int `json:"once"`  // of those: requested exactly once in this phase (over all connections)
	Multi int `json:"multi"` // transactions (of any round) requested more than once in this phase
	None  int `json:"none"`  // of this round's: not requested in this phase
	Asks  int `json:"asks"`  // getdata entries seen in this phase
}
type tbLine struct {
	Tr   string `json:"tr"`
	Act  trAct  `json:"act"`
	St   tbSt   `json:"st"`
	Skip string `json:"skip"`
}

func (r *trH) tbGather() map[bitcoin.Hash32]int {
	cnt := map[bitcoin.Hash32]int{}
	for c := 0; c < r.nc; c++ {
		ch := r.h.n.outgoing.Channel
		if c > 0 {
			ch = r.un[c-1].outgoing.Channel
		}
		for len(ch) > 0 {
			if gd, ok := (<-ch).(*wire.MsgGetData); ok {
				for _, iv := range gd.InvList {
					if iv.Type == wire.InvTypeTx {
						cnt[iv.Hash]++
					}
				}
			}
		}
	}
	return cnt
}

func (r *trH) tbAll(f func(c int)) {
	var wg sync.WaitGroup
	start := make(chan struct{})
	for c := 0; c < r.nc; c++ {
		wg.Add(1)
		go func(c int) {
			defer wg.Done()
			<-start
			f(c)
		}(c)
	}
	close(start)
	wg.Wait()
}

func TestVerifTxBurst(t *testing.T) {
	var in struct {
		NC      int `json:"nc"`
		K       int `json:"k"`
		Scripts []struct {
			ID     string `json:"id"`
			Rounds int    `json:"rounds"`
		} `json:"scripts"`
	}
	vLoadScripts(t, &in)
	tr := vOpenTrace(t)
	defer tr.Close()
	ctx := vCtx()
	for _, sc := range in.Scripts {
		r := newTrH(t, 2, in.NC)
		n := r.h.n
		r.tbGather()
		serial := 0
		for round := 1; round <= sc.Rounds; round++ {
			inv := wire.NewMsgInv()
			cur := map[bitcoin.Hash32]bool{}
			for i := 0; i < in.K; i++ {
				serial++
				cp := r.h.txs[1].Copy()
				cp.TxIn[0].PreviousOutPoint.Index = uint32(1000 + serial)
				cp.LockTime = uint32(serial)
				h := *cp.TxHash()
				cur[h] = true
				inv.AddInvVect(wire.NewInvVect(wire.InvTypeTx, &h))
			}
			count := func(cnt map[bitcoin.Hash32]int) tbSt {
				st := tbSt{Round: round, K: in.K}
				for h, c := range cnt {
					st.Asks += c
					if c > 1 {
						st.Multi++
					} else if cur[h] {
						st.Once++
					}
				}
				for h := range cur {
					if cnt[h] == 0 {
						st.None++
					}
				}
				return st
			}
			// the same inventory on every connection at the same moment
			r.tbAll(func(c int) {
				if c == 0 {
					n.handleMessage(ctx, inv)
				} else {
					r.un[c-1].handleMessage(ctx, inv)
				}
			})
			tr.Emit(tbLine{Tr: sc.ID, Act: trAct{A: "InvAll", T: round}, St: count(r.tbGather())})
			// the request window passes without the bodies; every connection runs its periodic check at the same moment
			n.memPool.VerifShiftClocks(2 * trTick)
			n.txTracker.VerifShiftClocks(2 * trTick)
			for _, u := range r.un {
				u.txTracker.VerifShiftClocks(2 * trTick)
			}
			r.tbAll(func(c int) {
				if c == 0 {
					n.check(ctx)
				} else {
					r.un[c-1].check(ctx)
				}
			})
			tr.Emit(tbLine{Tr: sc.ID, Act: trAct{A: "CheckAll", T: round}, St: count(r.tbGather())})
			// the bodies arrive: nothing of this round is asked for again
			for h := range cur {
				_ = h
			}
			time.Sleep(time.Millisecond)
		}
	}
}
