package spynode

// Replay driver for spec/TxRequests.tla (C14): inventories on the trusted connection and on real UntrustedNode objects
// (driven without sockets), transaction bodies, periodic checks, confirmations and clock ticks.

import (
	"fmt"
	"sort"
	"testing"
	"time"

	"github.com/tokenized/pkg/bitcoin"
	"github.com/tokenized/pkg/wire"
	"github.com/tokenized/spynode/internal/handlers"
)

const trTick = 2 * time.Second

type trAsk struct {
	C   int  `json:"c"`
	T   int  `json:"t"`
	At  int  `json:"at"`
	Had bool `json:"had"`
}
type trSt struct {
	Anom   []string `json:"anom"` // members of a transaction group that were not treated alike (bulk runs)
	Body   []bool  `json:"body"`
	ReqAt  []int   `json:"reqAt"`
	Trk    [][]int `json:"trk"`
	Clock  int     `json:"clock"`
	Asked  []trAsk `json:"asked"`
	Forgot [][]int `json:"forgot"`
}
type trAct struct {
	A string `json:"a"`
	C int    `json:"c"`
	T int    `json:"t"`
}
type trLine struct {
	Tr   string `json:"tr"`
	Act  trAct  `json:"act"`
	St   trSt   `json:"st"`
	Skip string `json:"skip"`
}

type trH struct {
	t      *testing.T
	nt, nc int
	h      *txH
	un     []*UntrustedNode
	clock  int
	nblk   int
	asked  []trAsk
	forgot [][]int
	k      int                    // bulk factor: every transaction id of the specification stands for a group of k real transactions
	mem    map[int][]*wire.MsgTx  // group -> its members (member 0 is the transaction of the tx harness)
	grp    map[bitcoin.Hash32]int // member txid -> group
	anom   []string
}

func newTrH(t *testing.T, nt, nc int, bulk ...int) *trH {
	ins := make([][]int, nt)
	rel := make([]bool, nt)
	for i := range ins {
		ins[i] = []int{i + 1}
		rel[i] = true
	}
	r := &trH{t: t, nt: nt, nc: nc, h: newTxH(t, nt, ins, rel, [][]int{}), forgot: make([][]int, nt), k: 1,
		mem: map[int][]*wire.MsgTx{}, grp: map[bitcoin.Hash32]int{}}
	if len(bulk) > 0 && bulk[0] > 1 {
		r.k = bulk[0]
	}
	for i := range r.forgot {
		r.forgot[i] = []int{}
	}
	for g := 1; g <= nt; g++ {
		r.mem[g] = []*wire.MsgTx{r.h.txs[g]}
		for j := 1; j < r.k; j++ { // the same transaction spending another output of the same (unknown) parent: no conflicts
			cp := r.h.txs[g].Copy()
			tx := &cp
			tx.TxIn[0].PreviousOutPoint.Index = uint32(j)
			r.mem[g] = append(r.mem[g], tx)
			r.h.idOfTx[*tx.TxHash()] = g
		}
		for _, tx := range r.mem[g] {
			r.grp[*tx.TxHash()] = g
		}
	}
	ctx := vCtx()
	n := r.h.n
	for c := 1; c < nc; c++ {
		u := NewUntrustedNode(fmt.Sprintf("10.0.0.%d:8333", c), n.config, n.state, n.store, n.peers, n.blocks, n.txs, n.memPool,
			&n.unconfTxChannel, n.handlers, n, false)
		u.messageHandlers = handlers.NewUntrustedMessageHandlers(ctx, u.trustedState, u.untrustedState, u.peers, u.blocks, u.txTracker,
			u.memPool, u.txChannel, u.isRelevant, u.address)
		u.outgoing.Open(1000)
		u.untrustedState.SetVersionReceived()
		u.untrustedState.SetHandshakeComplete()
		u.untrustedState.SetVerified()
		u.untrustedState.SetScoreUpdated()
		u.untrustedState.SetAddressesRequested()
		u.untrustedState.SetMemPoolRequested()
		u.active = true
		n.untrustedLock.Lock()
		n.untrustedNodes = append(n.untrustedNodes, u)
		n.untrustedLock.Unlock()
		r.un = append(r.un, u)
	}
	return r
}


// confirmInBlock builds a block with transaction t on top of the node's tip, announces it, delivers it and lets the real
// block processor handle it.
func (r *trH) confirmInBlock(t int) error {
	ctx := vCtx()
	n := r.h.n
	prev := *n.blocks.LastHash()
	r.nblk++
	hdr := wire.NewBlockHeader(1, &prev, &bitcoin.Hash32{}, 0, uint32(5000+r.nblk))
	hdr.Timestamp = uint32(1600001000 + r.nblk)
	mb := wire.NewMsgBlock(hdr)
	mb.AddTransaction(csCoinbase(900 + r.nblk))
	for _, tx := range r.mem[t] {
		mb.AddTransaction(tx)
	}
	root, _ := mb.CalculateMerkleHash()
	mb.Header.MerkleRoot = *root
	msg := wire.NewMsgHeaders()
	hd := mb.Header
	msg.AddBlockHeader(&hd)
	n.handleMessage(ctx, msg)
	n.handleMessage(ctx, mb)
	blk := n.state.NextBlock()
	if blk == nil {
		return fmt.Errorf("the block was not requested / buffered")
	}
	err := n.ProcessBlock(ctx, blk)
	for {
		x, _ := n.state.GetNextBlockToRequest()
		if x == nil {
			break
		}
	}
	return err
}

// collect records the getdata requests connection c put on its outgoing channel.
func (r *trH) collect(c int) {
	ch := r.h.n.outgoing.Channel
	if c > 0 {
		ch = r.un[c-1].outgoing.Channel
	}
	mtxs, _, _ := r.h.n.memPool.VerifProject()
	// what the sender goroutine would put on the wire: the queued message objects as they are once the call has returned
	cnt := map[bitcoin.Hash32]int{}
	var order []int
	seen := map[int]bool{}
	for len(ch) > 0 {
		m := <-ch
		if gd, ok := m.(*wire.MsgGetData); ok {
			for _, iv := range gd.InvList {
				if iv.Type != wire.InvTypeTx {
					continue
				}
				if g, ok := r.grp[iv.Hash]; ok {
					cnt[iv.Hash]++
					if !seen[g] {
						seen[g] = true
						order = append(order, g)
					}
				}
			}
		}
	}
	for _, g := range order {
		lo, hi, had := 1<<30, 0, false
		for _, tx := range r.mem[g] {
			h := *tx.TxHash()
			if cnt[h] < lo {
				lo = cnt[h]
			}
			if cnt[h] > hi {
				hi = cnt[h]
			}
			had = had || mtxs[h].Body
		}
		if lo != hi {
			r.anom = append(r.anom, fmt.Sprintf("connection %d at %d: members of group %d requested between %d and %d times in one go", c, r.clock, g, lo, hi))
		}
		for i := 0; i < hi; i++ {
			r.asked = append(r.asked, trAsk{C: c, T: g, At: r.clock, Had: had})
		}
	}
}

// drainTrusted discards what the trusted connection queued that is not a transaction request (header polls of the catch-up).
func (r *trH) drainTrusted() {
	ch := r.h.n.outgoing.Channel
	var keep []wire.Message
	for len(ch) > 0 {
		m := <-ch
		if gd, ok := m.(*wire.MsgGetData); ok {
			tx := false
			for _, iv := range gd.InvList {
				tx = tx || iv.Type == wire.InvTypeTx
			}
			if tx {
				keep = append(keep, m)
			}
		}
	}
	for _, m := range keep {
		ch <- m
	}
}

func (r *trH) step(a trAct) (res string) {
	defer func() {
		if e := recover(); e != nil {
			res = fmt.Sprintf("PANIC: %v", e)
		}
	}()
	ctx := vCtx()
	n := r.h.n
	switch a.A {
	case "Inv":
		inv := wire.NewMsgInv()
		for _, tx := range r.mem[a.T] {
			inv.AddInvVect(wire.NewInvVect(wire.InvTypeTx, tx.TxHash()))
		}
		if a.C == 0 {
			n.handleMessage(ctx, inv)
		} else if err := r.un[a.C-1].handleMessage(ctx, inv); err != nil {
			return "handleMessage: " + err.Error()
		}
		r.collect(a.C)
	case "Body":
		for _, tx := range r.mem[a.T] {
			n.handleMessage(ctx, tx)
		}
		for len(n.unconfTxChannel.Channel) > 0 {
			x := <-n.unconfTxChannel.Channel
			if err := n.processUnconfirmedTx(ctx, x); err != nil {
				return "processUnconfirmedTx: " + err.Error()
			}
		}
		r.collect(0)
	case "Check":
		if a.C == 0 {
			if err := n.check(ctx); err != nil {
				return "check: " + err.Error()
			}
		} else if err := r.un[a.C-1].check(ctx); err != nil {
			return "check: " + err.Error()
		}
		r.collect(a.C)
	case "Confirm":
		// what ProcessBlock does for a transaction of the block when in sync: blocks.go:288, 474 (CleanupBlock)
		// a block that contains the transaction goes through the real header / block handlers and ProcessBlock
		if err := r.confirmInBlock(a.T); err != nil {
			return "ProcessBlock: " + err.Error()
		}
		r.forgot[a.T-1] = append(r.forgot[a.T-1], r.clock)
	case "ConfirmOos":
		// a header of the trusted peer that does not connect puts the node out of sync (handlers/headers.go: unknown header);
		// the block that contains the transaction is then announced, delivered and processed; processing it ends the catch-up
		unk := wire.NewMsgHeaders()
		up := bitcoin.Hash32{0xEE, 0xE1, byte(r.nblk)}
		uh := wire.NewBlockHeader(1, &up, &bitcoin.Hash32{}, 0, uint32(7000+r.nblk))
		unk.AddBlockHeader(uh)
		n.handleMessage(ctx, unk)
		if n.state.IsReady() {
			return "the node stayed in sync"
		}
		if err := r.confirmInBlock(a.T); err != nil {
			return "ProcessBlock: " + err.Error()
		}
		if !n.state.IsReady() {
			n.handleMessage(ctx, wire.NewMsgHeaders()) // the peer has nothing more: in sync again
			n.check(ctx)
		}
		if !n.state.IsReady() {
			return "the node did not get in sync again"
		}
		r.drainTrusted()
		r.forgot[a.T-1] = append(r.forgot[a.T-1], r.clock)
	case "Tick":
		n.memPool.VerifShiftClocks(trTick)
		n.txTracker.VerifShiftClocks(trTick)
		for _, u := range r.un {
			u.txTracker.VerifShiftClocks(trTick)
		}
		r.clock++
	default:
		r.t.Fatalf("unknown action %q", a.A)
	}
	return ""
}

func (r *trH) project() trSt {
	n := r.h.n
	s := trSt{Clock: r.clock, Asked: append([]trAsk{}, r.asked...), Trk: [][]int{}, Forgot: [][]int{}, Anom: append([]string{}, r.anom...)}
	for _, f := range r.forgot {
		s.Forgot = append(s.Forgot, append([]int{}, f...))
	}
	mtxs, _, reqs := n.memPool.VerifProject()
	now := time.Now()
	for t := 1; t <= r.nt; t++ {
		for j, tx := range r.mem[t] {
			id := *tx.TxHash()
			ra := -1
			if at, ok := reqs[id]; ok {
				ra = r.clock - int((now.Sub(at)+trTick/2)/trTick)
			}
			if j == 0 {
				s.Body = append(s.Body, mtxs[id].Body)
				s.ReqAt = append(s.ReqAt, ra)
			} else if mtxs[id].Body != s.Body[t-1] || ra != s.ReqAt[t-1] {
				s.Anom = append(s.Anom, fmt.Sprintf("member %d of group %d: body %v requested at %d, member 0: body %v requested at %d", j, t, mtxs[id].Body, ra, s.Body[t-1], s.ReqAt[t-1]))
				break
			}
		}
	}
	for c := 0; c < r.nc; c++ {
		tk := n.txTracker
		if c > 0 {
			tk = r.un[c-1].txTracker
		}
		l := []int{}
		per := map[int]int{}
		for h := range tk.VerifProject() {
			if g, ok := r.grp[h]; ok {
				per[g]++
			}
		}
		for g, c2 := range per {
			l = append(l, g)
			if c2 != r.k {
				s.Anom = append(s.Anom, fmt.Sprintf("connection %d tracks %d of the %d members of group %d", c, c2, r.k, g))
			}
		}
		sort.Ints(l)
		s.Trk = append(s.Trk, l)
	}
	return s
}

func TestVerifReplayTxRequests(t *testing.T) {
	var in struct {
		NT      int `json:"nt"`
		NC      int `json:"nc"`
		Bulk    int `json:"bulk"`
		Scripts []struct {
			ID    string  `json:"id"`
			Steps []trAct `json:"steps"`
		} `json:"scripts"`
	}
	vLoadScripts(t, &in)
	tr := vOpenTrace(t)
	defer tr.Close()
	for _, sc := range in.Scripts {
		r := newTrH(t, in.NT, in.NC, in.Bulk)
		tr.Emit(trLine{Tr: sc.ID, Act: trAct{A: "init"}, St: r.project()})
		for _, a := range sc.Steps {
			skip := r.step(a)
			tr.Emit(trLine{Tr: sc.ID, Act: a, St: r.project(), Skip: skip})
			if len(skip) >= 5 && skip[:5] == "PANIC" {
				break
			}
		}
	}
}
