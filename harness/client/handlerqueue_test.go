package client

// Replay driver for spec/HandlerQueue.tla (C17 with a slow application): the real RemoteClient.Run against the scripted loop-back
// service of remote_test.go; the application's handler can be held inside a call.  Every message the service sends carries its send
// number (lock time of the tx, two bytes of the update's txid, nonce of the header, message count of the accept), so the order in
// which the handler sees things can be compared with the order in which the service sent them.

import (
	"bufio"
	"context"
	"encoding/json"
	"os"
	"testing"
	"time"

	"github.com/tokenized/logger"
	"github.com/tokenized/pkg/wire"
)

type hqItem struct {
	K  string `json:"k"`
	ID int    `json:"id"`
	N  int    `json:"n"`
}
type hqSt struct {
	Ep     int      `json:"ep"`
	Acc    bool     `json:"acc"`
	NextID int      `json:"nextId"`
	Held   string   `json:"held"`
	HQ     int      `json:"hq"` // notifications waiting in the client's handler queue
	Deliv  []hqItem `json:"deliv"`
	Sent   int      `json:"sent"`
}
type hqLine struct {
	Tr   string `json:"tr"`
	Act  rcAct  `json:"act"`
	St   hqSt   `json:"st"`
	Skip string `json:"skip"`
}

type hqH struct {
	h    *rcH
	sent int
	held string
	accEp map[int]int // send number of an accept -> the connection it was sent on
}

func (q *hqH) handled() int {
	q.h.h.mu.Lock()
	defer q.h.h.mu.Unlock()
	return len(q.h.h.d)
}

// settle waits until the client has routed everything sent so far: the handler calls started plus the queue length stop changing.
func (q *hqH) settle() {
	last, since := -1, time.Now()
	for dl := time.Now().Add(3 * time.Second); time.Now().Before(dl); time.Sleep(2 * time.Millisecond) {
		cur := q.handled() + len(q.h.c.handlerChannel)
		if cur != last {
			last, since = cur, time.Now()
			continue
		}
		if q.held == "no" && len(q.h.c.handlerChannel) > 0 {
			since = time.Now() // a slow application is still working through its backlog
			continue
		}
		if time.Since(since) > 120*time.Millisecond {
			return
		}
	}
}

func (q *hqH) step(a rcAct) string {
	ctx := logger.ContextWithNoLogger(context.Background())
	h := q.h
	switch a.A {
	case "Accept":
		q.sent++
		h.acceptCount = q.sent
		q.accEp[q.sent] = h.ep
		if r := h.step(rcAct{A: "Accept", Kind: "valid"}); r != "" {
			return r
		}
	case "Ready":
		if err := h.c.Ready(ctx, uint64(a.K)); err != nil {
			return "Ready: " + err.Error()
		}
		h.pump(1, rcWait)
	case "Notify":
		q.sent++
		var p MessagePayload
		switch a.Kind {
		case "tx":
			tx := rcTx(a.K % 30)
			tx.LockTime = uint32(q.sent)
			p = &Tx{ID: uint64(a.K), Tx: tx, Outputs: []*wire.TxOut{wire.NewTxOut(1, []byte{0x51})}}
		case "upd":
			id := rcHash(a.K)
			id[2], id[3] = byte(q.sent), byte(q.sent>>8)
			p = &TxUpdate{ID: uint64(a.K), TxID: id}
		case "hdrs":
			hd := rcHeader(a.K)
			hd.Nonce = uint32(q.sent)
			p = &Headers{RequestHeight: -7, StartHeight: uint32(a.K), Headers: []*wire.BlockHeader{&hd}}
		}
		if err := h.send(p); err != nil {
			return "send: " + err.Error()
		}
	case "Hold":
		if q.held != "no" {
			return "not enabled"
		}
		h.h.mu.Lock()
		h.h.gate = make(chan struct{})
		h.h.mu.Unlock()
		q.held = "armed"
	case "Release":
		if q.held == "no" {
			return "not enabled"
		}
		h.h.mu.Lock()
		g := h.h.gate
		h.h.gate, h.h.in = nil, false
		h.h.slow = 20 * time.Millisecond // the application is slow, not stuck: the backlog drains call by call
		h.h.mu.Unlock()
		close(g)
		q.held = "no"
	case "Drop":
		if r := h.step(rcAct{A: "Drop"}); r != "" {
			return r
		}
	default:
		return "unknown action " + a.A
	}
	q.settle()
	return ""
}

func (q *hqH) project() hqSt {
	ctx := logger.ContextWithNoLogger(context.Background())
	h := q.h
	st := hqSt{Ep: h.ep, Acc: h.c.IsAccepted(ctx), NextID: int(h.c.NextMessageID()), Held: q.held, HQ: len(h.c.handlerChannel), Sent: q.sent, Deliv: []hqItem{}}
	h.h.mu.Lock()
	if q.held == "armed" && h.h.in {
		q.held = "in"
	}
	st.Held = q.held
	for i, d := range h.h.d {
		k := d.Kind
		id := d.ID
		if k == "accepted" {
			k, id = "acc", q.accEp[h.h.seqs[i]]
		}
		st.Deliv = append(st.Deliv, hqItem{K: k, ID: id, N: h.h.seqs[i]})
	}
	h.h.mu.Unlock()
	return st
}

func TestVerifReplayHandlerQueue(t *testing.T) {
	verifHook = func(point string) {
		if point == "conn.teardown" {
			time.Sleep(5 * time.Millisecond)
		}
	}
	var in struct {
		Scripts []struct {
			ID    string  `json:"id"`
			Steps []rcAct `json:"steps"`
		} `json:"scripts"`
	}
	raw, err := os.ReadFile(os.Getenv("VERIF_SCRIPTS"))
	if err != nil {
		t.Fatal(err)
	}
	if err := json.Unmarshal(raw, &in); err != nil {
		t.Fatal(err)
	}
	f, _ := os.Create(os.Getenv("VERIF_TRACE"))
	defer f.Close()
	w := bufio.NewWriter(f)
	defer w.Flush()
	enc := json.NewEncoder(w)
	for _, sc := range in.Scripts {
		q := &hqH{h: newRC(t, ConnectionTypeFull, 1), held: "no", accEp: map[int]int{}}
		enc.Encode(hqLine{Tr: sc.ID, Act: rcAct{A: "init"}, St: q.project()})
		for _, a := range sc.Steps {
			skip := q.step(a)
			enc.Encode(hqLine{Tr: sc.ID, Act: a, St: q.project(), Skip: skip})
		}
		if q.held != "no" {
			q.step(rcAct{A: "Release"})
		}
		q.h.close()
	}
}
