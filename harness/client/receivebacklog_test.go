package client

// Replay driver for spec/ReceiveBacklog.tla (C18 behind a full handler queue): the real RemoteClient.Run against the scripted loop-back
// service of remote_test.go.  The application's handler is held inside a call and the service floods the client with chain tips until
// the handler queue (capacity 100) is full and the client's message loop is blocked; what the service sends after that waits unexamined
// in the client's receive queue, also across the teardown of the connection (Teardown) and the start of the next one (Connect), which
// are separate steps here: the client's retry delay is long enough to let the application catch up in between.  Every message carries
// the service's send number (height of a chain tip, lock time of a tx, two bytes of an update's txid, message count of an accept); the
// driver remembers on which connection each number was sent.

import (
	"bufio"
	"context"
	"encoding/json"
	"fmt"
	"os"
	"testing"
	"time"

	"github.com/tokenized/logger"
	"github.com/tokenized/pkg/bitcoin"
	"github.com/tokenized/pkg/wire"
)

type rbItem struct {
	K  string `json:"k"`
	ID int    `json:"id"`
	N  int    `json:"n"`
	E  int    `json:"e"`
}
type rbAcc struct {
	E int `json:"e"`
	N int `json:"n"`
}
type rbSt struct {
	Ep     int      `json:"ep"`
	Up     bool     `json:"up"`
	Flag   bool     `json:"flag"`
	NextID int      `json:"nextId"`
	Held   string   `json:"held"`
	Full   bool     `json:"full"`
	HQ     int      `json:"hq"`
	Deliv  []rbItem `json:"deliv"`
	Accs   []rbAcc  `json:"accs"`
	Sent   int      `json:"sent"`
	Run    string   `json:"run"`
}
type rbLine struct {
	Tr   string `json:"tr"`
	Act  rcAct  `json:"act"`
	St   rbSt   `json:"st"`
	Skip string `json:"skip"`
}

type rbH struct {
	h      *rcH
	sent   int
	held   string
	up     bool
	full   bool
	run    string
	floods int
	sentEp map[int]int
	accs   []rbAcc
}

func (q *rbH) handled() int {
	q.h.h.mu.Lock()
	defer q.h.h.mu.Unlock()
	return len(q.h.h.d)
}

// settle waits until handler calls started plus the handler queue's length stop changing.
func (q *rbH) settle() {
	last, since := -1, time.Now()
	for dl := time.Now().Add(3 * time.Second); time.Now().Before(dl); time.Sleep(2 * time.Millisecond) {
		cur := q.handled()*1000 + len(q.h.c.handlerChannel)
		if cur != last {
			last, since = cur, time.Now()
			continue
		}
		if q.held == "no" && len(q.h.c.handlerChannel) > 0 {
			since = time.Now()
			continue
		}
		if time.Since(since) > 100*time.Millisecond {
			return
		}
	}
}

func (q *rbH) checkRun() {
	select {
	case err := <-q.h.runDone:
		q.run = "failed"
		q.h.runDone <- err
	default:
	}
}

func (q *rbH) step(a rcAct) (skip string) {
	defer func() {
		if r := recover(); r != nil {
			skip = fmt.Sprintf("PANIC %v", r)
		}
	}()
	ctx := logger.ContextWithNoLogger(context.Background())
	h := q.h
	if q.run != "running" {
		return "run ended"
	}
	needUp := map[string]bool{"Accept": true, "Notify": true, "Ready": true, "Flood": true, "Teardown": true}
	if needUp[a.A] && !q.up {
		return "not enabled"
	}
	switch a.A {
	case "Accept":
		for _, x := range q.accs {
			if x.E == h.ep {
				return "not enabled"
			}
		}
		sk, err := bitcoin.NextKey(h.serverKey, h.reg.Hash)
		if err != nil {
			return "next key: " + err.Error()
		}
		q.sent++
		acc := &AcceptRegister{Key: sk.PublicKey(), PushDataCount: 1, UTXOCount: 2, MessageCount: uint64(q.sent)}
		sh := rcAcceptSigHash(acc, h.reg.Hash) // computed here, not by the code under test
		acc.Signature, _ = sk.Sign(sh)
		q.sentEp[q.sent] = h.ep
		q.accs = append(q.accs, rbAcc{E: h.ep, N: q.sent})
		if err := h.send(acc); err != nil {
			return "send: " + err.Error()
		}
		if !q.full {
			for dl := time.Now().Add(rcWait); !h.c.IsAccepted(ctx) && time.Now().Before(dl); {
				time.Sleep(2 * time.Millisecond)
			}
		}
	case "Ready":
		if q.full || !h.c.IsAccepted(ctx) {
			return "not enabled"
		}
		if err := h.c.Ready(ctx, uint64(a.K)); err != nil {
			return "Ready: " + err.Error()
		}
		h.pump(1, rcWait)
	case "Notify":
		q.sent++
		q.sentEp[q.sent] = h.ep
		var p MessagePayload
		switch a.Kind {
		case "tip":
			p = &ChainTip{Height: uint32(q.sent)}
		case "tx":
			tx := rcTx(a.K % 30)
			tx.LockTime = uint32(q.sent)
			p = &Tx{ID: uint64(a.K), Tx: tx, Outputs: []*wire.TxOut{wire.NewTxOut(1, []byte{0x51})}}
		case "upd":
			id := rcHash(a.K)
			id[2], id[3] = byte(q.sent), byte(q.sent>>8)
			p = &TxUpdate{ID: uint64(a.K), TxID: id}
		default:
			return "unknown kind " + a.Kind
		}
		if err := h.send(p); err != nil {
			return "send: " + err.Error()
		}
	case "Hold":
		if q.held != "no" {
			return "not enabled"
		}
		h.h.mu.Lock()
		h.h.gate = make(chan struct{})
		h.h.mu.Unlock()
		q.held = "armed"
	case "Flood":
		if q.held != "in" || q.full {
			return "not enabled"
		}
		for i := 0; i < 104; i++ {
			q.floods++
			if err := h.send(&ChainTip{Height: uint32(rbFloodBase + q.floods)}); err != nil {
				return "send: " + err.Error()
			}
		}
		for dl := time.Now().Add(2 * time.Second); len(h.c.handlerChannel) < cap(h.c.handlerChannel) && time.Now().Before(dl); {
			time.Sleep(time.Millisecond)
		}
		if len(h.c.handlerChannel) < cap(h.c.handlerChannel) {
			return "the handler queue did not fill"
		}
		q.full = true
	case "Release":
		if q.held == "no" {
			return "not enabled"
		}
		h.h.mu.Lock()
		g := h.h.gate
		h.h.gate, h.h.in = nil, false
		h.h.mu.Unlock()
		close(g)
		q.held, q.full = "no", false
	case "Stall":
		// the application stays stuck for longer than the message channel time-out: the message loop's enqueue times out, item by item
		if !q.full || q.held != "in" {
			return "not enabled"
		}
		time.Sleep(10 * rcMsgTimeoutCfg)
		last, since := h.c.NextMessageID(), time.Now()
		for dl := time.Now().Add(20 * rcMsgTimeoutCfg); time.Now().Before(dl) && time.Since(since) < 4*rcMsgTimeoutCfg; time.Sleep(5 * time.Millisecond) {
			if cur := h.c.NextMessageID(); cur != last {
				last, since = cur, time.Now()
			}
		}
		return ""
	case "Teardown":
		h.conn.Close()
		h.gate.set(false, true)
		h.conn = nil
		q.up = false
		for dl := time.Now().Add(3 * time.Second); !h.c.isReconnecting.Load().(bool) && time.Now().Before(dl); {
			time.Sleep(time.Millisecond)
		}
		if !h.c.isReconnecting.Load().(bool) {
			q.checkRun()
			if q.run == "running" {
				return "the client did not tear the connection down"
			}
		}
	case "Connect":
		if q.up {
			return "not enabled"
		}
		if !h.newConn() {
			q.checkRun()
			if q.run != "running" {
				return "" // Run ended while waiting: the projection shows it
			}
			return "the client did not reconnect"
		}
		q.up = true
		// the register message is written before the connection's routines (and flags) are set up
		for dl := time.Now().Add(200 * time.Millisecond); h.c.IsAccepted(ctx) && time.Now().Before(dl); {
			time.Sleep(time.Millisecond)
		}
		h.awaitPublished()
		h.pump(0, 0)
	default:
		return "unknown action " + a.A
	}
	if q.full {
		time.Sleep(60 * time.Millisecond) // the connection reader moves what was sent into the receive queue
	}
	q.settle()
	q.checkRun()
	return ""
}

func (q *rbH) project() rbSt {
	ctx := logger.ContextWithNoLogger(context.Background())
	h := q.h
	st := rbSt{Ep: h.ep, Up: q.up, Flag: h.c.IsAccepted(ctx), NextID: int(h.c.NextMessageID()), Full: q.full, HQ: len(h.c.handlerChannel),
		Sent: q.sent, Run: q.run, Deliv: []rbItem{}, Accs: append([]rbAcc{}, q.accs...)}
	h.h.mu.Lock()
	if q.held == "armed" && h.h.in {
		q.held = "in"
	}
	st.Held = q.held
	for i, d := range h.h.d {
		k := d.Kind
		if k == "accepted" {
			k = "acc"
		}
		st.Deliv = append(st.Deliv, rbItem{K: k, ID: d.ID, N: h.h.seqs[i], E: q.sentEp[h.h.seqs[i]]})
	}
	h.h.mu.Unlock()
	return st
}

// TestVerifBacklogStall: the same driver with a message channel time-out of 400 ms, so that a Stall step can wait it out (F43).
func TestVerifBacklogStall(t *testing.T) {
	rbReplay(t, 400*time.Millisecond)
}

func TestVerifReplayReceiveBacklog(t *testing.T) {
	rbReplay(t, 60*time.Second)
}

func rbReplay(t *testing.T, msgTimeout time.Duration) {
	verifHook = func(point string) {
		if point == "conn.teardown" {
			time.Sleep(5 * time.Millisecond)
		}
	}
	rcRetryDelay = 1500 * time.Millisecond
	rcMsgTimeoutCfg = msgTimeout
	var in struct {
		Scripts []struct {
			ID    string  `json:"id"`
			Steps []rcAct `json:"steps"`
		} `json:"scripts"`
	}
	raw, err := os.ReadFile(os.Getenv("VERIF_SCRIPTS"))
	if err != nil {
		t.Fatal(err)
	}
	if err := json.Unmarshal(raw, &in); err != nil {
		t.Fatal(err)
	}
	f, _ := os.Create(os.Getenv("VERIF_TRACE"))
	defer f.Close()
	w := bufio.NewWriter(f)
	defer w.Flush()
	enc := json.NewEncoder(w)
	for _, sc := range in.Scripts {
		q := &rbH{h: newRC(t, ConnectionTypeFull, 1), held: "no", up: true, run: "running", sentEp: map[int]int{}}
		q.h.h.tips = true
		enc.Encode(rbLine{Tr: sc.ID, Act: rcAct{A: "init"}, St: q.project()})
		for _, a := range sc.Steps {
			skip := q.step(a)
			enc.Encode(rbLine{Tr: sc.ID, Act: a, St: q.project(), Skip: skip})
		}
		q.h.h.mu.Lock()
		if g := q.h.h.gate; g != nil {
			q.h.h.gate = nil
			close(g)
		}
		q.h.h.mu.Unlock()
		q.h.close()
	}
}
