package client

// Driver for spec/RemoteClient.tla (C16, C17, C18): the real RemoteClient.Run() with all its goroutines against a
// scripted loop-back service.  Every step of a scenario is followed by a synchronisation on an observable effect, so
// that the recorded observation after the step is well defined.

import (
	"bufio"
	"bytes"
	"crypto/sha256"
	"context"
	"encoding/json"
	"fmt"
	"net"
	"os"
	"sort"
	"strings"
	"sync"
	"testing"
	"time"

	"github.com/tokenized/config"
	"github.com/tokenized/logger"
	"github.com/tokenized/pkg/bitcoin"
	"github.com/tokenized/pkg/wire"
	"github.com/tokenized/threads"
)

const (
	rcReqTimeout = 2500 * time.Millisecond
	rcMsgTimeout = 4000 * time.Millisecond // differs from the request time-out on purpose
	rcWait       = 1500 * time.Millisecond
	rcShort      = 250 * time.Millisecond
)

type rcAct struct {
	A    string `json:"a"`    // Accept | Ready | Call | Respond | Timeout | Notify | Drop | Stop | Outputs
	K    int    `json:"k"`    // call slot / notification id / ready id
	Kind string `json:"kind"` // call kind, notification kind, accept variant, respond form
	Key  int    `json:"key"`  // call key (tx / block / height identity)
}

type rcCall struct {
	St   string `json:"st"`   // idle | pending | done
	Kind string `json:"kind"`
	Key  int    `json:"key"`
	Res  string `json:"res"` // "" | ok | reject | timeout | error:<text>
	RKey int    `json:"rkey"` // key carried by the response the call returned (-1: none)
}
type rcSrvMsg struct {
	T   string `json:"t"`
	Key int    `json:"key"`
	Hs  bool   `json:"hs"` // the handshake of this connection was complete when the message arrived
}
type rcDel struct {
	Kind string `json:"kind"`
	ID   int    `json:"id"`
}
type rcSt struct {
	Ep      int        `json:"ep"`
	Up      bool       `json:"up"`
	Acc     bool       `json:"acc"`
	Hs      bool       `json:"hs"`
	NextID  int        `json:"nextId"`
	Calls   []rcCall   `json:"calls"`
	Srv     []rcSrvMsg `json:"srv"`   // what the service received on the current connection, in order
	Deliv   []rcDel    `json:"deliv"` // what the handlers received
	Run     string     `json:"run"`   // running | stopped | failed:<error>
	RegOK   bool       `json:"regok"` // every Register seen so far carried a valid signature of the client key
	Seen    []bool     `json:"seen"`  // the request of call k has reached the service
	SameH   bool       `json:"sameh"` // both registered handlers have received the same sequence
	Lat     []int      `json:"lat"`   // per call that timed out after its request was written: ms between the write and the time-out, else -1
	RegNew  bool       `json:"regnew"` // every Register so far carried a connection hash not used before
	Outputs string     `json:"outputs"`
}
type rcLine struct {
	Tr   string `json:"tr"`
	Act  rcAct  `json:"act"`
	St   rcSt   `json:"st"`
	Skip string `json:"skip"`
}

type rcHandler struct {
	mu   sync.Mutex
	d    []rcDel
	seqs []int         // the service's send number carried by every notification (HandlerQueue driver)
	gate chan struct{} // non-nil: the next handler call blocks until it is closed
	in   bool          // a call is blocked
	slow time.Duration // every call takes this long (a slow application)
	tips bool          // ReceiveBacklog driver: chain tips are recorded (height = send number); heights >= rbFloodBase only pass the gate
}

func (h *rcHandler) add(k string, id int) { h.addn(k, id, -1) }
func (h *rcHandler) addn(k string, id, n int) {
	h.mu.Lock()
	h.d = append(h.d, rcDel{k, id})
	h.seqs = append(h.seqs, n)
	g := h.gate
	if g != nil {
		h.in = true
	}
	slow := h.slow
	h.mu.Unlock()
	if g != nil {
		<-g
	}
	if slow > 0 {
		time.Sleep(slow)
	}
}
func (h *rcHandler) HandleTx(ctx context.Context, tx *Tx)            { h.addn("tx", int(tx.ID), int(tx.Tx.LockTime)) }
func (h *rcHandler) HandleTxUpdate(ctx context.Context, u *TxUpdate) { h.addn("upd", int(u.ID), int(u.TxID[2])|int(u.TxID[3])<<8) }
func (h *rcHandler) HandleHeaders(ctx context.Context, hs *Headers) {
	n := -1
	if len(hs.Headers) > 0 {
		n = int(hs.Headers[0].Nonce)
	}
	h.addn("hdrs", int(hs.StartHeight), n)
}
func (h *rcHandler) HandleInSync(ctx context.Context) { h.add("insync", 0) }
func (h *rcHandler) HandleMessage(ctx context.Context, p MessagePayload) {
	if a, ok := p.(*AcceptRegister); ok {
		h.addn("accepted", 0, int(a.MessageCount))
	}
	if t, ok := p.(*ChainTip); ok && h.tips {
		if t.Height >= rbFloodBase {
			h.mu.Lock()
			g := h.gate
			h.mu.Unlock()
			if g != nil {
				<-g
			}
			return
		}
		h.addn("tip", 0, int(t.Height))
	}
}

const rbFloodBase = 1000000

// connection retry delay and message channel time-out of the clients newRC makes (the ReceiveBacklog driver needs a retry delay long
// enough to act between a teardown and the next connection, and a message loop that stays blocked as long as the script says)
var rcRetryDelay = 40 * time.Millisecond
var rcMsgTimeoutCfg = rcMsgTimeout

type rcH struct {
	t         *testing.T
	ctype     ConnectionType
	ln        net.Listener
	serverKey bitcoin.Key
	otherKey  bitcoin.Key
	clientKey bitcoin.Key
	c         *RemoteClient
	h         *rcHandler
	h2        *rcHandler
	interrupt chan interface{}
	runDone   chan error
	runRes    string
	conns     chan net.Conn
	conn      net.Conn
	in        chan *Message
	reg       *Register
	ep        int
	hs        bool
	srv       []rcSrvMsg
	regOK     bool
	calls     []rcCall
	seen      []bool // the request of call k has reached the service
	buf       int    // messages waiting in the client's send buffer for the handshake
	gate      *rcGate      // what the service reads the current connection through
	big       map[int]bool // call slot k holds a SendTx of the big transaction
	carried   bool         // a message is carried over to the next handshake
	acceptCount int        // HandlerQueue driver: the message count the next accept carries (its send number)
	bigNext   bool
	seenAt    []time.Time
	doneAt    []time.Time
	hashes    map[bitcoin.Hash32]bool
	regNew    bool
	lastAcc   *AcceptRegister // the valid accept of an earlier connection (for the replay forgery)
	thisAcc   *AcceptRegister
	results   []chan [3]string
	outputs   string
	mu        sync.Mutex
}

func rcHash(key int) bitcoin.Hash32 {
	var h bitcoin.Hash32
	h[0] = byte(key)
	h[5] = 0xC1
	return h
}

// rcCallHash is the hash a call of (kind, key) is about: calls of different kinds with the same key concern the same transaction
// (GetTx, SendTx, ReprocessTx) or the same block (GetHeader, MarkInvalid, MarkNotInvalid), as they do in an application.
func rcCallHash(kind string, key int) bitcoin.Hash32 {
	switch kind {
	case "GetTx", "SendTx", "ReprocessTx":
		return *rcTx(key).TxHash()
	case "GetHeader", "MarkInvalid", "MarkNotInvalid":
		rh := rcHeader(key)
		return *rh.BlockHash()
	}
	return rcHash(key)
}

func rcTx(key int) *wire.MsgTx {
	tx := wire.NewMsgTx(1)
	z := bitcoin.Hash32{byte(key), 9}
	tx.AddTxIn(wire.NewTxIn(wire.NewOutPoint(&z, 0), []byte{0x51}))
	for i := 0; i < 3; i++ {
		tx.AddTxOut(wire.NewTxOut(uint64(100*key+i), []byte{0x51, byte(key), byte(i)}))
	}
	return tx
}

func rcHeader(key int) wire.BlockHeader {
	return wire.BlockHeader{Version: 1, Bits: uint32(key), Nonce: 77}
}

// rcGate lets the scripted service stop reading its connection (the peer's writes then block once the socket buffers are full).
type rcGate struct {
	c      net.Conn
	mu     sync.Mutex
	cond   *sync.Cond
	paused bool
	closed bool
}

func newRcGate(c net.Conn) *rcGate {
	g := &rcGate{c: c}
	g.cond = sync.NewCond(&g.mu)
	return g
}

func (g *rcGate) Read(p []byte) (int, error) {
	g.mu.Lock()
	for g.paused && !g.closed {
		g.cond.Wait()
	}
	g.mu.Unlock()
	return g.c.Read(p)
}

func (g *rcGate) set(paused, closed bool) {
	g.mu.Lock()
	g.paused, g.closed = paused, g.closed || closed
	g.mu.Unlock()
	g.cond.Broadcast()
}

// rcBigTx is a transaction far larger than the socket buffers of a loop-back connection.
var rcBigMu sync.Mutex
var rcBigTxs = map[int]*wire.MsgTx{}

func rcBigTx(key int) *wire.MsgTx {
	rcBigMu.Lock()
	defer rcBigMu.Unlock()
	if tx, ok := rcBigTxs[key]; ok {
		return tx
	}
	tx := rcTx(key)
	script := make([]byte, 32<<20)
	script[0] = 0x6a
	tx.AddTxOut(wire.NewTxOut(0, script))
	rcBigTxs[key] = tx
	rcTxKey[*tx.TxHash()] = key
	return tx
}

var rcTxKey = map[bitcoin.Hash32]int{}
var rcHdrKey = map[bitcoin.Hash32]int{}

func init() {
	for k := 0; k < 40; k++ {
		rcTxKey[*rcTx(k).TxHash()] = k
		hd := rcHeader(k)
		rcHdrKey[*hd.BlockHash()] = k
	}
}

func newRC(t *testing.T, ctype ConnectionType, ncalls int) *rcH {
	h := &rcH{t: t, ctype: ctype, conns: make(chan net.Conn, 10), in: make(chan *Message, 1000), regOK: true, regNew: true, hashes: map[bitcoin.Hash32]bool{}, h: &rcHandler{}, h2: &rcHandler{}}
	var err error
	h.serverKey, _ = bitcoin.GenerateKey(bitcoin.MainNet)
	h.otherKey, _ = bitcoin.GenerateKey(bitcoin.MainNet)
	h.clientKey, _ = bitcoin.GenerateKey(bitcoin.MainNet)
	h.ln, err = net.Listen("tcp", "127.0.0.1:0")
	if err != nil {
		t.Fatal(err)
	}
	go func() {
		for {
			c, err := h.ln.Accept()
			if err != nil {
				return
			}
			h.conns <- c
		}
	}()
	cfg := NewConfig(h.ln.Addr().String(), h.serverKey.PublicKey(), h.clientKey, 100, ctype)
	cfg.RetryDelay = config.NewDuration(rcRetryDelay)
	cfg.RequestTimeout = config.NewDuration(rcReqTimeout)
	cfg.DialTimeout = config.NewDuration(time.Second)
	cfg.HandshakeTimeout = config.NewDuration(20 * time.Second)
	cfg.MessageChannelTimeout = config.NewDuration(rcMsgTimeoutCfg)
	cfg.RetryError = config.NewDuration(10 * time.Minute)
	h.c, err = NewRemoteClient(cfg)
	if err != nil {
		t.Fatal(err)
	}
	h.c.RegisterHandler(h.h)
	h.c.RegisterHandler(h.h2)
	h.interrupt = make(chan interface{})
	h.runDone = make(chan error, 1)
	h.runRes = "running"
	ctx := logger.ContextWithNoLogger(context.Background())
	if os.Getenv("VERIF_LOG") != "" {
		ctx = context.Background()
	}
	go func() { h.runDone <- h.c.Run(ctx, h.interrupt) }()
	for i := 0; i < ncalls; i++ {
		h.calls = append(h.calls, rcCall{St: "idle", RKey: -1})
		h.seen = append(h.seen, false)
		h.seenAt = append(h.seenAt, time.Time{})
		h.doneAt = append(h.doneAt, time.Time{})
		h.results = append(h.results, nil)
	}
	if !h.newConn() {
		t.Fatalf("the client did not connect")
	}
	h.awaitPublished()
	return h
}

// awaitPublished waits until the client has published the connection the service is talking on to its direct writers
// (connect : 1216 writes the register message, maintainConnection : 1437 stores the connection afterwards).
func (h *rcH) awaitPublished() {
	for dl := time.Now().Add(300 * time.Millisecond); time.Now().Before(dl); time.Sleep(time.Millisecond) {
		if cl, ok := h.c.conn.Load().(net.Conn); ok && cl != nil && cl.LocalAddr().String() == h.conn.RemoteAddr().String() {
			break
		}
	}
}

// newConn waits for the client to connect and send its Register message.
func (h *rcH) newConn() bool {
	select {
	case c := <-h.conns:
		h.conn = c
	case <-time.After(3 * time.Second):
		return false
	}
	h.ep++
	h.hs = false
	h.srv = nil
	in := make(chan *Message, 1000)
	h.in = in
	conn := h.conn
	h.gate = newRcGate(conn)
	gate := h.gate
	go func() {
		r := bufio.NewReader(gate)
		for {
			m := &Message{}
			if err := m.Deserialize(r); err != nil {
				close(in)
				return
			}
			in <- m
		}
	}()
	select {
	case m, ok := <-in:
		if !ok {
			return false
		}
		reg, isReg := m.Payload.(*Register)
		if !isReg {
			h.regOK = false
			return true
		}
		h.reg = reg
		if h.hashes[reg.Hash] {
			h.regNew = false
		}
		h.hashes[reg.Hash] = true
		if h.thisAcc != nil {
			h.lastAcc, h.thisAcc = h.thisAcc, nil
		}
		sh, err := reg.SigHash()
		if err != nil || !reg.Signature.Verify(*sh, reg.Key) || !reg.Key.Equal(h.clientKey.PublicKey()) {
			h.regOK = false
		}
	case <-time.After(3 * time.Second):
		return false
	}
	return true
}

func (h *rcH) send(p MessagePayload) error {
	m := &Message{Payload: p}
	return m.Serialize(h.conn)
}

// pump moves what the service has received so far into h.srv; waits up to d for at least `want` new messages.
func (h *rcH) pump(want int, d time.Duration) {
	deadline := time.After(d)
	got := 0
	for {
		if got >= want {
			// drain without waiting
			select {
			case m, ok := <-h.in:
				if !ok {
					return
				}
				h.record(m)
				got++
				continue
			default:
				return
			}
		}
		select {
		case m, ok := <-h.in:
			if !ok {
				return
			}
			h.record(m)
			got++
		case <-deadline:
			return
		}
	}
}

func (h *rcH) record(m *Message) {
	e := rcSrvMsg{T: NameForMessageType(m.Payload.Type()), Key: -1, Hs: h.hs}
	switch p := m.Payload.(type) {
	case *Ready:
		e.Key = int(p.NextMessageID)
		e.Hs = true
		h.hs = true
	case *GetTx:
		e.Key = rcTxKey[p.TxID]
	case *GetHeader:
		e.Key = rcHdrKey[p.BlockHash]
	case *GetHeaders:
		e.Key = int(p.RequestHeight) + 1 // abstract key k is height k-1: key 1 is the genesis height
	case *ReprocessTx:
		e.Key = rcTxKey[p.TxID]
	case *MarkHeaderInvalid:
		e.Key = rcHdrKey[p.BlockHash]
	case *MarkHeaderNotInvalid:
		e.Key = rcHdrKey[p.BlockHash]
	case *SendTx:
		e.Key = rcTxKey[*p.Tx.TxHash()]
	case *Ping:
		return
	}
	for k, c := range h.calls {
		if c.St == "pending" && !h.seen[k] && rcMsgName(c.Kind) == e.T && (c.Key == e.Key || c.Kind == "FeeQuotes") {
			h.seen[k] = true
			h.seenAt[k] = time.Now()
			break
		}
	}
	h.srv = append(h.srv, e)
}

func (h *rcH) startCall(k int, kind string, key int) {
	ctx := logger.ContextWithNoLogger(context.Background())
	res := make(chan [3]string, 1)
	h.results[k] = res
	h.calls[k] = rcCall{St: "pending", Kind: kind, Key: key, RKey: -1}
	h.seen[k] = false
	if h.big == nil {
		h.big = map[int]bool{}
	}
	big := h.bigNext
	h.big[k], h.bigNext = big, false
	if big {
		rcBigTx(key) // built (and registered) before the service can see it
	}
	go func() {
		var err error
		rkey := -1
		switch kind {
		case "GetTx":
			var tx *wire.MsgTx
			tx, err = h.c.GetTx(ctx, *rcTx(key).TxHash())
			if err == nil && tx != nil {
				rkey = rcTxKey[*tx.TxHash()]
			}
		case "GetHeader":
			var hd *Header
			rh := rcHeader(key)
			hd, err = h.c.GetHeader(ctx, *rh.BlockHash())
			if err == nil && hd != nil {
				rkey = int(hd.BlockHeight)
			}
		case "GetHeaders":
			var hs *Headers
			if k%2 == 1 { // odd call slots go through BlockHash, which is a GetHeaders call for one header
				var bh *bitcoin.Hash32
				bh, err = h.c.BlockHash(ctx, key-1)
				if err == nil && bh != nil {
					rkey = rcHdrKey[*bh]
				}
			} else {
				hs, err = h.c.GetHeaders(ctx, key-1, 1)
				if err == nil && hs != nil {
					rkey = int(hs.RequestHeight) + 1
				}
			}
		case "ReprocessTx":
			err = h.c.ReprocessTx(ctx, rcCallHash("ReprocessTx", key), nil)
			rkey = key
		case "MarkInvalid":
			err = h.c.MarkHeaderInvalid(ctx, rcCallHash("MarkInvalid", key))
			rkey = key
		case "MarkNotInvalid":
			err = h.c.MarkHeaderNotInvalid(ctx, rcCallHash("MarkNotInvalid", key))
			rkey = key
		case "SendTx":
			tx := rcTx(key)
			if big {
				tx = rcBigTx(key)
			}
			err = h.c.SendTx(ctx, tx)
			rkey = key
		case "FeeQuotes":
			_, err = h.c.GetFeeQuotes(ctx)
			rkey = key
		}
		r := "ok"
		if err != nil {
			rkey = -1
			if re, ok := errorsCause(err).(RejectError); ok {
				r = "reject"
				rkey = -2
				if re.Code == RejectCodeNotFound && re.Description == fmt.Sprintf("no-%d", key) {
					rkey = key // the error carries the service's code and message
				}
			} else if errorsCause(err) == ErrTimeout {
				r = "timeout"
			} else {
				r = "error:" + err.Error()
			}
		}
		res <- [3]string{r, fmt.Sprint(rkey), fmt.Sprint(time.Now().UnixNano())}
	}()
}

// rcAcceptSigHash: double SHA-256 over session key, the three counts (varints) and the connection hash.
func rcAcceptSigHash(m *AcceptRegister, h bitcoin.Hash32) bitcoin.Hash32 {
	var b bytes.Buffer
	b.Write(m.Key.Bytes())
	wire.WriteVarInt(&b, 0, m.PushDataCount)
	wire.WriteVarInt(&b, 0, m.UTXOCount)
	wire.WriteVarInt(&b, 0, m.MessageCount)
	b.Write(h[:])
	one := sha256.Sum256(b.Bytes())
	two := sha256.Sum256(one[:])
	return bitcoin.Hash32(two)
}

func errorsCause(err error) error {
	type causer interface{ Cause() error }
	for err != nil {
		c, ok := err.(causer)
		if !ok {
			break
		}
		err = c.Cause()
	}
	return err
}

// collect gathers the results of calls that have returned; waits up to d for call `k` if k >= 0.
func (h *rcH) collect(k int, d time.Duration) {
	for i := range h.calls {
		if h.calls[i].St != "pending" {
			continue
		}
		var r [3]string
		got := false
		if i == k {
			select {
			case r = <-h.results[i]:
				got = true
			case <-time.After(d):
			}
		} else {
			select {
			case r = <-h.results[i]:
				got = true
			default:
			}
		}
		if got {
			h.calls[i].St = "done"
			h.calls[i].Res = r[0]
			fmt.Sscan(r[1], &h.calls[i].RKey)
			var ns int64
			fmt.Sscan(r[2], &ns)
			h.doneAt[i] = time.Unix(0, ns)
		}
	}
}

func (h *rcH) kindType(kind string) uint64 {
	switch kind {
	case "GetTx":
		return MessageTypeGetTx
	case "GetHeader":
		return MessageTypeGetHeader
	case "GetHeaders":
		return MessageTypeGetHeaders
	case "ReprocessTx":
		return MessageTypeReprocessTx
	case "MarkInvalid":
		return MessageTypeMarkHeaderInvalid
	case "MarkNotInvalid":
		return MessageTypeMarkHeaderNotInvalid
	case "SendTx":
		return MessageTypeSendTx
	}
	return MessageTypeGetFeeQuotes
}

// response builds the service's answer for a call of (kind, key).
func (h *rcH) response(kind string, key int, form string) MessagePayload {
	hash := rcCallHash(kind, key)
	if form == "reject" {
		r := &Reject{MessageType: h.kindType(kind), Hash: &hash, Code: RejectCodeNotFound, Message: fmt.Sprintf("no-%d", key)}
		if kind == "GetHeaders" || kind == "FeeQuotes" {
			r.Hash = nil
		}
		return r
	}
	switch kind {
	case "GetTx":
		return &BaseTx{Tx: rcTx(key)}
	case "GetHeader":
		return &Header{Header: rcHeader(key), BlockHeight: uint32(key)}
	case "GetHeaders":
		hd := rcHeader(key)
		return &Headers{RequestHeight: int32(key - 1), StartHeight: uint32(key), Headers: []*wire.BlockHeader{&hd}}
	case "FeeQuotes":
		return &FeeQuotes{}
	}
	return &Accept{MessageType: h.kindType(kind), Hash: &hash}
}


func (h *rcH) step(a rcAct) (res string) {
	defer func() {
		if e := recover(); e != nil {
			res = fmt.Sprintf("PANIC: %v", e)
		}
	}()
	ctx := logger.ContextWithNoLogger(context.Background())
	if h.runRes != "running" {
		return "run ended"
	}
	switch a.A {
	case "Accept":
		if h.conn == nil || h.reg == nil {
			return "no connection"
		}
		sk, err := bitcoin.NextKey(h.serverKey, h.reg.Hash)
		if err != nil {
			return "next key: " + err.Error()
		}
		acc := &AcceptRegister{Key: sk.PublicKey(), PushDataCount: 1, UTXOCount: 2, MessageCount: 3}
		if h.acceptCount > 0 {
			acc.MessageCount = uint64(h.acceptCount)
		}
		if a.Kind == "replay" && h.lastAcc == nil {
			return "no earlier accept to replay"
		}
		signHash := h.reg.Hash
		signer := sk
		switch a.Kind {
		case "wrongkey":
			acc.Key = h.otherKey.PublicKey()
			signer = h.otherKey
		case "otherhash":
			oh := bitcoin.Hash32{9, 9, 9}
			k2, _ := bitcoin.NextKey(h.serverKey, oh)
			acc.Key = k2.PublicKey()
			signer = k2
			signHash = oh
		case "badsig":
			signer = h.otherKey
		}
		sh := rcAcceptSigHash(acc, signHash) // computed here, not by the code under test
		acc.Signature, _ = signer.Sign(sh)
		if a.Kind == "counts" {
			acc.MessageCount = 99 // altered after signing
		}
		if a.Kind == "replay" {
			acc = h.lastAcc // the genuine accept of an earlier connection, byte for byte
		}
		h.pump(0, 0) // what arrived before the accept was even sent
		if err := h.send(acc); err != nil {
			return "send: " + err.Error()
		}
		if a.Kind == "valid" {
			h.thisAcc = acc
			dl := time.Now().Add(rcWait)
			for !h.c.IsAccepted(ctx) && time.Now().Before(dl) {
				time.Sleep(2 * time.Millisecond)
			}
			if h.ctype != ConnectionTypeFull {
				h.hs = true
			}
			if h.ctype != ConnectionTypeFull {
				h.pump(h.buf, rcWait) // queued requests are released by the handshake
				h.buf = 0
				h.carried = false
			}
		} else {
			select {
			case err := <-h.runDone:
				h.runRes = "failed:" + errorsCauseText(err)
			case <-time.After(rcWait):
			}
			time.Sleep(20 * time.Millisecond) // whatever the client wrote while shutting down has arrived by now
		}
	case "Ready", "ReadyRace":
		// one Ready at a time in this process: the hook between "ready written" and "next id stored" belongs to the caller
		rcReadyMu.Lock()
		if a.A == "ReadyRace" {
			rcReadyHook = func() { // the service answers the ready message at once with the tx that has the declared id
				h.send(&Tx{ID: uint64(a.K), Tx: rcTx(a.K % 30), Outputs: []*wire.TxOut{wire.NewTxOut(1, []byte{0x51})}})
				h.barrier()
			}
		}
		err := h.c.Ready(ctx, uint64(a.K))
		rcReadyHook = nil
		rcReadyMu.Unlock()
		if err != nil {
			return "Ready: " + err.Error()
		}
		h.pump(1+h.buf, rcWait)
		h.buf = 0
		h.carried = false
	case "Call":
		if h.calls[a.K].St == "pending" {
			return "slot busy"
		}
		h.startCall(a.K, a.Kind, a.Key)
		if h.hs && h.conn != nil {
			h.pump(1, rcWait)
		} else {
			h.buf++
			time.Sleep(30 * time.Millisecond)
			h.pump(0, 0)
		}
	case "CallBig":
		if h.calls[a.K].St == "pending" {
			return "slot busy"
		}
		if !h.hs || h.conn == nil || h.carried {
			return "not connected"
		}
		h.gate.set(true, false) // the service stops reading: the client's write blocks
		h.bigNext = true
		h.startCall(a.K, "SendTx", a.Key)
		h.carried = true
		h.buf++
		time.Sleep(100 * time.Millisecond)
	case "Respond":
		c := h.calls[a.K]
		key := c.Key
		if a.Kind == "wrongkey" {
			key = c.Key + 20
		}
		form := a.Kind
		if form == "wrongkey" {
			form = "ok"
		}
		rp := h.response(c.Kind, key, form)
		if h.big[a.K] && c.Kind == "SendTx" {
			bh := *rcBigTx(key).TxHash()
			switch x := rp.(type) {
			case *Accept:
				x.Hash = &bh
			case *Reject:
				x.Hash = &bh
			}
		}
		if err := h.send(rp); err != nil {
			return "send: " + err.Error()
		}
		if form == "reject" && !h.c.IsAccepted(ctx) {
			select { // a reject before the accept ends Run
			case err := <-h.runDone:
				h.runRes = "failed:" + errorsCauseText(err)
			case <-time.After(rcWait):
			}
			return ""
		}
		h.barrier()
		// the answer has been routed; a call it was routed to returns as soon as its goroutine runs
		cand := false
		for _, x := range h.calls {
			if x.St == "pending" && x.Kind == c.Kind && (x.Key == key || x.Kind == "FeeQuotes") {
				cand = true
			}
		}
		before := h.pendingCount()
		if cand {
			for dl := time.Now().Add(700 * time.Millisecond); time.Now().Before(dl) && h.pendingCount() == before; {
				h.collect(-1, 0)
				time.Sleep(2 * time.Millisecond)
			}
		} else {
			time.Sleep(10 * time.Millisecond)
		}
		h.collect(-1, 0)
	case "Burst":
		// a headers notification, the next tx, the next tx update and an in-sync message in ONE write
		next := h.c.NextMessageID()
		hd := rcHeader(a.K)
		var buf bytes.Buffer
		for _, p := range []MessagePayload{
			&Headers{RequestHeight: -7, StartHeight: uint32(a.K), Headers: []*wire.BlockHeader{&hd}},
			&Tx{ID: next, Tx: rcTx(int(next % 30)), Outputs: []*wire.TxOut{wire.NewTxOut(1, []byte{0x51})}},
			&TxUpdate{ID: next + 1, TxID: rcHash(int(next % 30))},
			&InSync{},
		} {
			m := &Message{Payload: p}
			if err := m.Serialize(&buf); err != nil {
				return "serialize: " + err.Error()
			}
		}
		if _, err := h.conn.Write(buf.Bytes()); err != nil {
			return "send: " + err.Error()
		}
		h.barrier()
	case "Subscribe":
		var err error
		h1, h2 := rcHash(1), rcHash(2)
		switch a.Kind {
		case "subscribe_push_data":
			err = h.c.SubscribePushDatas(ctx, [][]byte{{1, 2, 3}})
		case "unsubscribe_push_data":
			err = h.c.UnsubscribePushDatas(ctx, [][]byte{{1, 2, 3}})
		case "subscribe_tx":
			err = h.c.SubscribeTx(ctx, h1, []uint32{0})
		case "unsubscribe_tx":
			err = h.c.UnsubscribeTx(ctx, h1, []uint32{0})
		case "subscribe_outputs":
			err = h.c.SubscribeOutputs(ctx, []*wire.OutPoint{wire.NewOutPoint(&h2, 1)})
		case "unsubscribe_outputs":
			err = h.c.UnsubscribeOutputs(ctx, []*wire.OutPoint{wire.NewOutPoint(&h2, 1)})
		case "subscribe_headers":
			err = h.c.SubscribeHeaders(ctx)
		case "unsubscribe_headers":
			err = h.c.UnsubscribeHeaders(ctx)
		case "subscribe_contracts":
			err = h.c.SubscribeContracts(ctx)
		case "unsubscribe_contracts":
			err = h.c.UnsubscribeContracts(ctx)
		default:
			return "unknown subscription"
		}
		if err != nil {
			return "subscribe: " + err.Error()
		}
		h.pump(1, rcWait)
	case "RespondStale":
		form := "ok"
		if a.K != 0 {
			form = "reject"
		}
		if err := h.send(h.response(a.Kind, a.Key, form)); err != nil {
			return "send: " + err.Error()
		}
		h.barrier()
		time.Sleep(10 * time.Millisecond)
		h.collect(-1, 0)
	case "Timeout":
		for k := range h.calls {
			if h.calls[k].St == "pending" {
				h.collect(k, rcMsgTimeout+rcWait)
			}
		}
	case "Notify":
		var p MessagePayload
		switch a.Kind {
		case "tx":
			p = &Tx{ID: uint64(a.K), Tx: rcTx(a.K % 30), Outputs: []*wire.TxOut{wire.NewTxOut(1, []byte{0x51})}}
		case "upd":
			p = &TxUpdate{ID: uint64(a.K), TxID: rcHash(a.K)}
		case "insync":
			p = &InSync{}
		case "hdrs":
			hd := rcHeader(a.K)
			p = &Headers{RequestHeight: -7, StartHeight: uint32(a.K), Headers: []*wire.BlockHeader{&hd}}
		}
		if err := h.send(p); err != nil {
			return "send: " + err.Error()
		}
		h.barrier()
	case "Drop":
		if h.conn != nil {
			h.conn.Close()
			h.gate.set(false, true)
		}
		h.conn = nil
		if !h.newConn() {
			return "the client did not reconnect"
		}
		// the register message is written before the connection's routines (and flags) are set up
		for dl := time.Now().Add(200 * time.Millisecond); h.c.IsAccepted(ctx) && time.Now().Before(dl); {
			time.Sleep(time.Millisecond)
		}
		// ... and before the client publishes the new connection to its direct writers (connect : 1216 writes, maintainConnection : 1437 stores)
		h.awaitPublished()
		// nothing but handshake messages may follow the register message (a carried-over message gets time to show up)
		if h.carried {
			h.pump(1, 500*time.Millisecond)
		} else {
			h.pump(0, 0)
		}
	case "Stop":
		close(h.interrupt)
		select {
		case err := <-h.runDone:
			if err == nil || errorsCause(err) == threads.Interrupted || strings.Contains(err.Error(), "nterrupt") {
				h.runRes = "stopped"
			} else {
				h.runRes = "failed:" + errorsCauseText(err)
			}
		case <-time.After(5 * time.Second):
			h.runRes = "hung"
		}
		time.Sleep(20 * time.Millisecond)
	default:
		h.t.Fatalf("unknown action %q", a.A)
	}
	return ""
}

// barrier sends an unsolicited Headers message with a marker height: the client routes it through the request goroutine
// (no match) and then through the single handler goroutine, so once the handler has seen it every message sent before
// it has been routed and delivered.
const rcMarker = 9999

var (
	rcReadyMu   sync.Mutex
	rcReadyHook func()
)

func (h *rcH) markers() int {
	n := 0
	for _, d := range h.h2.snapshot() { // the handler registered last
		if d.Kind == "hdrs" && d.ID == rcMarker {
			n++
		}
	}
	return n
}

func (h *rcH) barrier() {
	before := h.markers()
	hd := rcHeader(0)
	if err := h.send(&Headers{RequestHeight: -9, StartHeight: rcMarker, Headers: []*wire.BlockHeader{&hd}}); err != nil {
		return
	}
	dl := time.Now().Add(rcWait)
	for h.markers() == before && time.Now().Before(dl) {
		time.Sleep(time.Millisecond)
	}
}

func errorsCauseText(err error) string {
	if err == nil {
		return ""
	}
	c := errorsCause(err)
	if _, ok := c.(RejectError); ok || strings.Contains(err.Error(), "Reject: (") {
		return "rejected"
	}
	if os.Getenv("VERIF_DEBUG") != "" {
		fmt.Fprintf(os.Stderr, "run error: %T %v / cause %T\n", err, err, c)
	}
	switch c {
	case ErrWrongKey:
		return "wrongkey"
	case ErrBadSignature:
		return "badsig"
	}
	if strings.Contains(err.Error(), ErrWrongKey.Error()) {
		return "wrongkey"
	}
	if strings.Contains(err.Error(), ErrBadSignature.Error()) {
		return "badsig"
	}
	return "other"
}

func (hd *rcHandler) snapshot() []rcDel {
	hd.mu.Lock()
	defer hd.mu.Unlock()
	return append([]rcDel{}, hd.d...)
}

func (h *rcH) pendingCount() int {
	n := 0
	for _, c := range h.calls {
		if c.St == "pending" {
			n++
		}
	}
	return n
}

// queued: pending calls whose request has not reached the service yet (they wait for the handshake)
func (h *rcH) queued() int {
	n := 0
	for i, c := range h.calls {
		if c.St == "pending" && !h.seen[i] {
			n++
		}
	}
	return n
}

func rcMsgName(kind string) string {
	switch kind {
	case "GetTx":
		return "get_tx"
	case "GetHeader":
		return "get_header"
	case "GetHeaders":
		return "get_headers"
	case "ReprocessTx":
		return "reprocess_tx"
	case "MarkInvalid":
		return "mark_header_invalid"
	case "MarkNotInvalid":
		return "mark_header_not_invalid"
	case "SendTx":
		return "send_tx"
	}
	return "get_fee_quotes"
}

func (h *rcH) project() rcSt {
	ctx := logger.ContextWithNoLogger(context.Background())
	h.pump(0, 0)
	h.collect(-1, 0)
	select {
	case err := <-h.runDone:
		if h.runRes == "running" {
			h.runRes = "failed:" + errorsCauseText(err)
		}
	default:
	}
	s := rcSt{Ep: h.ep, Up: h.conn != nil, Acc: h.c.IsAccepted(ctx), Hs: h.hs, NextID: int(h.c.NextMessageID()),
		Calls: append([]rcCall{}, h.calls...), Srv: append([]rcSrvMsg{}, h.srv...), Run: h.runRes, RegOK: h.regOK, Outputs: h.outputs}
	s.Seen = append([]bool{}, h.seen...)
	s.RegNew = h.regNew
	for k, c := range h.calls {
		l := -1
		if c.St == "done" && c.Res == "timeout" && h.seen[k] && !h.seenAt[k].IsZero() {
			l = int(h.doneAt[k].Sub(h.seenAt[k]) / time.Millisecond)
		}
		s.Lat = append(s.Lat, l)
	}
	if s.Lat == nil {
		s.Lat = []int{}
	}
	d1, d2 := h.h.snapshot(), h.h2.snapshot()
	s.SameH = len(d1) == len(d2)
	for i := 0; s.SameH && i < len(d1); i++ {
		s.SameH = d1[i] == d2[i]
	}
	s.Deliv = []rcDel{}
	for _, d := range d1 {
		if d.Kind != "accepted" && !(d.Kind == "hdrs" && d.ID == rcMarker) {
			s.Deliv = append(s.Deliv, d)
		}
	}
	if s.Srv == nil {
		s.Srv = []rcSrvMsg{}
	}
	return s
}

func (h *rcH) close() {
	select {
	case <-h.interrupt:
	default:
		close(h.interrupt)
	}
	if h.conn != nil {
		h.conn.Close()
	}
	h.ln.Close()
	select {
	case <-h.runDone:
	case <-time.After(3 * time.Second):
	}
}

func TestVerifReplayRemoteClient(t *testing.T) {
	// scheduler gate: let the goroutines woken by a connection shutdown run before the socket is closed
	verifHook = func(point string) {
		if point == "conn.teardown" {
			time.Sleep(5 * time.Millisecond)
		}
		if point == "ready.sent" {
			if f := rcReadyHook; f != nil {
				f()
			}
		}
	}
	var in struct {
		NCalls  int `json:"ncalls"`
		Scripts []struct {
			ID    string  `json:"id"`
			Ctype int     `json:"ctype"`
			Steps []rcAct `json:"steps"`
		} `json:"scripts"`
	}
	raw, err := os.ReadFile(os.Getenv("VERIF_SCRIPTS"))
	if err != nil {
		t.Fatal(err)
	}
	if err := json.Unmarshal(raw, &in); err != nil {
		t.Fatal(err)
	}
	f, _ := os.Create(os.Getenv("VERIF_TRACE"))
	defer f.Close()
	w := bufio.NewWriter(f)
	defer w.Flush()
	enc := json.NewEncoder(w)
	var mu sync.Mutex
	emit := func(l rcLine) { mu.Lock(); enc.Encode(l); mu.Unlock() }
	// scenarios are independent (own listener, own client): run several at once
	sem := make(chan struct{}, 8)
	var wg sync.WaitGroup
	out := make([][]rcLine, len(in.Scripts))
	for i := range in.Scripts {
		wg.Add(1)
		sem <- struct{}{}
		go func(i int) {
			defer wg.Done()
			defer func() { <-sem }()
			sc := in.Scripts[i]
			ct := ConnectionTypeFull
			if sc.Ctype == 2 {
				ct = ConnectionTypeControl
			}
			h := newRC(t, ct, in.NCalls)
			var ls []rcLine
			ls = append(ls, rcLine{Tr: sc.ID, Act: rcAct{A: "init", Kind: fmt.Sprint(sc.Ctype)}, St: h.project()})
			for _, a := range sc.Steps {
				skip := h.step(a)
				ls = append(ls, rcLine{Tr: sc.ID, Act: a, St: h.project(), Skip: skip})
				if strings.HasPrefix(skip, "PANIC") {
					break
				}
			}
			h.close()
			out[i] = ls
		}(i)
	}
	wg.Wait()
	for _, ls := range out {
		for _, l := range ls {
			emit(l)
		}
	}
	_ = sort.Ints
}

// ---- C16, outputs lookup: cases enumerated by spec/OutputsCases.tla ----

type ocOut struct {
	T     int    `json:"t"`
	I     uint64 `json:"i"`
	Value uint64 `json:"value"`
}
type ocRes struct {
	Err  bool    `json:"err"`
	Outs []ocOut `json:"outs"`
}
type ocCase struct {
	Ops []struct {
		T int    `json:"t"`
		I uint64 `json:"i"`
	} `json:"ops"`
	Expect ocRes `json:"expect"`
}
type ocLine struct {
	ID     int    `json:"id"`
	Tr     int    `json:"tr"`
	Got    ocRes  `json:"got"`
	Expect ocRes  `json:"expect"`
	Panic  string `json:"panic"`
	Text   string `json:"text"`
}

func TestVerifOutputsCases(t *testing.T) {
	var in struct {
		Base    int      `json:"base"`
		Scripts []ocCase `json:"scripts"`
	}
	raw, err := os.ReadFile(os.Getenv("VERIF_SCRIPTS"))
	if err != nil {
		t.Fatal(err)
	}
	if err := json.Unmarshal(raw, &in); err != nil {
		t.Fatal(err)
	}
	f, _ := os.Create(os.Getenv("VERIF_TRACE"))
	defer f.Close()
	w := bufio.NewWriter(f)
	defer w.Flush()
	enc := json.NewEncoder(w)

	h := newRC(t, ConnectionTypeFull, 0)
	defer h.close()
	if s := h.step(rcAct{A: "Accept", Kind: "valid"}); s != "" {
		t.Fatal(s)
	}
	if s := h.step(rcAct{A: "Ready", K: 1}); s != "" {
		t.Fatal(s)
	}
	// the service: answers every transaction request, knows transactions 1 and 2
	go func() {
		for m := range h.in {
			g, ok := m.Payload.(*GetTx)
			if !ok {
				continue
			}
			k, known := rcTxKey[g.TxID]
			if known && (k == 1 || k == 2) {
				h.send(&BaseTx{Tx: rcTx(k)})
			} else {
				id := g.TxID
				h.send(&Reject{MessageType: MessageTypeGetTx, Hash: &id, Code: RejectCodeNotFound, Message: "unknown"})
			}
		}
	}()
	ctx := logger.ContextWithNoLogger(context.Background())
	for n, c := range in.Scripts {
		ln := ocLine{ID: in.Base + n, Expect: c.Expect, Got: ocRes{Outs: []ocOut{}}}
		if ln.Expect.Outs == nil {
			ln.Expect.Outs = []ocOut{}
		}
		func() {
			defer func() {
				if e := recover(); e != nil {
					ln.Panic = fmt.Sprint(e)
				}
			}()
			var ops []wire.OutPoint
			for _, o := range c.Ops {
				ops = append(ops, wire.OutPoint{Hash: *rcTx(o.T).TxHash(), Index: uint32(o.I)})
			}
			res, err := h.c.GetOutputs(ctx, ops)
			if err != nil {
				ln.Got.Err = true
				ln.Text = err.Error()
				return
			}
			if len(res) != len(ops) {
				ln.Text = fmt.Sprintf("%d results for %d outpoints", len(res), len(ops))
			}
			for _, u := range res {
				o := ocOut{T: -1, I: uint64(u.Index), Value: u.Value}
				if k, ok := rcTxKey[u.Hash]; ok {
					o.T = k
				}
				// the locking script names <<t, i>>: it must belong to the outpoint it is reported for
				if len(u.LockingScript) != 3 || int(u.LockingScript[1]) != o.T || uint64(u.LockingScript[2]) != o.I {
					o.T = -2
				}
				ln.Got.Outs = append(ln.Got.Outs, o)
			}
		}()
		enc.Encode(ln)
	}
}
