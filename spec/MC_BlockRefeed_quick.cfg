SPECIFICATION Spec
CONSTANTS
  H = 3
  MaxRefeed = 2
  MaxSteps = 14
  Fix <- NoFix
VIEW View
INVARIANTS OwnBlock InOrder
CHECK_DEADLOCK FALSE
