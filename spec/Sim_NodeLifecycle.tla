---- MODULE Sim_NodeLifecycle ----
(* Scenario generator: the behaviours of NodeLifecycle with Stop held back for the first StopAfter steps, so that stops land *)
(* late in the life of the node as well as early.                                                                          *)
EXTENDS MC_NodeLifecycle
CONSTANT StopAfter
SimNext == \/ Accept \/ Version \/ (\E n \in 0..2 : Headers(n)) \/ (\E g \in {"", "gate"} : Block(g)) \/ Tx
           \/ (\E k \in {"fin", "rst"} : Close(k)) \/ Release
           \/ (steps >= StopAfter /\ Stop)
SimSpec == Init /\ [][SimNext]_vars
====
