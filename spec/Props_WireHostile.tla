---- MODULE Props_WireHostile ----
(* C20 judged on what the child processes reported per case: the decoder terminated with a value or an error for every input *)
(* (no panic, not killed) and no single decode allocated out of proportion to its input (1 MiB + 256 bytes per input byte).   *)
EXTENDS Integers, Sequences, TLC, Json
Tr == ndJsonDeserialize("impl.ndjson")
F(name, X) == {<<name, i>> : i \in X}
Bad == F("NoPanic", {i \in 1..Len(Tr) : Tr[i].worst = "panic"})
  \cup F("Terminates", {i \in 1..Len(Tr) : Tr[i].worst = "killed"})
  \cup F("AllocBounded", {i \in 1..Len(Tr) : Tr[i].worst = "alloc"})
ASSUME JsonSerialize("props_result.json", [lines |-> Len(Tr), bad |-> Bad])
VARIABLE x
Init == x = 0
Next == UNCHANGED x
Spec == Init /\ [][Next]_x
====
