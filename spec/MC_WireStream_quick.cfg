SPECIFICATION MCSpec
CONSTANTS
  MaxMsgs = 3
  Lens <- Lens3
INVARIANTS Framing Clean PrefixFails
CHECK_DEADLOCK FALSE
