SPECIFICATION SimSpec
CONSTANTS
  R = 1000
  PT = {2050, 1700, 1001}
  B = 700
  MaxSteps = 18
CHECK_DEADLOCK FALSE
