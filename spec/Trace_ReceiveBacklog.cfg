SPECIFICATION TraceSpec
CONSTANTS
  MaxSteps = 100000
  MaxQ = 100000
  MaxConn = 100000
INVARIANTS Done
CHECK_DEADLOCK FALSE
