---------------------------- MODULE TxPipeline ----------------------------
(***************************************************************************)
(* Transaction tracking of spynode while in sync:                          *)
(*   spynode/transactions.go  processUnconfirmedTx  (ConsumeA, ConsumeB;   *)
(*                            split at the point after MemPool.Add-        *)
(*                            Transaction, hook utx.afterMempool)          *)
(*   spynode/blocks.go        ProcessBlock, transaction part (Block)       *)
(*   spynode/node.go          checkTxDelays (Checker)                      *)
(*   state/mempool.go         AddRequest (Inv), AddTransaction, Remove-    *)
(*                            Transaction, Conflicting                     *)
(*   storage/transactions.go, unconfirmed.go, tx.go  unconfirmed set,      *)
(*                            tx state records                             *)
(*   handlers/transaction.go, untrusted_transaction.go (Arrive)            *)
(* Properties C03, C04 (state-machine part), C05, C06, C07, C11.           *)
(*                                                                         *)
(* Tx = 1..NT; Ins[t] the outpoints t spends; Rel[t] whether t matches the *)
(* subscriptions; Blk[j] the transactions of the j-th block processed      *)
(* while in sync.  Notifications to handlers are appended to dl.           *)
(***************************************************************************)
EXTENDS Integers, Sequences, FiniteSets, TLC

CONSTANTS NT, Ins, Rel, Blk,
          Delay,        \* safe delay in clock ticks
          MaxClock, Cap, MaxArr, MaxRestart, MaxCheck,
          MaxReorg,     \* how often the top block may be orphaned
          Race,         \* TRUE: the consumer may be interleaved at the point after the mempool add (F10)
          Sources,      \* where transactions come from: subset of {"TT", "UT", "LOC", "TX", "UX", "NU", "NX"}
          Fix,          \* repaired defects assumed by the model: subset of {"reannounce", "race", "staleproof", "neverboth"}
          Mut           \* "" or a mutant

Tx == 1..NT
Outs == UNION {Ins[t] : t \in Tx}
Range(s) == {s[i] : i \in 1..Len(s)}
Remove(s, x) == SelectSeq(s, LAMBDA y : y # x)
NB == Len(Blk)

NoSt == [has |-> FALSE, safe |-> FALSE, unsafe |-> FALSE, canc |-> FALSE, proof |-> FALSE, depth |-> 0,
         pst |-> FALSE]      \* pst: the stored merkle proof is of a block that is no longer in the chain
NoUn == [in |-> FALSE, safe |-> FALSE, unsafe |-> FALSE, tr |-> FALSE, t0 |-> 0]
NoMp == [st |-> "no", tr |-> FALSE]

VARIABLES mp,        \* mempool entry per tx: st in {"no", "mark" (announced only), "body"}, tr = marked trusted
          idx,       \* mempool index: outpoint -> sequence of txs with a body spending it
          un,        \* unconfirmed repository (persistent)
          st,        \* tx state records (persistent)
          q,         \* unconfirmed tx channel
          c,         \* consumer: [pc, t, tr, safe, confl]
          nblk,      \* number of blocks processed
          clock, dl, arr, restarts, checks, aborted,
          ready,     \* the node is in sync (state.IsReady); FALSE between a reorganisation and its replacement block
          orphd,     \* the processed blocks that were orphaned, in order
          act
vars == <<mp, idx, un, st, q, c, nblk, clock, dl, arr, restarts, checks, aborted, ready, orphd, act>>

IdleC == [pc |-> "idle", t |-> 0, tr |-> FALSE, safe |-> FALSE, confl |-> <<>>]
A(a, t, s) == [a |-> a, t |-> t, s |-> s]

-----------------------------------------------------------------------------
(* state/mempool.go *)
RECURSIVE AddIdx(_, _, _)
AddIdx(ix, t, os) == IF os = {} THEN ix
                     ELSE LET o == CHOOSE x \in os : TRUE IN AddIdx([ix EXCEPT ![o] = Append(@, t)], t, os \ {o})
RECURSIVE DelIdx(_, _, _)
DelIdx(ix, t, os) == IF os = {} THEN ix
                     ELSE LET o == CHOOSE x \in os : TRUE IN DelIdx([ix EXCEPT ![o] = Remove(@, t)], t, os \ {o})
\* conflicts in the order the code finds them: per input (ascending outpoint), in index order, without duplicates
RECURSIVE ConflSeq(_, _, _)
ConflSeq(ix, os, acc) ==
  IF os = {} THEN acc
  ELSE LET o == CHOOSE x \in os : \A y \in os : x <= y
           add == SelectSeq(ix[o], LAMBDA y : y \notin Range(acc))
       IN ConflSeq(ix, os \ {o}, acc \o add)
RECURSIVE Dedup(_)
Dedup(s) == IF s = <<>> THEN <<>> ELSE <<Head(s)>> \o Dedup(SelectSeq(Tail(s), LAMBDA y : y # Head(s)))

RemoveTx(m, ix, t) ==        \* removeTransaction : <<mp', idx', hadBody>>
  IF m[t].st = "no" THEN <<m, ix, FALSE>>
  ELSE <<[m EXCEPT ![t] = NoMp], IF m[t].st = "body" THEN DelIdx(ix, t, Ins[t]) ELSE ix, m[t].st = "body">>
RECURSIVE RemoveAll(_, _, _)
RemoveAll(m, ix, ts) == IF ts = <<>> THEN <<m, ix>>
                        ELSE LET r == RemoveTx(m, ix, Head(ts)) IN RemoveAll(r[1], r[2], Tail(ts))

Note(kind, t, s) == [k |-> kind, t |-> t, safe |-> s.safe, unsafe |-> s.unsafe, canc |-> s.canc, proof |-> s.proof, depth |-> s.depth,
                     pv |-> ~(s.proof /\ s.pst)]    \* pv: the proof carried (if any) is for a block of the chain

-----------------------------------------------------------------------------
(* environment *)
Arrive(t, src) ==            \* tx message ("TT" trusted, "UT" untrusted connection; "TX"/"UX" inside an extended message) or local submit ("LOC");
                             \* "NU"/"NX": from an untrusted connection that has not been verified to be on this chain - ignored
  /\ arr < MaxArr /\ Len(q) < Cap
  /\ (src = "LOC" => ready)          \* SendTx waits (up to 25 s) for the node to be in sync before it queues the transaction
  /\ q' = IF src \in {"NU", "NX"} THEN q
          ELSE IF ready \/ src \in {"UT", "UX"} THEN Append(q, [t |-> t, tr |-> src \notin {"UT", "UX"}, safe |-> src = "LOC"])
          ELSE q       \* the trusted connection's tx handler drops transactions while the node is not in sync; an untrusted
                       \* connection looks at its own verification state (handlers/untrusted_transaction.go:36)
  /\ arr' = arr + 1 /\ act' = A("Arrive", t, src)
  /\ UNCHANGED <<mp, idx, un, st, c, nblk, clock, dl, restarts, checks, aborted, ready, orphd>>

Inv(t, src) ==               \* inventory from the trusted ("TT") or an untrusted ("UT") connection: MemPool.AddRequest
  /\ arr < MaxArr
  /\ mp' = IF src = "NU" THEN mp       \* inventories of an unverified untrusted connection are ignored
           ELSE IF ready \/ src = "UT" THEN [mp EXCEPT ![t] = [st |-> IF @.st = "no" THEN "mark" ELSE @.st, tr |-> @.tr \/ src = "TT"]]
           ELSE mp      \* the trusted connection's inventories are ignored while the node is not in sync (an untrusted connection
                        \* looks at its own verification state: handlers/untrusted_inventory.go:40)
  /\ arr' = arr + 1 /\ act' = A("Inv", t, src)
  /\ UNCHANGED <<idx, un, st, q, c, nblk, clock, dl, restarts, checks, aborted, ready, orphd>>

Tick == /\ clock < MaxClock /\ clock' = clock + 1 /\ act' = A("Tick", 0, "")
        /\ UNCHANGED <<mp, idx, un, st, q, c, nblk, dl, arr, restarts, checks, aborted, ready, orphd>>

-----------------------------------------------------------------------------
(* spynode/transactions.go:28 processUnconfirmedTx *)
ConsumeA ==   \* take from the channel; MemPool.AddTransaction; (hook utx.afterMempool)
  /\ c.pc = "idle" /\ q # <<>> /\ ~aborted
  /\ q' = Tail(q)
  /\ LET x == Head(q) IN
     IF mp[x.t].st = "body"
     THEN /\ mp' = [mp EXCEPT ![x.t].tr = @ \/ x.tr] /\ c' = IdleC /\ UNCHANGED idx      \* already saw this tx
     ELSE /\ mp' = [mp EXCEPT ![x.t] = [st |-> "body", tr |-> @.tr \/ x.tr]]
          /\ idx' = AddIdx(idx, x.t, Ins[x.t])
          /\ c' = [pc |-> "mid", t |-> x.t, tr |-> x.tr, safe |-> x.safe, confl |-> ConflSeq(idx, Ins[x.t], <<>>)]
  /\ act' = A("ConsumeA", Head(q).t, "")
  /\ UNCHANGED <<un, st, nblk, clock, dl, arr, restarts, checks, aborted, ready, orphd>>

\* conflict notifications: for each conflicting tx that is tracked as relevant (transactions.go:53)
RECURSIVE ConflFold(_, _, _, _)
ConflFold(u, s, d, cs) ==      \* returns [un, st, dl]
  IF cs = <<>> THEN [un |-> u, st |-> s, dl |-> d]
  ELSE LET x == Head(cs) IN
       IF ~u[x].in THEN ConflFold(u, s, d, Tail(cs))                        \* MarkUnsafe: not relevant
       ELSE LET u2 == [u EXCEPT ![x].unsafe = TRUE] IN
            IF ~s[x].has THEN ConflFold(u2, s, d, Tail(cs))
            ELSE LET sx == [s[x] EXCEPT !.unsafe = TRUE, !.safe = FALSE] IN
                 ConflFold(u2, [s EXCEPT ![x] = sx], Append(d, Note("upd", x, sx)), Tail(cs))

ConsumeB ==   \* conflicts; relevance; TxRepository.Add; tx state; HandleTx
  /\ c.pc = "mid"
  /\ LET f == ConflFold(un, st, dl, c.confl)
         t == c.t
     IN IF ~Rel[t]
        THEN /\ un' = [f.un EXCEPT ![t] = NoUn] /\ st' = f.st /\ dl' = f.dl
        ELSE IF f.un[t].in
        THEN /\ un' = [f.un EXCEPT ![t].tr = @ \/ c.tr, ![t].safe = @ \/ c.safe]
             /\ st' = f.st /\ dl' = f.dl                                      \* "Tx already added"
        ELSE IF "reannounce" \in Fix /\ f.st[t].has /\ f.st[t].proof /\ ~f.st[t].pst
        THEN /\ un' = f.un /\ st' = f.st /\ dl' = f.dl                        \* already confirmed on the current chain
        ELSE LET sx == IF f.st[t].has THEN f.st[t] ELSE [NoSt EXCEPT !.has = TRUE]
                 \* a proof of an orphaned block: the code as it was keeps it in the record it delivers (F31)
                 s0 == IF "staleproof" \in Fix /\ sx.proof /\ sx.pst THEN [sx EXCEPT !.proof = FALSE, !.pst = FALSE] ELSE sx
                 \* a stored record that is already unsafe: the code as it was sets safe from the channel item alone (F35)
                 s1 == [s0 EXCEPT !.safe = IF "neverboth" \in Fix THEN c.safe /\ ~s0.unsafe ELSE c.safe,
                                  !.depth = IF @ = 0 /\ ~s0.proof THEN 1 ELSE @]
                 s2 == IF c.confl # <<>> THEN [s1 EXCEPT !.unsafe = TRUE, !.safe = FALSE] ELSE s1
             IN /\ un' = [f.un EXCEPT ![t] = [in |-> TRUE, safe |-> c.safe, unsafe |-> FALSE, tr |-> c.tr, t0 |-> clock]]
                /\ st' = [f.st EXCEPT ![t] = s2]
                /\ dl' = Append(f.dl, Note("new", t, s2))
  /\ c' = IdleC /\ act' = A("ConsumeB", c.t, "")
  /\ UNCHANGED <<mp, idx, q, nblk, clock, arr, restarts, checks, aborted, ready, orphd>>

-----------------------------------------------------------------------------
(* spynode/blocks.go:198 ProcessBlock, transaction part; the node is in sync *)
\* one transaction of the block: s = [mp, idx, snap (unconfirmed list), un, st, dl, rel (relevant txs of the block)]
BTx(s, t) ==
  LET inUn == t \in s.snap
      r == IF ready THEN RemoveTx(s.mp, s.idx, t)                      \* RemoveTransaction (blocks.go:288), only while in sync
           ELSE <<s.mp, s.idx, FALSE>>
      cf == ConflSeq(r[2], Ins[t], <<>>)                               \* MemPool.Conflicting (evicts), for every tx of the block
      ev == RemoveAll(r[1], r[2], cf)
      snap2 == s.snap \ {t}
      hit == SelectSeq(cf, LAMBDA x : x \in snap2)
      RECURSIVE Canc(_, _, _)
      Canc(sts, d, hs) == IF hs = <<>> THEN <<sts, d>>
                          ELSE LET x == Head(hs)
                                   sx == [sts[x] EXCEPT !.unsafe = TRUE, !.canc = TRUE, !.safe = FALSE]
                               IN IF ~sts[x].has THEN Canc(sts, d, Tail(hs))
                                  ELSE Canc([sts EXCEPT ![x] = sx], Append(d, Note("upd", x, sx)), Tail(hs))
      cn == Canc(s.st, s.dl, hit)
      s1 == [s EXCEPT !.mp = ev[1], !.idx = ev[2], !.st = cn[1], !.dl = cn[2], !.snap = snap2]
  IN IF inUn THEN [s1 EXCEPT !.rel = Append(@, [t |-> t, new |-> FALSE, safe |-> TRUE])]
     ELSE IF r[3] THEN s1                                              \* seen before, not relevant
     ELSE IF Rel[t] THEN [s1 EXCEPT !.rel = Append(@, [t |-> t, new |-> TRUE, safe |-> cf = <<>>])]
     ELSE s1
RECURSIVE BFold(_, _)
BFold(s, ts) == IF ts = <<>> THEN s ELSE BFold(BTx(s, Head(ts)), Tail(ts))

\* notifications with proofs for the relevant transactions of the block
RECURSIVE BNotify(_, _, _)
BNotify(sts, d, rel) ==
  IF rel = <<>> THEN <<sts, d>>
  ELSE LET e == Head(rel) IN
       IF e.new
       THEN LET s == [has |-> TRUE, safe |-> e.safe, unsafe |-> ~e.safe, canc |-> FALSE, proof |-> TRUE, depth |-> 0, pst |-> FALSE]
            IN BNotify([sts EXCEPT ![e.t] = s], Append(d, Note("new", e.t, s)), Tail(rel))
       ELSE LET s0 == [sts[e.t] EXCEPT !.proof = TRUE, !.depth = 0, !.pst = FALSE]
                s == IF ~s0.unsafe /\ e.safe THEN [s0 EXCEPT !.safe = TRUE, !.unsafe = FALSE]
                     ELSE [s0 EXCEPT !.safe = FALSE, !.unsafe = TRUE]
            IN BNotify([sts EXCEPT ![e.t] = s], Append(d, Note("upd", e.t, s)), Tail(rel))

Block ==
  /\ nblk < NB /\ ~aborted
  /\ \A k \in 1..nblk : k \in Range(orphd) \/ Range(Blk[k]) \cap Range(Blk[nblk + 1]) = {}    \* a chain confirms a transaction once
  /\ LET j == nblk + 1
         snap == {t \in Tx : un[t].in}
         s0 == [mp |-> mp, idx |-> idx, snap |-> snap, st |-> st, dl |-> dl, rel |-> <<>>]
         s == BFold(s0, Blk[j])
         n == BNotify(s.st, s.dl, s.rel)
     IN /\ mp' = s.mp /\ idx' = s.idx /\ st' = n[1] /\ dl' = n[2]
        /\ un' = [t \in Tx |-> IF t \in s.snap THEN un[t] ELSE NoUn]       \* FinalizeUnconfirmed
  /\ nblk' = nblk + 1 /\ act' = A("Block", nblk + 1, "")
  /\ ready' = TRUE                                  \* the replacement block of a reorganisation brings the node back in sync
  /\ UNCHANGED <<q, c, clock, arr, restarts, checks, aborted, orphd>>

\* handlers/headers.go:165 : a competing header orphans the top block (txs.RemoveBlock, blocks.Revert); the tx state records
\* keep their merkle proofs; the node is out of sync until the replacement block (the next of Blk) has been processed.
Chain == SelectSeq([j \in 1..nblk |-> j], LAMBDA j : j \notin Range(orphd))
Reorg ==
  /\ Len(orphd) < MaxReorg /\ ready /\ ~aborted /\ nblk < NB /\ Chain # <<>>
  /\ LET top == Chain[Len(Chain)] IN
     /\ st' = [t \in Tx |-> IF t \in Range(Blk[top]) /\ st[t].has /\ st[t].proof THEN [st[t] EXCEPT !.pst = TRUE] ELSE st[t]]
     /\ orphd' = Append(orphd, top) /\ act' = A("Reorg", top, "")
  /\ ready' = FALSE
  /\ UNCHANGED <<mp, idx, un, q, c, nblk, clock, dl, arr, restarts, checks, aborted>>

-----------------------------------------------------------------------------
(* spynode/node.go:973 checkTxDelays: one iteration *)
RECURSIVE KFold(_, _, _)
KFold(sts, d, ts) ==
  IF ts = {} THEN <<sts, d>>
  ELSE LET x == CHOOSE y \in ts : \A z \in ts : y <= z IN
       IF ~sts[x].has \/ sts[x].unsafe \/ sts[x].canc THEN KFold(sts, d, ts \ {x})
       ELSE LET s == [sts[x] EXCEPT !.safe = TRUE] IN
            KFold([sts EXCEPT ![x] = s], Append(d, Note("upd", x, s)), ts \ {x})

NewSafe == {t \in Tx : un[t].in /\ ~un[t].safe /\ ~un[t].unsafe /\ un[t].t0 + Delay < clock /\ (un[t].tr \/ mp[t].tr)}
Checker ==
  /\ checks < MaxCheck /\ c.pc = "idle" /\ ~aborted /\ ready
  /\ LET ns == NewSafe  k == KFold(st, dl, ns) IN
     /\ un' = [t \in Tx |-> IF t \in ns THEN [un[t] EXCEPT !.safe = TRUE] ELSE un[t]]
     /\ st' = k[1] /\ dl' = k[2]
  /\ checks' = checks + 1 /\ act' = A("Checker", 0, "")
  /\ UNCHANGED <<mp, idx, q, c, nblk, clock, arr, restarts, aborted, ready, orphd>>

Restart ==   \* clean stop / start : the mempool is lost, the unconfirmed set and the tx states persist
  /\ restarts < MaxRestart /\ c.pc = "idle" /\ q = <<>> /\ ready
  /\ mp' = [t \in Tx |-> NoMp] /\ idx' = [o \in Outs |-> <<>>]
  /\ restarts' = restarts + 1 /\ act' = A("Restart", 0, "")
  /\ UNCHANGED <<un, st, q, c, nblk, clock, dl, arr, checks, aborted, ready, orphd>>

Init ==
  /\ mp = [t \in Tx |-> NoMp] /\ idx = [o \in Outs |-> <<>>] /\ un = [t \in Tx |-> NoUn]
  /\ st = [t \in Tx |-> NoSt] /\ q = <<>> /\ c = IdleC /\ nblk = 0
  /\ clock = 0 /\ dl = <<>> /\ arr = 0 /\ restarts = 0 /\ checks = 0 /\ aborted = FALSE /\ ready = TRUE /\ orphd = <<>>
  /\ act = A("init", 0, "")

Next ==
  \/ \E t \in Tx, s \in Sources : Arrive(t, s)
  \/ \E t \in Tx, s \in {"TT", "UT"} \cup (Sources \cap {"NU"}) : Inv(t, s)
  \/ Tick \/ ConsumeA \/ ConsumeB \/ Checker \/ Restart
  \/ (Race \/ c.pc = "idle") /\ Block
  \/ (Race \/ c.pc = "idle") /\ Reorg

\* C07 (the basis of a safe report is not lost): the trusted mark of a mempool entry stays while the entry exists within one process
TrustStickyP(m1, m2, a) == \A t \in Tx : (m1[t].tr /\ m2[t].st # "no" /\ a # "Restart") => m2[t].tr
TrustSticky == [][TrustStickyP(mp, mp', act'.a)]_vars
Spec == Init /\ [][Next]_vars

-----------------------------------------------------------------------------
(* properties over the delivered history d (and, where needed, the state) *)
News(d, t) == {i \in 1..Len(d) : d[i].k = "new" /\ d[i].t = t}
Proofs(d, t) == {i \in 1..Len(d) : d[i].t = t /\ d[i].proof}
Orphanings(o, t) == Cardinality({i \in 1..Len(o) : t \in Range(Blk[o[i]])})
AtMostOnceNewP(d, o) == \A t \in Tx : Cardinality(News(d, t)) <= 1 + Orphanings(o, t)       \* C03 (again as new only after its block was orphaned)
ProofValidP(d) == \A i \in 1..Len(d) : d[i].pv                                              \* C04
NoIrrelevantP(d) == \A i \in 1..Len(d) : Rel[d[i].t]                                         \* C03
NeverBothP(d) == \A i \in 1..Len(d) : ~(d[i].safe /\ d[i].unsafe)                            \* C07
CancImpliesUnsafeP(d) == \A i \in 1..Len(d) : d[i].canc => d[i].unsafe                       \* C07
StickyUnsafeP(d) == \A i, j \in 1..Len(d) :                                                  \* C07 (a re-delivery as new, possible only
                      (i < j /\ d[i].t = d[j].t /\ (d[i].unsafe \/ d[i].canc)                    \* after an orphaning, starts a new record)
                         /\ \A k \in (i+1)..j : ~(d[k].t = d[i].t /\ d[k].k = "new")) => ~d[j].safe
SafeOnceP(d) == \A t \in Tx : Cardinality({i \in 1..Len(d) : d[i].t = t /\ d[i].k = "upd" /\ d[i].safe /\ ~d[i].proof
                                            /\ \A j \in 1..(i-1) : d[j].t = t => ~d[j].safe}) <= 1   \* C07: first safe report once
ProofDepthP(d) == \A i \in 1..Len(d) : d[i].proof => d[i].depth = 0                          \* C04

AtMostOnceNew == AtMostOnceNewP(dl, orphd)
ProofValid == ProofValidP(dl)
NoIrrelevant == NoIrrelevantP(dl)
NeverBoth == NeverBothP(dl)
CancImpliesUnsafe == CancImpliesUnsafeP(dl)
StickyUnsafe == StickyUnsafeP(dl)
ProofDepth == ProofDepthP(dl)

\* state-dependent (evaluated on the model state; on traces after the trace has been matched up to that line)
IndexExact == \A o \in Outs : Range(idx[o]) = {t \in Tx : mp[t].st = "body" /\ o \in Ins[t]}   \* C05 (anchor invariant)
Quiet == c.pc = "idle" /\ q = <<>>
ConflictsFlagged ==                                                                          \* C05 (no restart in between: the mempool is not persistent)
  (Quiet /\ restarts = 0) => \A t1, t2 \in Tx : (t1 # t2 /\ Rel[t1] /\ mp[t1].st = "body" /\ mp[t2].st = "body"
                               /\ Ins[t1] \cap Ins[t2] # {} /\ st[t1].has /\ ~st[t1].proof /\ ~st[t2].proof)
              => (st[t1].unsafe /\ \E i \in 1..Len(dl) : dl[i].t = t1 /\ dl[i].unsafe)
NoFalseFlag ==                                                                               \* C05
  \A t \in Tx : (st[t].has /\ st[t].unsafe) => \E t2 \in Tx : t2 # t /\ Ins[t] \cap Ins[t2] # {}
ConfirmedHasProof ==                                                                         \* C04 / C03
  Quiet => \A j \in 1..nblk : \A i \in 1..Len(Blk[j]) :
             LET t == Blk[j][i] IN Rel[t] => Proofs(dl, t) # {}
Complete ==                                                                                  \* C03
  Quiet => \A t \in Tx : (Rel[t] /\ (mp[t].st = "body" \/ \E j \in 1..nblk : t \in Range(Blk[j]))) => News(dl, t) # {}
CancelOnConfirm ==                                                                           \* C06
  \A j \in 1..nblk : \A i \in 1..Len(Blk[j]) : \A t1 \in Tx :
     LET t2 == Blk[j][i] IN
     (j \notin Range(orphd) /\ t1 # t2 /\ Ins[t1] \cap Ins[t2] # {} /\ st[t1].has /\ ~st[t1].proof /\ un[t1].in)
        => (st[t1].canc /\ st[t1].unsafe /\ ~st[t1].safe /\ mp[t1].st # "body")
SafeWarranted ==                                                                             \* C07
  \A i \in 1..Len(dl) : (dl[i].safe /\ ~dl[i].proof /\ dl[i].k = "upd") =>
       LET t == dl[i].t IN un[t].in => (un[t].tr \/ mp[t].tr \/ un[t].safe)
=============================================================================
