---- MODULE Trace_BlockRequests ----
(* Strict trace specification: every recorded line of an implementation trace must be *)
(* the step the BlockRequests module takes for the same call, with the same return    *)
(* value and the same resulting state.  Several traces are concatenated; each starts  *)
(* with a "reset" line.  A line that is not a step of the module is recorded in `rej`  *)
(* and validation resumes at the next trace.                                           *)
EXTENDS MC_BlockRequests, Json

Tr == ndJsonDeserialize("impl.ndjson")
VARIABLES l, rej
tvars == <<vars, l, rej>>

ActOf(i) == Act(Tr[i].a, Tr[i].b, Tr[i].sz, Tr[i].rs, Tr[i].ri)
Logged(i) == /\ req' = Tr[i].st.req /\ toReq' = Tr[i].st.toReq /\ pend' = Tr[i].st.pend
             /\ lastSaved' = Tr[i].st.lastSaved

Step(e) == CASE e.a = "AddBlockRequest" -> AddBlockRequest(e.b)
             [] e.a = "AddBlock"        -> AddBlock(e.b, e.sz)
             [] e.a = "NextBlock"       -> NextBlock
             [] e.a = "GetNext"         -> GetNext
             [] e.a = "ClearAll"        -> ClearAll
             [] e.a = "ClearAfter"      -> ClearAfter(e.b)
             [] e.a = "SetLastHash"     -> SetLastHash(e.b)
             [] e.a = "Reset"           -> Reset
             [] OTHER                   -> FALSE

Match == /\ l < Len(Tr) /\ Tr[l+1].a # "reset"
         /\ Step(Tr[l+1]) /\ act' = ActOf(l+1) /\ Logged(l+1)
         /\ l' = l + 1 /\ UNCHANGED rej

Start(i) == /\ req' = <<>> /\ toReq' = <<>> /\ pend' = 0 /\ lastSaved' = 0 /\ act' = Act("reset", 0, 0, "", 0)
            /\ Logged(i) /\ l' = i

Begin == l < Len(Tr) /\ Tr[l+1].a = "reset" /\ Start(l+1) /\ UNCHANGED rej

NextReset(i) == IF \E j \in i..Len(Tr) : Tr[j].a = "reset"
                THEN CHOOSE j \in i..Len(Tr) : Tr[j].a = "reset" /\ \A k \in i..(j-1) : Tr[k].a # "reset"
                ELSE 0

Resync == /\ l < Len(Tr) /\ Tr[l+1].a # "reset" /\ ~ENABLED Match
          /\ rej' = Append(rej, l + 1)
          /\ LET j == NextReset(l + 1) IN
             IF j = 0 THEN l' = Len(Tr) /\ UNCHANGED vars ELSE Start(j)

TraceInit == Init /\ l = 0 /\ rej = <<>>
TraceNext == Begin \/ Match \/ Resync
TraceSpec == TraceInit /\ [][TraceNext]_tvars

Done == (l = Len(Tr)) => JsonSerialize("trace_result.json", [lines |-> Len(Tr), rej |-> rej])
====
