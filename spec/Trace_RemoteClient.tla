---- MODULE Trace_RemoteClient ----
(* Strict trace validation for RemoteClient: after every scenario step the observations of the real client and of the  *)
(* scripted service (accepted flag, handshake, next message id, call results, what the service received, what the      *)
(* handlers received, state of Run) must be what the specification computes.                                           *)
EXTENDS MC_RemoteClient, Json
Keys3 == {1, 2, 3}
Tr == ndJsonDeserialize("impl.ndjson")
VARIABLES l, rej
tvars == <<vars, l, rej>>
Same(i) == LET s == Tr[i].st IN
  /\ ep' = s.ep /\ acc' = s.acc /\ hs' = s.hs /\ nextId' = s.nextId
  /\ calls' = [k \in Slots |-> s.calls[k + 1]]
  /\ srv' = s.srv /\ deliv' = s.deliv /\ run' = s.run
Step1(e) == CASE e.a = "Accept" -> Accept(e.kind) [] e.a = "Ready" -> Ready(e.k) [] e.a = "Call" -> Call(e.k, e.kind, e.key)
              [] e.a = "Respond" -> Respond(e.k, e.kind)
              [] e.a = "RespondStale" -> \E i \in 1..Len(stale) : stale[i].kind = e.kind /\ stale[i].key = e.key /\ RespondStale(i, IF e.k = 0 THEN "ok" ELSE "reject") [] e.a = "Timeout" -> TimeoutAll [] e.a = "Notify" -> Notify(e.kind, e.k)
              [] e.a = "Subscribe" -> Subscribe(e.kind)
              [] e.a = "Burst" -> Burst(e.k) [] e.a = "ReadyRace" -> ReadyRace(e.k) [] e.a = "CallBig" -> CallBig(e.k, e.key)
              [] e.a = "Drop" -> Drop [] e.a = "Stop" -> Stop [] OTHER -> FALSE
TMatch == /\ l < Len(Tr) /\ Tr[l+1].act.a # "init" /\ Tr[l+1].skip = ""
         /\ Step1(Tr[l+1].act) /\ Same(l+1) /\ l' = l + 1 /\ UNCHANGED rej
TStart(i) == /\ ep' = 1 /\ acc' = FALSE /\ hs' = FALSE /\ nextId' = 1 /\ calls' = [k \in Slots |-> Idle] /\ sent' = [k \in Slots |-> FALSE]
             /\ order' = <<>> /\ queue' = <<>> /\ stale' = <<>> /\ srv' = <<>> /\ deliv' = <<>> /\ run' = "running" /\ steps' = 0 /\ had' = FALSE /\ carry' = NoCarry /\ act' = A("init", 0, "", 0) /\ l' = i
Begin == l < Len(Tr) /\ Tr[l+1].act.a = "init" /\ TStart(l+1) /\ UNCHANGED rej
NextInit(i) == IF \E j \in i..Len(Tr) : Tr[j].act.a = "init"
               THEN CHOOSE j \in i..Len(Tr) : Tr[j].act.a = "init" /\ \A k \in i..(j-1) : Tr[k].act.a # "init" ELSE 0
Resync == /\ l < Len(Tr) /\ Tr[l+1].act.a # "init" /\ ~ENABLED TMatch /\ rej' = Append(rej, l + 1)
          /\ LET j == NextInit(l + 1) IN IF j = 0 THEN l' = Len(Tr) /\ UNCHANGED vars ELSE TStart(j)
TraceSpec == Init /\ l = 0 /\ rej = <<>> /\ [][Begin \/ TMatch \/ Resync]_tvars
Done == (l = Len(Tr)) => JsonSerialize("trace_result.json", [lines |-> Len(Tr), rej |-> rej])
====
