---- MODULE MC_BlockRefeed ----
EXTENDS BlockRefeed
NoFix == {}
AllFix == {"clearheld"}
View == <<next, want, requested, held, out, net, provided, stray, refeeds, steps>>
====
