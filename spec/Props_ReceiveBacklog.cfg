SPECIFICATION PSpec
CONSTANTS
  MaxSteps = 100000
  MaxQ = 100000
  MaxConn = 100000
CHECK_DEADLOCK FALSE
