---- MODULE Trace_TxRequests ----
(* Strict trace validation for TxRequests. *)
EXTENDS MC_TxRequests, Json
Tr == ndJsonDeserialize("impl.ndjson")
VARIABLES l, rej
tvars == <<vars, l, rej>>
Same(i) == LET s == Tr[i].st IN
  /\ body' = [t \in Tx |-> s.body[t]] /\ reqAt' = [t \in Tx |-> s.reqAt[t]]
  /\ trk' = [c \in Conn |-> {s.trk[c + 1][k] : k \in 1..Len(s.trk[c + 1])}]
  /\ clock' = s.clock
  /\ Len(asked') = Len(s.asked)
  /\ {asked'[k] : k \in 1..Len(asked')} = {s.asked[k] : k \in 1..Len(s.asked)}
Step(e) == CASE e.a = "Inv" -> Inv(e.c, e.t) [] e.a = "Body" -> Body(e.t) [] e.a = "Check" -> Check(e.c)
             [] e.a = "Confirm" -> Confirm(e.t) [] e.a = "ConfirmOos" -> ConfirmOos(e.t) [] e.a = "Tick" -> Tick [] OTHER -> FALSE
Match == /\ l < Len(Tr) /\ Tr[l+1].act.a # "init" /\ Tr[l+1].skip = ""
         /\ Step(Tr[l+1].act) /\ Same(l+1) /\ l' = l + 1 /\ UNCHANGED rej
TStart(i) == /\ body' = [t \in Tx |-> FALSE] /\ reqAt' = [t \in Tx |-> -1] /\ trk' = [c \in Conn |-> {}]
             /\ clock' = 0 /\ ops' = 0 /\ asked' = <<>> /\ forgot' = [t \in Tx |-> {}] /\ act' = A("init", 0, 0) /\ l' = i
Begin == l < Len(Tr) /\ Tr[l+1].act.a = "init" /\ TStart(l+1) /\ UNCHANGED rej
NextInit(i) == IF \E j \in i..Len(Tr) : Tr[j].act.a = "init"
               THEN CHOOSE j \in i..Len(Tr) : Tr[j].act.a = "init" /\ \A k \in i..(j-1) : Tr[k].act.a # "init" ELSE 0
Resync == /\ l < Len(Tr) /\ Tr[l+1].act.a # "init" /\ ~ENABLED Match /\ rej' = Append(rej, l + 1)
          /\ LET j == NextInit(l + 1) IN IF j = 0 THEN l' = Len(Tr) /\ UNCHANGED vars ELSE TStart(j)
TraceSpec == Init /\ l = 0 /\ rej = <<>> /\ [][Begin \/ Match \/ Resync]_tvars
Done == (l = Len(Tr)) => JsonSerialize("trace_result.json", [lines |-> Len(Tr), rej |-> rej])
====
