---- MODULE Trace_HandlerQueue ----
EXTENDS MC_HandlerQueue, Json
Tr == ndJsonDeserialize("impl.ndjson")
VARIABLES l, rej
tvars == <<vars, l, rej>>
Same(i) == LET s == Tr[i].st IN
  /\ ep' = s.ep /\ acc' = s.acc /\ nextId' = s.nextId /\ held' = s.held /\ Len(hq') = s.hq /\ sent' = s.sent
  /\ deliv' = [j \in 1..Len(s.deliv) |-> Item(s.deliv[j].k, s.deliv[j].id, s.deliv[j].n)]
Step1(e) == CASE e.a = "Accept" -> Accept [] e.a = "Ready" -> Ready(e.k) [] e.a = "Notify" -> Notify(e.kind, e.k)
              [] e.a = "Hold" -> Hold [] e.a = "Release" -> Release [] e.a = "Drop" -> Drop [] OTHER -> FALSE
TMatch == /\ l < Len(Tr) /\ Tr[l+1].act.a # "init" /\ Tr[l+1].skip = ""
          /\ Step1(Tr[l+1].act) /\ Same(l+1) /\ l' = l + 1 /\ UNCHANGED rej
TStart(i) == /\ ep' = 1 /\ acc' = FALSE /\ nextId' = 1 /\ held' = "no" /\ hq' = <<>> /\ deliv' = <<>> /\ sent' = 0 /\ steps' = 0
             /\ act' = A("init", 0, "") /\ l' = i
Begin == l < Len(Tr) /\ Tr[l+1].act.a = "init" /\ TStart(l+1) /\ UNCHANGED rej
NextInit(i) == IF \E j \in i..Len(Tr) : Tr[j].act.a = "init"
               THEN CHOOSE j \in i..Len(Tr) : Tr[j].act.a = "init" /\ \A k \in i..(j-1) : Tr[k].act.a # "init" ELSE 0
Resync == /\ l < Len(Tr) /\ Tr[l+1].act.a # "init" /\ ~ENABLED TMatch /\ rej' = Append(rej, l + 1)
          /\ LET j == NextInit(l + 1) IN IF j = 0 THEN l' = Len(Tr) /\ UNCHANGED vars ELSE TStart(j)
TraceSpec == Init /\ l = 0 /\ rej = <<>> /\ [][Begin \/ TMatch \/ Resync]_tvars
Done == (l = Len(Tr)) => JsonSerialize("trace_result.json", [lines |-> Len(Tr), rej |-> rej])
====
