---- MODULE Trace_UntrustedPeer ----
(* Strict trace validation for UntrustedPeer: every recorded step of the replay driver must be the specification's step and the  *)
(* projected state of the real connection (flags, score, peer repository, what was queued for the peer, pending broadcasts, tx    *)
(* channel, requested / tracked txids) must be the state the specification computes.                                             *)
EXTENDS MC_UntrustedPeer, Json
Tr == ndJsonDeserialize("impl.ndjson")
VARIABLES l, rej
tvars == <<vars, l, rej>>
SetOf(s) == {s[i] : i \in 1..Len(s)}
Same(i) == LET s == Tr[i].st IN
  /\ ver' = s.ver /\ hsk' = s.hsk /\ hreq' = s.hreq /\ verified' = s.verified /\ scored' = s.scored /\ addrReq' = s.addrReq /\ mpReq' = s.mpReq
  /\ stopping' = s.stopping /\ score' = s.score /\ known' = SetOf(s.known) /\ out' = s.out /\ pend' = s.pend /\ chan' = s.chan
  /\ asked' = SetOf(s.asked) /\ tracked' = SetOf(s.tracked)
  /\ (~s.stopping => pc' = s.pc)
Step1(e) == CASE e.a = "Check" -> Check
              [] e.a = "Recv" /\ e.m.t = "version" -> RecvVersion
              [] e.a = "Recv" /\ e.m.t = "headers" -> RecvHeaders(e.m.x)
              [] e.a = "Recv" /\ e.m.t = "inv" -> RecvInv(e.m.x)
              [] e.a = "Recv" /\ e.m.t = "tx" -> RecvTx(e.m.x)
              [] e.a = "Recv" /\ e.m.t = "addr" -> RecvAddr(e.m.x)
              [] e.a = "Recv" /\ e.m.t = "ping" -> RecvPing
              [] e.a = "Recv" /\ e.m.t = "block" -> RecvBlock
              [] e.a = "Recv" /\ e.m.t = "unknown" -> RecvUnknown
              [] e.a = "Recv" /\ e.m.t = "garbage" -> RecvGarbage
              [] e.a = "Broadcast" -> Broadcast(e.m.x)
              [] e.a = "Expire" -> Expire
              [] e.a = "Stop" -> Stop
              [] OTHER -> FALSE
TMatch == /\ l < Len(Tr) /\ Tr[l+1].act.a # "init" /\ Tr[l+1].skip = ""
          /\ Step1(Tr[l+1].act) /\ Same(l+1) /\ l' = l + 1 /\ UNCHANGED rej
TStart(i) == /\ ver' = FALSE /\ hsk' = FALSE /\ hreq' = FALSE /\ verified' = FALSE /\ scored' = FALSE /\ addrReq' = FALSE /\ mpReq' = FALSE
             /\ stopping' = FALSE /\ score' = 0 /\ known' = {} /\ out' = <<>> /\ pend' = <<>> /\ chan' = <<>> /\ asked' = {} /\ tracked' = {}
             /\ pc' = "top" /\ steps' = 0 /\ act' = A("init", NoMsg) /\ l' = i
Begin == l < Len(Tr) /\ Tr[l+1].act.a = "init" /\ TStart(l+1) /\ UNCHANGED rej
NextInit(i) == IF \E j \in i..Len(Tr) : Tr[j].act.a = "init"
               THEN CHOOSE j \in i..Len(Tr) : Tr[j].act.a = "init" /\ \A k \in i..(j-1) : Tr[k].act.a # "init" ELSE 0
Resync == /\ l < Len(Tr) /\ Tr[l+1].act.a # "init" /\ ~ENABLED TMatch /\ rej' = Append(rej, l + 1)
          /\ LET j == NextInit(l + 1) IN IF j = 0 THEN l' = Len(Tr) /\ UNCHANGED vars ELSE TStart(j)
TraceSpec == Init /\ l = 0 /\ rej = <<>> /\ [][Begin \/ TMatch \/ Resync]_tvars
Done == (l = Len(Tr)) => JsonSerialize("trace_result.json", [lines |-> Len(Tr), rej |-> rej])
====
