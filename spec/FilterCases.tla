---- MODULE FilterCases ----
(***************************************************************************)
(* C08: the subscription filter (spynode/transactions.go IsRelevant,       *)
(* node.go Subscribe/UnsubscribePushDatas, Subscribe/UnsubscribeContracts) *)
(* as a declarative specification, enumerated by TLC into cases with their *)
(* expected verdict.                                                       *)
(* A script is a sequence of tokens:                                       *)
(*   <<"push", d>>  a complete data push of datum d                        *)
(*   <<"small", n>> OP_1..OP_16 / OP_1NEGATE (pushes one byte)             *)
(*   <<"op", "-">>  a non-push opcode                                      *)
(*   <<"trunc","-">> a push whose declared length exceeds what follows     *)
(*   <<"cut", "-">>  a PUSHDATA opcode whose length bytes are cut off      *)
(* A malformed token can only be the tail: a truncated push swallows what  *)
(* follows.  Data: A, B subscribable raw data (33 and 300 bytes), HA, HB   *)
(* their 20-byte hashes pushed directly, x other data, e the empty push.   *)
(* The subscription state is a bag of hashes; Sub/Unsub take raw data or   *)
(* the 20-byte hash.                                                       *)
(***************************************************************************)
EXTENDS Integers, Sequences, FiniteSets, TLC, Json, SequencesExt
CONSTANT MaxLen, MaxWord

Data == {"A", "B", "HA", "HB", "x", "e"}
Ident(d) == IF d \in {"A", "HA"} THEN "HA" ELSE IF d \in {"B", "HB"} THEN "HB" ELSE "none"
Good == ({"push"} \X Data) \cup {<<"small", "1">>, <<"small", "neg">>, <<"op", "-">>}
Tails == {<<"trunc", "-">>, <<"cut", "-">>}
Scripts == UNION {[1..k -> Good] : k \in 0..MaxLen}
      \cup UNION {{Append(s, t) : s \in [1..k -> Good], t \in Tails} : k \in 0..(MaxLen - 1)}

RECURSIVE Idents(_)
Idents(s) == IF s = <<>> THEN {}
             ELSE IF Head(s)[1] \in {"trunc", "cut"} THEN {}
             ELSE (IF Head(s)[1] = "push" THEN {Ident(Head(s)[2])} ELSE {}) \cup Idents(Tail(s))

Ops == {"SubRawA", "SubHashA", "UnsubRawA", "UnsubHashA", "SubRawB", "UnsubHashB",
        "SubAB", "UnsubAB", "UnsubBA"}         \* one call with two values (A and B), in that order
Words == UNION {[1..k -> Ops] : k \in 0..MaxWord}
Targets(op) == IF op \in {"SubRawA", "SubHashA", "UnsubRawA", "UnsubHashA"} THEN {"HA"}
               ELSE IF op \in {"SubRawB", "UnsubHashB"} THEN {"HB"} ELSE {"HA", "HB"}
IsSub(op) == op \in {"SubRawA", "SubHashA", "SubRawB", "SubAB"}
RECURSIVE BagAfter(_, _)
BagAfter(w, bag) ==       \* bag : [{"HA","HB"} -> Nat] ; a call adds / removes one occurrence of each of its values
  IF w = <<>> THEN bag
  ELSE BagAfter(Tail(w), [h \in {"HA", "HB"} |->
                           IF h \notin Targets(Head(w)) THEN bag[h]
                           ELSE IF IsSub(Head(w)) THEN bag[h] + 1 ELSE (IF bag[h] > 0 THEN bag[h] - 1 ELSE 0)])
Subs(w) == {h \in {"HA", "HB"} : BagAfter(w, [x \in {"HA", "HB"} |-> 0])[h] > 0}

Actions == {"none", "CF", "IC", "other"}
Relevant(s, w, c, a) == (Idents(s) \cap Subs(w) # {}) \/ (c /\ a \in {"CF", "IC"})

\* the enumerated cases: every script with a handful of subscription words, and every word with a handful of scripts
WordsFew == {<<>>, <<"SubRawA">>, <<"SubHashA">>, <<"SubRawA", "UnsubHashA">>, <<"SubRawA", "SubHashA", "UnsubRawA">>, <<"SubRawB">>}
ScriptsFew == {<<>>, << <<"push", "A">> >>, << <<"push", "HA">> >>, << <<"push", "HB">> >>, << <<"op", "-">>, <<"push", "B">> >>,
               << <<"push", "x">>, <<"push", "A">>, <<"trunc", "-">> >>}
JTok(t) == [k |-> t[1], d |-> t[2]]
JCase(s, w, pos, c, a) == [script |-> [i \in 1..Len(s) |-> JTok(s[i])], word |-> w, pos |-> pos, contracts |-> c, action |-> a,
                           expect |-> Relevant(s, w, c, a)]
Cases == {JCase(s, w, pos, FALSE, "none") : s \in Scripts, w \in WordsFew, pos \in {"out", "in"}}
    \cup {JCase(s, w, "out", FALSE, "none") : s \in ScriptsFew, w \in Words}
    \cup {JCase(s, w, "out", c, a) : s \in ScriptsFew, w \in {<<>>, <<"SubRawA">>}, c \in BOOLEAN, a \in Actions}
ASSUME LET cs == SetToSeq(Cases) IN JsonSerialize("filter_cases.json", cs)
VARIABLE x
Init == x = 0
Next == UNCHANGED x
Spec == Init /\ [][Next]_x
====
