---- MODULE Sim_TxRequests ----
EXTENDS MC_TxRequests
SimSpec == Spec
====
