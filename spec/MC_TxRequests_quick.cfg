SPECIFICATION Spec
CONSTANTS
  NT = 2
  NC = 3
  Win = 2
  MaxClock = 4
  MaxOps = 5
  Mut = ""
INVARIANTS Exclusive NoneAfterBody
PROPERTIES StepProps
CHECK_DEADLOCK FALSE
