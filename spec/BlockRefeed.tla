---------------------------- MODULE BlockRefeed ----------------------------
(***************************************************************************)
(* Growth beyond the listed properties: re-feeding stored blocks to the    *)
(* handlers (Node.RefeedBlocksFromHeight : node.go 1339, the refeeder      *)
(* branch of processBlocks : blocks.go 28-58, handlers/block_refeeder.go,  *)
(* handlers/block.go SetBlock).                                            *)
(*                                                                         *)
(*   Refeed(h)   the application asks for the blocks from height h again   *)
(*   Loop        one iteration of processBlocks while the refeeder is      *)
(*               active: provide the held block (if any), move on or       *)
(*               finish, request the next block if it is not requested     *)
(*   Answer      the peer answers the oldest block request                 *)
(*   Deliver     the block message is handled (handlers/block.go)          *)
(*                                                                         *)
(* The stored chain is 1..H; block b at height b.  What the application is *)
(* entitled to: the blocks h..H are provided in order, each once, each     *)
(* with its own header and body.                                           *)
(***************************************************************************)
EXTENDS Integers, Sequences, FiniteSets, TLC

CONSTANTS H, MaxRefeed, MaxSteps,
          Fix       \* subset of {"clearheld"}: the held block is dropped when the refeeder moves on

VARIABLES next,      \* height the refeeder waits for (0 = inactive)
          want,      \* the block whose hash the refeeder compares arriving blocks with (kept when it goes inactive)
          requested, \* the block at `next` has been requested
          held,      \* the block body the refeeder holds (0 = none)
          out,       \* block requests on their way to the peer
          net,       \* block messages on their way to the node
          provided,  \* what the handlers were given: <<height, block>>
          stray,     \* block messages that went to the ordinary download window instead (not requested there: dropped)
          refeeds, steps, act
vars == <<next, want, requested, held, out, net, provided, stray, refeeds, steps, act>>
A(a, x) == [a |-> a, x |-> x]

Init == /\ next = 0 /\ want = 0 /\ requested = FALSE /\ held = 0 /\ out = <<>> /\ net = <<>> /\ provided = <<>> /\ stray = <<>>
        /\ refeeds = 0 /\ steps = 0 /\ act = A("init", 0)
Step == steps < MaxSteps /\ steps' = steps + 1

Refeed(h) ==       \* block_refeeder.go SetHeight: only an earlier height (or an inactive refeeder) takes effect
  /\ Step /\ refeeds < MaxRefeed /\ refeeds' = refeeds + 1 /\ h \in 1..H
  /\ IF next = 0 \/ next > h THEN next' = h /\ want' = h /\ requested' = FALSE /\ held' = (IF "clearheld" \in Fix THEN 0 ELSE held)
                              ELSE UNCHANGED <<next, want, requested, held>>
  /\ act' = A("Refeed", h) /\ UNCHANGED <<out, net, provided, stray>>

Loop ==            \* blocks.go:28-58
  /\ Step /\ next # 0
  /\ LET prov == held # 0
         n1 == IF ~prov THEN next ELSE IF next = H THEN 0 ELSE next + 1
         r1 == IF ~prov THEN requested ELSE (next = H)          \* Clear: requested = TRUE; Increment: FALSE
         h1 == IF prov /\ "clearheld" \in Fix THEN 0 ELSE held
     IN /\ provided' = IF prov THEN Append(provided, <<next, held>>) ELSE provided
        /\ held' = h1 /\ want' = (IF n1 # 0 THEN n1 ELSE want)
        /\ IF n1 # 0 /\ ~r1 THEN next' = n1 /\ requested' = TRUE /\ out' = Append(out, n1)
                            ELSE next' = n1 /\ requested' = r1 /\ UNCHANGED out
  /\ act' = A("Loop", 0) /\ UNCHANGED <<net, stray, refeeds>>

Answer == /\ Step /\ out # <<>> /\ net' = Append(net, Head(out)) /\ out' = Tail(out)
          /\ act' = A("Answer", Head(out)) /\ UNCHANGED <<next, want, requested, held, provided, stray, refeeds>>

Deliver == /\ Step /\ net # <<>> /\ net' = Tail(net)
           /\ IF Head(net) = want /\ ("clearheld" \notin Fix \/ next # 0)
                 THEN held' = Head(net) /\ UNCHANGED stray     \* SetBlock: the hash the refeeder compares with (also when inactive)
                                              ELSE stray' = Append(stray, Head(net)) /\ UNCHANGED held
           /\ act' = A("Deliver", Head(net)) /\ UNCHANGED <<next, want, requested, out, provided, refeeds>>

Next == (\E h \in 1..H : Refeed(h)) \/ Loop \/ Answer \/ Deliver
Spec == Init /\ [][Next]_vars

-----------------------------------------------------------------------------
S == [provided |-> provided, next |-> next]
\* every provided block is the block of the height it is provided for
OwnBlockP(s) == \A i \in 1..Len(s.provided) : s.provided[i][1] = s.provided[i][2]
\* heights are provided in order without a gap; a later Refeed may start again further down
InOrderP(s) == \A i \in 2..Len(s.provided) : s.provided[i][1] = s.provided[i-1][1] + 1 \/ s.provided[i][1] <= s.provided[i-1][1]
OwnBlock == OwnBlockP(S)
InOrder == InOrderP(S)
\* a finished refeed has provided everything from its start to the tip
CompleteP(s, h) == s.next = 0 => \A b \in h..H : \E i \in 1..Len(s.provided) : s.provided[i] = <<b, b>>
=============================================================================
