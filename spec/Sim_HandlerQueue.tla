---- MODULE Sim_HandlerQueue ----
EXTENDS MC_HandlerQueue
\* random walks in which the handshake happens early and the expected id is likely
SimNext == \/ Accept \/ (\E n \in 1..4 : Ready(n)) \/ Hold \/ Release \/ (steps > 3 /\ Drop)
           \/ \E kind \in {"tx", "upd", "hdrs"}, id \in 1..6 : Notify(kind, id)
           \/ \E kind \in {"tx", "upd"} : Notify(kind, nextId) \/ Notify(kind, nextId)
SimSpec == Init /\ [][SimNext]_vars
====
