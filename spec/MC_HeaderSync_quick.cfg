SPECIFICATION Spec
CONSTANTS
  R = 3
  PT = {2, 5, 8, 11}
  B = 2
  MaxSteps = 26
VIEW View
INVARIANTS Linked LastIsTip SavedIsPrefix
CHECK_DEADLOCK FALSE
