---- MODULE MC_BlockRefeed_TTrace_1790601657 ----
EXTENDS Sequences, TLCExt, MC_BlockRefeed, Toolbox, Naturals, TLC

_expression ==
    LET MC_BlockRefeed_TEExpression == INSTANCE MC_BlockRefeed_TEExpression
    IN MC_BlockRefeed_TEExpression!expression
----

_trace ==
    LET MC_BlockRefeed_TETrace == INSTANCE MC_BlockRefeed_TETrace
    IN MC_BlockRefeed_TETrace!trace
----

_inv ==
    ~(
        TLCGet("level") = Len(_TETrace)
        /\
        next = (2)
        /\
        stray = (<<>>)
        /\
        requested = (TRUE)
        /\
        act = ([a |-> "Loop", x |-> 0])
        /\
        held = (0)
        /\
        provided = (<<<<1, 2>>>>)
        /\
        net = (<<>>)
        /\
        steps = (6)
        /\
        refeeds = (2)
        /\
        out = (<<2>>)
    )
----

_init ==
    /\ out = _TETrace[1].out
    /\ refeeds = _TETrace[1].refeeds
    /\ provided = _TETrace[1].provided
    /\ next = _TETrace[1].next
    /\ net = _TETrace[1].net
    /\ held = _TETrace[1].held
    /\ steps = _TETrace[1].steps
    /\ stray = _TETrace[1].stray
    /\ act = _TETrace[1].act
    /\ requested = _TETrace[1].requested
----

_next ==
    /\ \E i,j \in DOMAIN _TETrace:
        /\ \/ /\ j = i + 1
              /\ i = TLCGet("level")
        /\ out  = _TETrace[i].out
        /\ out' = _TETrace[j].out
        /\ refeeds  = _TETrace[i].refeeds
        /\ refeeds' = _TETrace[j].refeeds
        /\ provided  = _TETrace[i].provided
        /\ provided' = _TETrace[j].provided
        /\ next  = _TETrace[i].next
        /\ next' = _TETrace[j].next
        /\ net  = _TETrace[i].net
        /\ net' = _TETrace[j].net
        /\ held  = _TETrace[i].held
        /\ held' = _TETrace[j].held
        /\ steps  = _TETrace[i].steps
        /\ steps' = _TETrace[j].steps
        /\ stray  = _TETrace[i].stray
        /\ stray' = _TETrace[j].stray
        /\ act  = _TETrace[i].act
        /\ act' = _TETrace[j].act
        /\ requested  = _TETrace[i].requested
        /\ requested' = _TETrace[j].requested

\* Uncomment the ASSUME below to write the states of the error trace
\* to the given file in Json format. Note that you can pass any tuple
\* to `JsonSerialize`. For example, a sub-sequence of _TETrace.
    \* ASSUME
    \*     LET J == INSTANCE Json
    \*         IN J!JsonSerialize("MC_BlockRefeed_TTrace_1790601657.json", _TETrace)

=============================================================================

 Note that you can extract this module `MC_BlockRefeed_TEExpression`
  to a dedicated file to reuse `expression` (the module in the 
  dedicated `MC_BlockRefeed_TEExpression.tla` file takes precedence 
  over the module `MC_BlockRefeed_TEExpression` below).

---- MODULE MC_BlockRefeed_TEExpression ----
EXTENDS Sequences, TLCExt, MC_BlockRefeed, Toolbox, Naturals, TLC

expression == 
    [
        \* To hide variables of the `MC_BlockRefeed` spec from the error trace,
        \* remove the variables below.  The trace will be written in the order
        \* of the fields of this record.
        out |-> out
        ,refeeds |-> refeeds
        ,provided |-> provided
        ,next |-> next
        ,net |-> net
        ,held |-> held
        ,steps |-> steps
        ,stray |-> stray
        ,act |-> act
        ,requested |-> requested
        
        \* Put additional constant-, state-, and action-level expressions here:
        \* ,_stateNumber |-> _TEPosition
        \* ,_outUnchanged |-> out = out'
        
        \* Format the `out` variable as Json value.
        \* ,_outJson |->
        \*     LET J == INSTANCE Json
        \*     IN J!ToJson(out)
        
        \* Lastly, you may build expressions over arbitrary sets of states by
        \* leveraging the _TETrace operator.  For example, this is how to
        \* count the number of times a spec variable changed up to the current
        \* state in the trace.
        \* ,_outModCount |->
        \*     LET F[s \in DOMAIN _TETrace] ==
        \*         IF s = 1 THEN 0
        \*         ELSE IF _TETrace[s].out # _TETrace[s-1].out
        \*             THEN 1 + F[s-1] ELSE F[s-1]
        \*     IN F[_TEPosition - 1]
    ]

=============================================================================



Parsing and semantic processing can take forever if the trace below is long.
 In this case, it is advised to uncomment the module below to deserialize the
 trace from a generated binary file.

\*
\*---- MODULE MC_BlockRefeed_TETrace ----
\*EXTENDS IOUtils, MC_BlockRefeed, TLC
\*
\*trace == IODeserialize("MC_BlockRefeed_TTrace_1790601657.bin", TRUE)
\*
\*=============================================================================
\*

---- MODULE MC_BlockRefeed_TETrace ----
EXTENDS MC_BlockRefeed, TLC

trace == 
    <<
    ([next |-> 0,stray |-> <<>>,requested |-> FALSE,act |-> [a |-> "init", x |-> 0],held |-> 0,provided |-> <<>>,net |-> <<>>,steps |-> 0,refeeds |-> 0,out |-> <<>>]),
    ([next |-> 2,stray |-> <<>>,requested |-> FALSE,act |-> [a |-> "Refeed", x |-> 2],held |-> 0,provided |-> <<>>,net |-> <<>>,steps |-> 1,refeeds |-> 1,out |-> <<>>]),
    ([next |-> 2,stray |-> <<>>,requested |-> TRUE,act |-> [a |-> "Loop", x |-> 0],held |-> 0,provided |-> <<>>,net |-> <<>>,steps |-> 2,refeeds |-> 1,out |-> <<2>>]),
    ([next |-> 2,stray |-> <<>>,requested |-> TRUE,act |-> [a |-> "Answer", x |-> 2],held |-> 0,provided |-> <<>>,net |-> <<2>>,steps |-> 3,refeeds |-> 1,out |-> <<>>]),
    ([next |-> 2,stray |-> <<>>,requested |-> TRUE,act |-> [a |-> "Deliver", x |-> 2],held |-> 2,provided |-> <<>>,net |-> <<>>,steps |-> 4,refeeds |-> 1,out |-> <<>>]),
    ([next |-> 1,stray |-> <<>>,requested |-> FALSE,act |-> [a |-> "Refeed", x |-> 1],held |-> 2,provided |-> <<>>,net |-> <<>>,steps |-> 5,refeeds |-> 2,out |-> <<>>]),
    ([next |-> 2,stray |-> <<>>,requested |-> TRUE,act |-> [a |-> "Loop", x |-> 0],held |-> 0,provided |-> <<<<1, 2>>>>,net |-> <<>>,steps |-> 6,refeeds |-> 2,out |-> <<2>>])
    >>
----


=============================================================================

---- CONFIG MC_BlockRefeed_TTrace_1790601657 ----
CONSTANTS
    H = 3
    MaxRefeed = 2
    MaxSteps = 14
    Fix <- AllFix

INVARIANT
    _inv

CHECK_DEADLOCK
    \* CHECK_DEADLOCK off because of PROPERTY or INVARIANT above.
    FALSE

INIT
    _init

NEXT
    _next

CONSTANT
    _TETrace <- _trace

ALIAS
    _expression
=============================================================================
\* Generated on Mon Sep 28 13:20:58 UTC 2026