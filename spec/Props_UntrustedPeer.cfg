SPECIFICATION PSpec
CONSTANTS
  H = 12
  Delta = 6
  Txs <- Txs2
  Addrs <- Addrs1
  MaxSteps = 100000
CHECK_DEADLOCK FALSE
