SPECIFICATION TraceSpec
CONSTANTS
  MaxMsgs = 1000
  Lens <- Lens3
INVARIANTS Done
CHECK_DEADLOCK FALSE
