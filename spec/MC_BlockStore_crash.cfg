SPECIFICATION Spec
CONSTANTS
  K = 3
  MaxId = 8
  MaxH = 8
  RmMissingErr = TRUE
  Fixed <- AllFixed
  Mut = ""
  RTop = 3
  Rho <- RhoId3
VIEW View
INVARIANTS CrashSafe
CHECK_DEADLOCK FALSE
