SPECIFICATION TraceSpec
CONSTANTS
  NCalls = 3
  Keys <- Keys3
  Full = TRUE
  Big = TRUE
  MaxSteps = 1000
  Subs <- SubsAll
  MaxNote = 1000
  Fix <- NoFix
INVARIANTS Done
CHECK_DEADLOCK FALSE
