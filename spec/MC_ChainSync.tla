---- MODULE MC_ChainSync ----
EXTENDS ChainSync
\* tree: main chain 1-2-3-4, fork 2-5-6-7
Par7 == <<0,1,2,3,2,5,6>>
Tips134 == {1,3,4}
Tips234 == {2,3,4}
Tips4 == {4}
Tips124 == {1,2,4}
TipsAll == {1,2,3,4,5,6,7}
\* long tree: main chain 1..12, fork 9-13-14
Par14 == <<0,1,2,3,4,5,6,7,8,9,10,11,9,13>>
Tips14 == {3, 10, 12}
\* long tree with a heavier fork right behind block 11: main chain 1..12, fork 11-13-14-15
Par15 == <<0,1,2,3,4,5,6,7,8,9,10,11,11,13,14>>
Tips15 == {1}
NoFix == {}
CodeFix == {"stale", "unknownpoll", "unknownkeeps"}   \* repaired in the code (fix: commits)
AllFix == {"inflight", "recheck", "stale", "blockinv", "unknownpoll", "unknownkeeps"}
FixNoInv == {"inflight", "recheck", "stale", "unknownpoll"}
FixNoInvNoStale == {"inflight", "recheck", "unknownpoll"}
Unb == 0 - 1
View == <<ptip, tipc, pann, sendhdrs, net, out, chain, startH, req, toReq, lastSaved, infl, inSync,
          pendSync, hdrReq, hsDone, notified, badNotify, restarts, prs, dups, advs, unts, chk>>
====
