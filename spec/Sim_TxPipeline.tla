---- MODULE Sim_TxPipeline ----
EXTENDS MC_TxPipeline
SimSpec == Init /\ [][Next]_vars
====
