---- MODULE ProofCases ----
(* C04: enumeration of block shapes for the merkle-proof property.  TLC enumerates every case and writes it, with  *)
(* the expected notification of every transaction, to proof_cases.json; the harness realises each case as a real   *)
(* block on the real node.                                                                                          *)
(*   n      number of transactions in the block besides the coinbase (block size n+1: 1..9, 16, 17)               *)
(*   cls[i] class of the i-th transaction: "Ru" relevant, first seen in the block (expect: new tx with proof)      *)
(*                                         "Rc" relevant, delivered unconfirmed before (expect: update with proof)  *)
(*                                         "Iu" irrelevant, unseen ; "Is" irrelevant, seen before (expect: nothing) *)
EXTENDS Integers, Sequences, FiniteSets, TLC, Json, SequencesExt
Cls == {"Ru", "Rc", "Iu", "Is"}
Small == UNION {[1..n -> Cls] : n \in 0..4}                                   \* every class assignment, block sizes 1..5
Min2(S) == CHOOSE x \in S : \A y \in S : x <= y
RelPos(n) == {S \in SUBSET (1..n) : Cardinality(S) \in {1, 2}}
Sparse(n) == {[i \in 1..n |-> IF i \in S THEN c ELSE "Iu"] : S \in RelPos(n), c \in {"Ru", "Rc"}}
          \cup {[i \in 1..n |-> IF i = Min2(S) THEN "Ru" ELSE IF i \in S THEN "Rc" ELSE "Iu"] : S \in RelPos(n)}
Large == UNION {Sparse(n) : n \in {5, 6, 7, 8, 15, 16}}                       \* block sizes 6..9, 16, 17
Cases == Small \cup Large
Expect(c) == IF c = "Ru" THEN "new" ELSE IF c = "Rc" THEN "upd" ELSE "none"
JCase(f) == [n |-> Len(f), cls |-> f, expect |-> [i \in 1..Len(f) |-> Expect(f[i])]]
ASSUME LET cs == SetToSeq(Cases) IN JsonSerialize("proof_cases.json", [i \in 1..Len(cs) |-> JCase(cs[i])])
VARIABLE x
Init == x = 0
Next == UNCHANGED x
Spec == Init /\ [][Next]_x
====
