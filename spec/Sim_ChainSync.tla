---- MODULE Sim_ChainSync ----
(* Behaviour generator: the ChainSync specification itself (the action label is the variable act). *)
EXTENDS MC_ChainSync
SimSpec == Init /\ [][Next]_vars
====
