SPECIFICATION PSpec
CONSTANTS
  N = 16
  W = 10
  MaxBatch = 8
  MaxSteps = 100000
CHECK_DEADLOCK FALSE
