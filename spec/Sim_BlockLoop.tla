---- MODULE Sim_BlockLoop ----
EXTENDS MC_BlockLoop
SimSpec == Spec
====
