---- MODULE Props_WireTable ----
(* C15, type table: what the code has (PayloadForType, MessageTypeNames, each payload's own Type()) is exactly the table of *)
(* the specification, one-to-one.                                                                                          *)
EXTENDS WireStream, Json
Tb == ndJsonDeserialize("impl.ndjson")[1].rows
Rows == 1..Len(Tb)
F(name, X) == {<<name, i>> : i \in X}
Bad == F("TableOneToOne", {i \in Rows : ~(\E j \in 1..Len(TypeTable) : TypeTable[j].code = Tb[i].code /\ TypeTable[j].name = Tb[i].name
                                           /\ Tb[i].byname = Tb[i].name /\ Tb[i].self = Tb[i].code /\ Tb[i].payload # "")})
  \cup F("TableOneToOne", {i \in Rows : \E k \in Rows : k # i /\ (Tb[k].payload = Tb[i].payload \/ Tb[k].name = Tb[i].name \/ Tb[k].code = Tb[i].code)})
  \cup (IF Len(Tb) = Len(TypeTable) THEN {} ELSE {<<"TableOneToOne", 0>>})
ASSUME JsonSerialize("props_result.json", [lines |-> Len(Tb), bad |-> Bad])
PSpec == Init /\ [][UNCHANGED vars]_vars
====
