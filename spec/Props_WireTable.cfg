SPECIFICATION PSpec
CONSTANTS
  MaxMsgs = 1
  Lens = {1}
CHECK_DEADLOCK FALSE
