---- MODULE Trace_ReceiveBacklog ----
EXTENDS MC_ReceiveBacklog, Json
Tr == ndJsonDeserialize("impl.ndjson")
VARIABLES l, rej
tvars == <<vars, l, rej>>
\* the receive queue is a local of Run and cannot be observed; the handler queue's length is observable only while it is not flooded
\* when Run has failed its routines stop where they are: what the handler had started by then is not determined
Same(i) == LET s == Tr[i].st IN
  IF s.run = "failed" THEN run' = "failed" /\ ep' = s.ep /\ up' = s.up ELSE
  /\ ep' = s.ep /\ up' = s.up /\ flag' = s.flag /\ nextId' = s.nextId /\ held' = s.held /\ full' = s.full /\ sent' = s.sent /\ run' = s.run
  /\ (~full' => Len(hq') = s.hq)
  /\ deliv' = [j \in 1..Len(s.deliv) |-> Item(s.deliv[j].k, s.deliv[j].id, s.deliv[j].n, s.deliv[j].e)]
Step1(e) == CASE e.a = "Accept" -> Accept [] e.a = "Ready" -> Ready(e.k) [] e.a = "Notify" -> Notify(e.kind, e.k)
              [] e.a = "Hold" -> Hold [] e.a = "Release" -> Release [] e.a = "Flood" -> Flood [] e.a = "Stall" -> Stall
              [] e.a = "Teardown" -> Teardown [] e.a = "Connect" -> Connect [] OTHER -> FALSE
TMatch == /\ l < Len(Tr) /\ Tr[l+1].act.a # "init" /\ Tr[l+1].skip = ""
          /\ Step1(Tr[l+1].act) /\ Same(l+1) /\ l' = l + 1 /\ UNCHANGED rej
TStart(i) == /\ ep' = 1 /\ up' = TRUE /\ flag' = FALSE /\ nextId' = 1 /\ held' = "no" /\ full' = FALSE /\ hq' = <<>> /\ rq' = <<>> /\ deliv' = <<>>
             /\ accs' = {} /\ sent' = 0 /\ run' = "running" /\ steps' = 0 /\ act' = A("init", 0, "") /\ l' = i
Begin == l < Len(Tr) /\ Tr[l+1].act.a = "init" /\ TStart(l+1) /\ UNCHANGED rej
NextInit(i) == IF \E j \in i..Len(Tr) : Tr[j].act.a = "init"
               THEN CHOOSE j \in i..Len(Tr) : Tr[j].act.a = "init" /\ \A k \in i..(j-1) : Tr[k].act.a # "init" ELSE 0
Resync == /\ l < Len(Tr) /\ Tr[l+1].act.a # "init" /\ ~ENABLED TMatch /\ rej' = Append(rej, l + 1)
          /\ LET j == NextInit(l + 1) IN IF j = 0 THEN l' = Len(Tr) /\ UNCHANGED vars ELSE TStart(j)
TraceSpec == Init /\ l = 0 /\ rej = <<>> /\ [][Begin \/ TMatch \/ Resync]_tvars
Done == (l = Len(Tr)) => JsonSerialize("trace_result.json", [lines |-> Len(Tr), rej |-> rej])
====
