---- MODULE Props_Outputs ----
(* C16 judgement of the outputs lookup: for every enumerated case the result of the real GetOutputs equals the result the *)
(* declarative specification (OutputsCases!Expected) assigned to the case, and the call did not crash.                     *)
EXTENDS Integers, Sequences, TLC, Json
Tr == ndJsonDeserialize("impl.ndjson")
Bad == {<<"OutputsExact", i>> : i \in {j \in 1..Len(Tr) : Tr[j].got # Tr[j].expect /\ Tr[j].panic = ""}}
  \cup {<<"NoPanic", i>> : i \in {j \in 1..Len(Tr) : Tr[j].panic # ""}}
ASSUME JsonSerialize("props_result.json", [lines |-> Len(Tr), bad |-> Bad])
VARIABLE x
Init == x = 0
Next == UNCHANGED x
Spec == Init /\ [][Next]_x
====
