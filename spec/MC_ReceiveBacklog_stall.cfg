SPECIFICATION SpecStall
CONSTANTS
  MaxSteps = 8
  MaxQ = 3
  MaxConn = 2
VIEW View
INVARIANTS CountedAreDelivered DataAfterAccept AcceptOnce InOrder
CHECK_DEADLOCK FALSE
