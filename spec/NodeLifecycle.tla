--------------------------- MODULE NodeLifecycle ---------------------------
(***************************************************************************)
(* Life cycle of the spy node against its trusted peer (property C19):     *)
(*   spynode/node.go:320  Run: connect loop, goroutines per connection,    *)
(*                        phased shutdown (close connection, wait for the  *)
(*                        incoming goroutines, close the channels, wait    *)
(*                        for the processing goroutines, save), restart    *)
(*   spynode/node.go:513  Stop / requestStop / restart (:844)              *)
(* at the level of what the peer, the handlers, the caller of Stop and the *)
(* storage observe.  The environment (the scripted peer and the            *)
(* application) takes the steps; the node's reaction to each step is       *)
(* deterministic at this level.                                            *)
(*                                                                         *)
(*   Accept        the peer starts listening again and accepts the dial    *)
(*   Version       the peer answers the node's version (handshake)         *)
(*   Headers(n)    the peer announces the next n headers (0: it has none)  *)
(*   Block(gate)   the peer delivers the next requested block; with gate   *)
(*                 the handler is held inside its HandleHeaders call-back  *)
(*                 (the node is in the middle of the block)                *)
(*   Release       the held call-back returns                              *)
(*   Tx            the peer sends a relevant transaction                   *)
(*   Close(k)      the peer closes (fin) or resets (rst) the connection    *)
(*                 and stops listening                                     *)
(*   Stop          the application calls Stop                              *)
(***************************************************************************)
EXTENDS Integers, Sequences, FiniteSets, TLC

CONSTANTS NB,          \* blocks the peer has beyond the start block
          MaxEpoch, MaxTx, MaxSteps

VARIABLES run,         \* "connecting" | "up" | "stopped"
          epoch,       \* connections accepted so far
          hs,          \* handshake done on this connection
          ann,         \* highest block announced on this connection
          done,        \* blocks processed (HandleHeaders call-backs)
          sync,        \* "no" | "pending" | "yes"
          ntx,         \* unconfirmed relevant transactions delivered
          gate,        \* "none" | "held" : a HandleHeaders call-back is held
          pend,        \* what waits for the held call-back: "" | "stop" | "restart"
          emitted,     \* how many phases of the waiting shutdown have been reached (1 or 3)
          stopReq, stopRet,
          phases,      \* shutdown phases reached during the last step
          saved,       \* what the last save wrote: [tip, utx]
          locTop,      \* height named first in the last block locator the node sent
          fed,         \* a client thread is blocked in Node.HandleTx on the full unconfirmed-tx channel
          steps, act
vars == <<run, epoch, hs, ann, done, sync, ntx, gate, pend, emitted, stopReq, stopRet, phases, saved, locTop, fed, steps, act>>

A(a, n, k) == [a |-> a, n |-> n, k |-> k]
Head3 == <<"stopping", "incomingStopped", "channelsClosed">>
Tail3(last) == <<"processingStopped", "saved", last>>

Init == /\ run = "connecting" /\ epoch = 0 /\ hs = FALSE /\ ann = 0 /\ done = 0 /\ sync = "no" /\ ntx = 0
        /\ fed = FALSE /\ gate = "none" /\ pend = "" /\ emitted = 0 /\ stopReq = FALSE /\ stopRet = FALSE /\ phases = <<>>
        /\ saved = [tip |-> 0, utx |-> 0] /\ locTop = -1 /\ steps = 0 /\ act = A("init", 0, "")

Step == steps < MaxSteps /\ steps' = steps + 1 /\ run # "stopped"

Accept ==
  /\ Step /\ run = "connecting" /\ pend = "" /\ epoch < MaxEpoch /\ ~stopReq
  /\ run' = "up" /\ epoch' = epoch + 1 /\ hs' = FALSE /\ ann' = done /\ sync' = "no" /\ phases' = <<>>
  /\ act' = A("Accept", 0, "") /\ UNCHANGED <<done, ntx, gate, pend, emitted, stopReq, stopRet, saved, locTop, fed>>

Version ==          \* the node answers with verack and asks for headers after its stored tip
  /\ Step /\ run = "up" /\ ~hs /\ pend = ""
  /\ hs' = TRUE /\ locTop' = done /\ phases' = <<>>
  /\ act' = A("Version", 0, "") /\ UNCHANGED <<run, epoch, ann, done, sync, ntx, gate, pend, emitted, stopReq, stopRet, saved, fed>>

Headers(n) ==
  /\ Step /\ run = "up" /\ hs /\ pend = "" /\ ann + n <= NB
  /\ IF n > 0 THEN ann' = ann + n /\ UNCHANGED sync
     ELSE /\ UNCHANGED ann
          \* in sync when no block request is outstanding - a block that is being processed is not counted (cf. F1)
          /\ sync' = IF sync = "yes" THEN sync
                     ELSE IF (ann = done /\ gate = "none") \/ (ann = done + 1 /\ gate = "held") THEN "yes" ELSE "pending"
  /\ phases' = <<>>
  /\ act' = A("Headers", n, "") /\ UNCHANGED <<run, epoch, hs, done, ntx, gate, pend, emitted, stopReq, stopRet, saved, locTop, fed>>

\* the effect of one processed block
Processed(d) == [done |-> d + 1, sync |-> IF sync = "pending" /\ d + 1 = ann THEN "yes" ELSE sync]

Block(g) ==
  /\ Step /\ run = "up" /\ hs /\ pend = "" /\ gate = "none" /\ done < ann
  /\ IF g = "gate" THEN gate' = "held" /\ UNCHANGED <<done, sync>>
     ELSE /\ UNCHANGED gate /\ done' = Processed(done).done /\ sync' = Processed(done).sync
  /\ phases' = <<>>
  /\ act' = A("Block", 0, g) /\ UNCHANGED <<run, epoch, hs, ann, ntx, pend, emitted, stopReq, stopRet, saved, locTop, fed>>

Tx ==
  /\ Step /\ run = "up" /\ hs /\ pend = "" /\ sync = "yes" /\ ntx < MaxTx
  /\ gate = "none"               \* (while a block is held the consumer waits for the transaction repository)
  /\ ntx' = ntx + 1 /\ phases' = <<>>
  /\ act' = A("Tx", 0, "") /\ UNCHANGED <<run, epoch, hs, ann, done, sync, gate, pend, emitted, stopReq, stopRet, saved, locTop, fed>>

\* The shutdown of a connection: requested by Stop (last = "stopped") or by the loss of the connection (last = "restarting").
\* While a call-back is held inside ProcessBlock the processing goroutines cannot finish: the shutdown waits after closing
\* the channels - or, when the node is in sync, already for the incoming goroutines if the safe-delay checker (an incoming
\* goroutine) is waiting for the transaction repository that ProcessBlock has locked.
\* With a client thread blocked in Node.HandleTx on the full unconfirmed-tx channel (Feed), closing that channel has to wait for
\* the blocked add (handlers/transaction.go TxChannel.Add holds the channel's lock): the shutdown stops one phase earlier.
HeldHead == IF fed THEN (IF sync = "yes" THEN {1, 2} ELSE {2}) ELSE IF sync = "yes" THEN {1, 3} ELSE {3}
Close(k) ==
  /\ Step /\ run = "up" /\ pend = ""
  /\ hs' = FALSE
  /\ IF gate = "held"
     THEN /\ pend' = "restart" /\ (\E m \in HeldHead : phases' = SubSeq(Head3, 1, m) /\ emitted' = m) /\ UNCHANGED <<saved, sync>>
     ELSE /\ phases' = Head3 \o Tail3("restarting") /\ saved' = [tip |-> done, utx |-> ntx] /\ sync' = "no" /\ UNCHANGED <<pend, emitted>>
  /\ run' = "connecting"        \* no connection (a node waiting for a held call-back dials only after it has restarted)
  /\ act' = A("Close", 0, k) /\ UNCHANGED <<epoch, ann, done, ntx, gate, stopReq, stopRet, locTop, fed>>

Stop ==
  /\ Step /\ ~stopReq /\ stopReq' = TRUE
  /\ IF gate = "held"
     THEN /\ pend' = "stop" /\ UNCHANGED <<run, stopRet, saved>>
          /\ IF pend = "" THEN \E m \in HeldHead : phases' = SubSeq(Head3, 1, m) /\ emitted' = m
             ELSE phases' = <<>> /\ UNCHANGED emitted          \* a shutdown for a restart is already waiting
     ELSE IF run = "connecting" THEN /\ run' = "stopped" /\ stopRet' = TRUE /\ phases' = <<"stopped">> /\ UNCHANGED <<pend, emitted, saved>>
     ELSE /\ run' = "stopped" /\ stopRet' = TRUE /\ phases' = Head3 \o Tail3("stopped")
          /\ saved' = [tip |-> done, utx |-> ntx] /\ UNCHANGED <<pend, emitted>>
  /\ act' = A("Stop", 0, "") /\ UNCHANGED <<epoch, hs, ann, done, sync, ntx, gate, locTop, fed>>

\* While a call-back is held the application keeps submitting transactions from a thread of its own (Node.HandleTx): the consumer
\* is waiting for the transaction repository, the channel (100 deep) fills up and the submitting call blocks.  The transactions do
\* not match the filters: nothing else changes.  What the application is entitled to: its call returns (accepted or refused),
\* it never panics, and Stop still returns once the call-back is released.
Feed ==
  /\ Step /\ run = "up" /\ hs /\ gate = "held" /\ pend = "" /\ ~fed /\ fed' = TRUE /\ phases' = <<>>
  /\ act' = A("Feed", 0, "") /\ UNCHANGED <<run, epoch, hs, ann, done, sync, ntx, gate, pend, emitted, stopReq, stopRet, saved, locTop>>

Release ==          \* the held call-back returns: the block is completed, a waiting shutdown proceeds
  /\ Step /\ gate = "held"
  /\ gate' = "none" /\ done' = Processed(done).done
  /\ sync' = IF pend = "" THEN Processed(done).sync ELSE IF pend = "restart" THEN "no" ELSE sync
  /\ IF pend = "" THEN phases' = <<>> /\ UNCHANGED <<run, stopRet, saved, pend, emitted>>
     ELSE /\ pend' = "" /\ emitted' = 0
          /\ saved' = [tip |-> done + 1, utx |-> ntx]
          /\ IF pend = "stop" THEN run' = "stopped" /\ stopRet' = TRUE /\ phases' = SubSeq(Head3, emitted + 1, 3) \o Tail3("stopped")
             ELSE run' = "connecting" /\ phases' = SubSeq(Head3, emitted + 1, 3) \o Tail3("restarting") /\ UNCHANGED stopRet
  /\ fed' = FALSE
  /\ act' = A("Release", 0, "") /\ UNCHANGED <<epoch, hs, ann, ntx, stopReq, locTop>>

Next == Accept \/ Version \/ (\E n \in 0..2 : Headers(n)) \/ (\E g \in {"", "gate"} : Block(g)) \/ Tx
        \/ (\E k \in {"fin", "rst"} : Close(k)) \/ Stop \/ Release \/ Feed
Spec == Init /\ [][Next]_vars

-----------------------------------------------------------------------------
(* properties (C19) *)
SavedAtStop == run = "stopped" => (saved.tip = done /\ saved.utx = ntx)           \* everything processed is persisted when Run returns
SavedAtRestart == (run = "connecting" /\ epoch > 0 /\ pend = "") => (saved.tip = done /\ saved.utx = ntx)
StopReturns == stopRet <=> run = "stopped"
ResumeFromTip == locTop = -1 \/ locTop <= done                                    \* the locator names the stored tip (checked exactly in StepProps)
S == [run |-> run, epoch |-> epoch, hs |-> hs, done |-> done, ntx |-> ntx, stopRet |-> stopRet, phases |-> phases, saved |-> saved,
      locTop |-> locTop, gate |-> gate]
\* step properties over observations (s before, t after, e the step)
StopP(s, t, e) == (e.a = "Stop" /\ s.gate = "none") => (t.stopRet /\ t.run = "stopped" /\ t.saved.tip = t.done /\ t.saved.utx = t.ntx)
ReleaseStopP(s, t, e) == (e.a = "Release" /\ t.run = "stopped") => (t.stopRet /\ t.saved.tip = t.done /\ t.saved.utx = t.ntx)
ResumeP(s, t, e) == (e.a = "Version") => t.locTop = s.done                          \* resumption from the stored tip
NoReannounceP(s, t, e) == t.done \in {s.done, s.done + 1}                           \* a block is announced to the handlers once
CloseP(s, t, e) == (e.a = "Close" /\ s.gate = "none") => (t.run = "connecting" /\ t.saved.tip = t.done /\ t.saved.utx = t.ntx /\ ~t.stopRet)
Full(x) == Head3 \o Tail3(x)
OrderP(t) == \/ t.phases = <<>> \/ t.phases = <<"stopped">>                          \* the phases come in the order of the protocol
             \/ \E x \in {"stopped", "restarting"}, i \in 1..6 : t.phases = SubSeq(Full(x), 1, i) \/ t.phases = SubSeq(Full(x), i, 6)
StepProps == [][StopP(S, S', act') /\ ReleaseStopP(S, S', act') /\ ResumeP(S, S', act') /\ NoReannounceP(S, S', act') /\ CloseP(S, S', act')
                /\ OrderP(S')]_vars
=============================================================================
