---- MODULE Props_Filter ----
(* C08 judgement: for every realised case the verdict of the real filter equals the verdict the declarative specification *)
(* (FilterCases!Relevant) assigned to the case, and the filter did not crash.                                             *)
EXTENDS Integers, Sequences, TLC, Json
Tr == ndJsonDeserialize("impl.ndjson")
Bad == {<<"FilterExact", i>> : i \in {j \in 1..Len(Tr) : Tr[j].got # Tr[j].expect /\ Tr[j].panic = ""}}
  \cup {<<"NoPanic", i>> : i \in {j \in 1..Len(Tr) : Tr[j].panic # ""}}
ASSUME JsonSerialize("props_result.json", [lines |-> Len(Tr), bad |-> Bad])
VARIABLE x
Init == x = 0
Next == UNCHANGED x
Spec == Init /\ [][Next]_x
====
