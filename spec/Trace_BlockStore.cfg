SPECIFICATION TraceSpec
CONSTANTS
  K = 4
  MaxId = 14
  MaxH = 13
  RmMissingErr = TRUE
  Fixed <- AllFixed
  Mut = ""
  RTop = 1000
  Rho <- RhoReal
INVARIANTS Done
CHECK_DEADLOCK FALSE
