SPECIFICATION Spec
CONSTANTS
  MaxLen = 3
CHECK_DEADLOCK FALSE
