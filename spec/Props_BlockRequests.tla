---- MODULE Props_BlockRequests ----
(* Judgement: the C13 formulas of BlockRequests evaluated on every recorded state and *)
(* every recorded step of the implementation traces.                                   *)
EXTENDS MC_BlockRequests, Json, SequencesExt

Tr == ndJsonDeserialize("impl.ndjson")
St(i) == [req |-> Tr[i].st.req, toReq |-> Tr[i].st.toReq, pend |-> Tr[i].st.pend,
          lastSaved |-> Tr[i].st.lastSaved, act |-> Act(Tr[i].a, Tr[i].b, Tr[i].sz, Tr[i].rs, Tr[i].ri)]
Lines == 1..Len(Tr)
Steps == {i \in Lines : i > 1 /\ Tr[i].a # "reset"}      \* i is the post-state of a step

Bad == {<<"Window", i>> : i \in {j \in Lines : ~WindowP(St(j))}}
  \cup {<<"Bytes", i>> : i \in {j \in Lines : ~BytesP(St(j))}}
  \cup {<<"ChainOrder", i>> : i \in {j \in Lines : ~ChainOrderP(St(j))}}
  \cup {<<"UnfilledZero", i>> : i \in {j \in Lines : ~UnfilledZeroP(St(j))}}
  \cup {<<"Paused", i>> : i \in {j \in Steps : ~PausedP(St(j-1), St(j))}}
  \cup {<<"FIFO", i>> : i \in {j \in Steps : ~FIFOP(St(j-1), St(j))}}
  \cup {<<"Unrequested", i>> : i \in {j \in Steps : ~UnrequestedP(St(j-1), St(j))}}
  \cup {<<"SendMeansAppended", i>> : i \in {j \in Steps : ~SendMeansAppendedP(St(j-1), St(j))}}
  \cup {<<"ForkDiscard", i>> : i \in {j \in Steps : ~ForkDiscardP(St(j-1), St(j))}}
  \cup {<<"Once", i>> : i \in {j \in Steps : ~OnceP(St(j-1), St(j))}}

ASSUME JsonSerialize("props_result.json", [lines |-> Len(Tr), bad |-> SetToSeq(Bad)])
PNext == UNCHANGED vars
PSpec == Init /\ [][PNext]_vars
====
