---- MODULE Props_BlockLoop ----
(* C13 judged on what the real node wrote to the trusted connection *)
EXTENDS MC_BlockLoop, Json
Tr == ndJsonDeserialize("impl.ndjson")
Lines == 1..Len(Tr)
St(i) == [wire |-> Tr[i].st.wire, done |-> Tr[i].st.done]
F(name, X) == {<<name, i>> : i \in X}
Bad == F("RequestedOnce", {i \in Lines : ~WireOnceP(St(i))})
  \cup F("RequestedInOrder", {i \in Lines : ~WireOrderP(St(i))})
  \cup F("WireWindow", {i \in Lines : ~WindowP(St(i))})
  \cup F("NoPanic", {i \in Lines : Len(Tr[i].skip) >= 5 /\ SubSeq(Tr[i].skip, 1, 5) = "PANIC"})
ASSUME JsonSerialize("props_result.json", [lines |-> Len(Tr), bad |-> Bad])
PSpec == Init /\ [][UNCHANGED vars]_vars
====
