SPECIFICATION Spec
CONSTANTS
  K = 3
  MaxId = 10
  MaxH = 10
  RmMissingErr = TRUE
  Fixed <- AllFixed
  Mut = ""
  RTop = 3
  Rho <- RhoId3
VIEW View
INVARIANTS QueryOK NoPanic NegOK RangeOK
CHECK_DEADLOCK FALSE
