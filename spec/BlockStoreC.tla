--------------------------- MODULE BlockStoreC ---------------------------
(***************************************************************************)
(* Contract layer of the header store (property C09): the "abstract list  *)
(* of headers", how each call changes it given the call's reported result, *)
(* and what every query must answer.  No variables: the same operators are *)
(* used by the model (BlockStore) and on recorded implementation traces    *)
(* (Props_BlockStore).                                                     *)
(***************************************************************************)
EXTENDS Integers, Sequences, FiniteSets, TLC

CONSTANTS K,            \* headers per file in the model (code: blocksPerKey = 1000, see the height map)
          MaxId,        \* bound on the number of headers ever created
          MaxH,         \* largest model height probed by the observation
          RTop, Rho     \* height map: model height q*K+r <-> real height RTop*q + Rho[r+1] (identity: RTop=K, Rho=<<0..K-1>>)

ERR == 0 - 1       \* the call returned an error
PANIC == 0 - 2     \* the call panicked
NOMAP == 0 - 3     \* (implementation traces only) the answer is a header at an unmapped real height
NONE == 0 - 4      \* the call returned "nothing" without an error

Div(a, b) == IF a >= 0 THEN a \div b ELSE 0 - ((0 - a) \div b)      \* Go: truncation toward zero
Mod(a, b) == a - b * Div(a, b)
Act(a, t, n, rs) == [a |-> a, t |-> t, n |-> n, rs |-> rs]
Range0(sq) == {sq[i] : i \in 1..Len(sq)}
Pos(sq, x) == CHOOSE i \in 1..Len(sq) : sq[i] = x
MinI(a, b) == IF a < b THEN a ELSE b

R(h) == RTop * Div(h, K) + Rho[Mod(h, K) + 1]
RInv(x) == IF x < 0 THEN NOMAP
           ELSE IF \E j \in 1..K : Rho[j] = x % RTop
           THEN (x \div RTop) * K + (CHOOSE j \in 1..K : Rho[j] = x % RTop) - 1 ELSE NOMAP

(* How a call with a reported result changes the chain a and the persisted chain p. *)
Ghost(a, p, e) ==
  CASE e.a = "Add" /\ e.rs = "ok"    -> [a |-> Append(a, e.t), p |-> IF Len(a) % K = 0 THEN a ELSE p]   \* a full file is saved on roll-over
    [] e.a = "Save" /\ e.rs = "ok"   -> [a |-> a, p |-> a]
    [] e.a = "Revert" /\ e.rs = "ok" /\ e.t + 1 <= Len(a)
                                     -> [a |-> SubSeq(a, 1, e.t + 1), p |-> SubSeq(a, 1, e.t + 1)]
    [] e.a = "Load" /\ e.rs = "ok"   -> [a |-> p, p |-> p]
    [] OTHER                         -> [a |-> a, p |-> p]      \* a failed call changes nothing

Probes == <<-1>> \o [q \in 1..(MaxH + 2) |-> q - 1]          \* heights probed by range requests: -1, 0..MaxH+1
Counts == <<1, 2, 3>>
ProbeQ(k) == Probes[((k - 1) \div 3) + 1]
ProbeN(k) == Counts[((k - 1) % 3) + 1]
NProbe == Len(Probes) * 3

\* C09: the answers, as predicates over an observation o and the abstract chain a
HeightOfA(a, x) == IF x \in Range0(a) THEN Pos(a, x) - 1 ELSE ERR
AnswersP(o, a) ==
  /\ o.h = Len(a) - 1 /\ o.tip = a[Len(a)] /\ o.hdtip = a[Len(a)] /\ o.bhtip = a[Len(a)]
  /\ \A q \in 1..(MaxH + 2) : IF q <= Len(a) THEN o.hs[q] = a[q] /\ o.hd[q] = a[q] /\ o.ts[q] = a[q]
                                ELSE o.hs[q] = ERR /\ o.hd[q] = ERR /\ o.ts[q] \in {ERR, NONE}
  /\ \A x \in 1..MaxId : o.ids[x] = HeightOfA(a, x)
NoCrashP(o) == /\ \A q \in 1..(MaxH + 2) : o.hs[q] # PANIC /\ o.hd[q] # PANIC /\ o.ts[q] # PANIC
               /\ \A j \in 1..Len(o.neg) : o.neg[j] # PANIC
               /\ \A k \in 1..NProbe : o.gh[k].first # PANIC
               /\ o.tip # PANIC /\ o.hdtip # PANIC /\ o.bhtip # PANIC
NegP(o) == \A j \in 1..Len(o.neg) : o.neg[j] \in {ERR, NONE, PANIC}       \* (a panic is reported by NoCrash)
RangeP(o, a) ==
  \A k \in 1..NProbe :
    LET q == ProbeQ(k)  n == ProbeN(k)  g == o.gh[k]  tip == Len(a) - 1 IN
    IF g.first = PANIC THEN TRUE                                             \* (reported by NoCrash)
    ELSE IF q = -1
    THEN LET c == MinI(n, R(tip) + 1)  x == RInv(R(tip) - c + 1) IN
         ~g.err /\ g.cnt = c /\ g.linked /\ g.first = (IF x = NOMAP THEN NOMAP ELSE a[x + 1])
    ELSE IF q <= tip
    THEN ~g.err /\ g.cnt = MinI(n, R(tip) - R(q) + 1) /\ g.first = a[q + 1] /\ g.linked
    ELSE g.cnt = 0
=============================================================================
