---- MODULE WireCases ----
(* C20: the hostile inputs as cases: every message type of the protocol (and the stored transaction record, code 0) in two   *)
(* value classes, every stored record kind of the node, each with every lie (a count / length claiming 65535, 2^32-1, 2^63,   *)
(* 2^64-1 elements in canonical varint form; for the stored records also the 32-bit values -1, 2^31-1, 2^27 and 2^31; 2^27 and 2^59 are counts whose byte size wraps around).  The harness puts   *)
(* the lie at every position of the valid encoding (tail kept, and tail cut) and decodes each input in a child process with a *)
(* limited address space.                                                                                                    *)
EXTENDS WireStream, Json, SequencesExt
Records == {"peers", "reorg", "unconfirmed", "txblock"}
Cases == {[t |-> t, c |-> c, lie |-> lie, rec |-> ""] : t \in Types, c \in {"one", "many"}, lie \in Lies}
   \cup {[t |-> -1, c |-> "", lie |-> lie, rec |-> rec] : rec \in Records, lie \in Lies \cup {"i32neg", "i32max", "i32p27", "i32p31"}}
ASSUME LET cs == SetToSeq(Cases) IN JsonSerialize("wire_cases.json", cs)
====
