SPECIFICATION Spec
CONSTANTS
  MaxSteps = 8
  MaxQ = 3
  MaxConn = 3
VIEW View
INVARIANTS DataAfterAccept AcceptOnce InOrder FlagMeansAccepted
CHECK_DEADLOCK FALSE
