---- MODULE MC_BlockRequests ----
EXTENDS BlockRequests
\* small tree: main chain 1-2-3-4, fork 2-5-6
ParSmall == <<0,1,2,3,2,5>>
\* mid tree: main chain 1..6, fork 2-7-8
ParMid == <<0,1,2,3,4,5,2,7>>
SizesSmall == {1,2}
SizesSim == {0,1,3}
\* code scale: main chain 1..12, fork 3-13-14
ParBig == <<0,1,2,3,4,5,6,7,8,9,10,11,3,13>>
View == <<req, toReq, pend, lastSaved>>
====
