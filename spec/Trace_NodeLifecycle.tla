---- MODULE Trace_NodeLifecycle ----
(* Strict trace validation for NodeLifecycle: after every environment step the observations of the peer, the handlers,   *)
(* the caller of Stop, the phase hooks of the run loop and the storage must be what the specification computes.          *)
EXTENDS MC_NodeLifecycle, Json
Tr == ndJsonDeserialize("impl.ndjson")
VARIABLES l, rej
tvars == <<vars, l, rej>>
Same(i) == LET s == Tr[i].st IN
  /\ run' = s.run /\ epoch' = s.epoch /\ hs' = s.hs /\ done' = s.done /\ (sync' = "yes") = s.insync /\ ntx' = s.ntx
  /\ gate' = s.gate /\ stopReq' = s.stopReq /\ stopRet' = s.stopRet /\ phases' = s.phases /\ saved' = s.saved /\ locTop' = s.locTop
Step1(e) == CASE e.a = "Accept" -> Accept [] e.a = "Version" -> Version [] e.a = "Headers" -> Headers(e.n) [] e.a = "Block" -> Block(e.k)
              [] e.a = "Tx" -> Tx [] e.a = "Close" -> Close(e.k) [] e.a = "Stop" -> Stop [] e.a = "Release" -> Release [] e.a = "Feed" -> Feed [] OTHER -> FALSE
TMatch == /\ l < Len(Tr) /\ Tr[l+1].act.a # "init" /\ Tr[l+1].skip = ""
          /\ Step1(Tr[l+1].act) /\ Same(l+1) /\ l' = l + 1 /\ UNCHANGED rej
TStart(i) == /\ run' = "connecting" /\ epoch' = 0 /\ hs' = FALSE /\ ann' = 0 /\ done' = 0 /\ sync' = "no" /\ ntx' = 0
             /\ gate' = "none" /\ pend' = "" /\ emitted' = 0 /\ stopReq' = FALSE /\ stopRet' = FALSE /\ phases' = <<>>
             /\ saved' = [tip |-> 0, utx |-> 0] /\ locTop' = -1 /\ fed' = FALSE /\ steps' = 0 /\ act' = A("init", 0, "") /\ l' = i
Begin == l < Len(Tr) /\ Tr[l+1].act.a = "init" /\ TStart(l+1) /\ UNCHANGED rej
NextInit(i) == IF \E j \in i..Len(Tr) : Tr[j].act.a = "init"
               THEN CHOOSE j \in i..Len(Tr) : Tr[j].act.a = "init" /\ \A k \in i..(j-1) : Tr[k].act.a # "init" ELSE 0
Resync == /\ l < Len(Tr) /\ Tr[l+1].act.a # "init" /\ ~ENABLED TMatch /\ rej' = Append(rej, l + 1)
          /\ LET j == NextInit(l + 1) IN IF j = 0 THEN l' = Len(Tr) /\ UNCHANGED vars ELSE TStart(j)
TraceSpec == Init /\ l = 0 /\ rej = <<>> /\ [][Begin \/ TMatch \/ Resync]_tvars
Done == (l = Len(Tr)) => JsonSerialize("trace_result.json", [lines |-> Len(Tr), rej |-> rej])
====
