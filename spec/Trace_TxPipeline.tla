---- MODULE Trace_TxPipeline ----
(* Strict trace validation for TxPipeline: every recorded step of the replay driver must be the specification's  *)
(* step, and the projected state of the real node (mempool, outpoint index, unconfirmed set, tx state records,  *)
(* channel, notifications) must be the state the specification computes.  The Checker's notifications may come   *)
(* in any order (the code iterates a map).                                                                       *)
EXTENDS MC_TxPipeline, Json

Tr == ndJsonDeserialize("impl.ndjson")
VARIABLES l, rej
tvars == <<vars, l, rej>>

MNote(n) == [k |-> n.k, t |-> n.t, safe |-> n.safe, unsafe |-> n.unsafe, canc |-> n.canc, proof |-> n.proof, depth |-> n.depth, pv |-> n.pv]
LDl(i) == [j \in 1..Len(Tr[i].st.dl) |-> MNote(Tr[i].st.dl[j])]
OutSeq == CHOOSE s \in [1..Cardinality(Outs) -> Outs] : \A a, b \in 1..Cardinality(Outs) : a < b => s[a] < s[b]
NewOf(s, n) == SubSeq(s, n + 1, Len(s))
BagOfSeq(s) == [x \in Range(s) |-> Cardinality({i \in 1..Len(s) : s[i] = x})]

Same(i) == LET s == Tr[i].st IN
  /\ mp' = [t \in Tx |-> s.mp[t]]
  /\ idx' = [o \in Outs |-> s.idx[CHOOSE k \in 1..Cardinality(Outs) : OutSeq[k] = o]]
  /\ un' = [t \in Tx |-> s.un[t]]
  /\ st' = [t \in Tx |-> s.st[t]]
  /\ q' = s.q /\ c'.pc = s.c.pc /\ c'.t = s.c.t
  /\ nblk' = s.nblk /\ clock' = s.clock /\ ready' = s.ready /\ orphd' = s.orphd

Step(e) == CASE e.a = "Arrive"   -> Arrive(e.t, e.s)
             [] e.a = "Inv"      -> Inv(e.t, e.s)
             [] e.a = "Tick"     -> Tick
             [] e.a = "ConsumeA" -> ConsumeA /\ act'.t = e.t
             [] e.a = "ConsumeB" -> ConsumeB /\ act'.t = e.t
             [] e.a = "Block"    -> Block /\ act'.t = e.t
             [] e.a = "Checker"  -> Checker
             [] e.a = "Restart"  -> Restart
             [] e.a = "Reorg"    -> Reorg /\ act'.t = e.t
             [] OTHER            -> FALSE

IsStutter(i) == Tr[i].skip # "" \/ Tr[i].act.a = "final"
Match == /\ l < Len(Tr) /\ Tr[l+1].act.a # "init"
         /\ IF IsStutter(l+1) THEN UNCHANGED vars ELSE Step(Tr[l+1].act)
         /\ Same(l+1)
         \* what this step delivered (the checker iterates a map: its notifications may come in any order, here and in the recorded prefix)
         /\ Len(dl') = Len(LDl(l+1))
         /\ IF Tr[l+1].act.a = "Checker"
            THEN BagOfSeq(NewOf(dl', Len(dl))) = BagOfSeq(NewOf(LDl(l+1), Len(dl)))
            ELSE NewOf(dl', Len(dl)) = NewOf(LDl(l+1), Len(dl))
         /\ l' = l + 1 /\ UNCHANGED rej

TStart(i) == /\ mp' = [t \in Tx |-> NoMp] /\ idx' = [o \in Outs |-> <<>>] /\ un' = [t \in Tx |-> NoUn]
             /\ st' = [t \in Tx |-> NoSt] /\ q' = <<>> /\ c' = IdleC /\ nblk' = 0
             /\ clock' = 0 /\ dl' = <<>> /\ arr' = 0 /\ restarts' = 0 /\ checks' = 0 /\ aborted' = FALSE /\ act' = A("init", 0, "")
             /\ ready' = TRUE /\ orphd' = <<>> /\ l' = i
Begin == l < Len(Tr) /\ Tr[l+1].act.a = "init" /\ TStart(l+1) /\ UNCHANGED rej
NextInit(i) == IF \E j \in i..Len(Tr) : Tr[j].act.a = "init"
               THEN CHOOSE j \in i..Len(Tr) : Tr[j].act.a = "init" /\ \A k \in i..(j-1) : Tr[k].act.a # "init"
               ELSE 0
Resync == /\ l < Len(Tr) /\ Tr[l+1].act.a # "init" /\ ~ENABLED Match
          /\ rej' = Append(rej, l + 1)
          /\ LET j == NextInit(l + 1) IN
             IF j = 0 THEN l' = Len(Tr) /\ UNCHANGED vars ELSE TStart(j)
TraceInit == Init /\ l = 0 /\ rej = <<>>
TraceNext == Begin \/ Match \/ Resync
TraceSpec == TraceInit /\ [][TraceNext]_tvars
Done == (l = Len(Tr)) => JsonSerialize("trace_result.json", [lines |-> Len(Tr), rej |-> rej])
====
