---- MODULE Sim_RemoteClient ----
EXTENDS MC_RemoteClient
Keys3 == {1, 2, 3}
SimSpec == Spec
====
