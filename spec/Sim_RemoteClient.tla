---- MODULE Sim_RemoteClient ----
EXTENDS MC_RemoteClient
Keys3 == {1, 2, 3}
Keys1 == {1}
SimSpec == Spec
\* a second family of random walks for the notification stream (C17): the handshake succeeds, few calls, many notifications
\* (TLC's simulator picks among successor states, so the many Call / Accept variants would otherwise crowd the notifications out)
NoteNext == \/ (~Stuck /\ \/ Accept("valid")
                          \/ (steps > 9 /\ \E v \in {"badsig", "replay"} : Accept(v))
                          \/ \E n \in 0..4 : Ready(n)
                          \/ \E n \in 2..3 : ReadyRace(n)
                          \/ \E k \in Slots, key \in Keys : Call(k, "GetTx", key) \/ Call(k, "GetHeaders", key)
                          \/ \E k \in Slots, f \in {"ok"} : Respond(k, f)
                          \/ \E kind \in {"tx", "upd", "insync", "hdrs"}, id \in 1..6 : Notify(kind, id)
                          \/ \E kind \in {"tx", "upd"} : Notify(kind, nextId)          \* the expected id twice as likely
                          \/ (\E b \in {7} : Burst(b))
                          \/ (steps > 9 /\ Stop))
            \/ (steps > 3 /\ Drop)
NoteSpec == Init /\ [][NoteNext]_vars
====
