SPECIFICATION PSpec
CONSTANTS
  K = 4
  MaxId = 14
  MaxH = 13
  RTop = 1000
  Rho <- RhoReal
INVARIANTS Done
CHECK_DEADLOCK FALSE
