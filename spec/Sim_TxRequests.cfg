SPECIFICATION SimSpec
CONSTANTS
  NT = 2
  NC = 3
  Win = 2
  MaxClock = 8
  MaxOps = 25
  Mut = ""
CHECK_DEADLOCK FALSE
