---- MODULE Sim_BlockRequests ----
(* Behaviour generator for replay at the code's own constants (W = 10): the same actions as  *)
(* BlockRequests, with the disruptive calls (clear, reset, set-last-hash) rate-limited by a  *)
(* cool-down so that random walks fill the window, queue blocks behind it and reach the      *)
(* byte limit.  The filter is inside Next (not a CONSTRAINT), as TLC's simulator requires.   *)
EXTENDS MC_BlockRequests
VARIABLES cd, period, greedy
svars == <<vars, cd, period, greedy>>

Lh == IF toReq # <<>> THEN Last(toReq) ELSE IF req # <<>> THEN Last(req).b ELSE lastSaved
Children(p) == {b \in Blocks : Par[b] = p}
Unfilled == {req[i].b : i \in {j \in 1..Len(req) : req[j].f = 0}}
Filled == {req[i].b : i \in {j \in 1..Len(req) : req[j].f = 1}}
Queued == {toReq[i] : i \in 1..Len(toReq)}

Calm ==  \/ \E b \in Children(Lh) : AddBlockRequest(b)
         \/ \E b \in Children(Lh) : AddBlockRequest(b)
         \/ \E b \in Blocks : b \notin Children(Lh) /\ (b + cd) % 7 = 0 /\ AddBlockRequest(b)
         \/ \E b \in Unfilled, s \in Sizes : (~greedy \/ s = 0) /\ AddBlock(b, s)
         \/ \E b \in Unfilled : (b + cd) % 2 = 0 /\ AddBlock(b, 0)
         \/ \E b \in Filled : (b + cd) % 3 = 0 /\ AddBlock(b, 1)
         \/ \E b \in Blocks : b \notin (Unfilled \cup Filled) /\ (b + cd) % 5 = 0 /\ AddBlock(b, 1)
         \/ (~greedy \/ Len(req) >= W \/ Children(Lh) = {}) /\ NextBlock
         \/ GetNext \/ GetNext
Disrupt == \/ ClearAll \/ Reset
           \/ \E b \in Filled \cup Unfilled \cup Queued : ClearAfter(b)
           \/ \E b \in {0, 3, lastSaved} \cup {Par[x] : x \in Children(Lh)} : SetLastHash(b)

SimInit == Init /\ cd = 0 /\ period \in {8, 20, 45} /\ greedy \in BOOLEAN
SimNext == \/ Calm /\ cd' = cd + 1 /\ UNCHANGED <<period, greedy>>
           \/ cd >= period /\ Disrupt /\ cd' = 0 /\ UNCHANGED <<period, greedy>>
SimSpec == SimInit /\ [][SimNext]_svars
====
