---- MODULE Props_ChainSync ----
(* Judgement on implementation traces of the replay driver: the C01 / C02 / C13 formulas of     *)
(* ChainSync evaluated on every recorded state (projection of the real node) and every step.    *)
EXTENDS MC_ChainSync, Json

Tr == ndJsonDeserialize("impl.ndjson")
St(i) == Tr[i].st
Lines == 1..Len(Tr)
Steps == {i \in Lines : i > 1 /\ Tr[i].act.a # "init"}

InverseP(s) == \A b \in 1..N : s.hts[b] = (IF b \in Range(s.chain) THEN (CHOOSE i \in 1..Len(s.chain) : s.chain[i] = b) ELSE 0 - 1)
AnnP(s, t) == Len(t.ann) > Len(s.ann) =>
                 /\ Len(t.ann) = Len(s.ann) + 1 /\ Len(t.chain) = Len(s.chain) + 1
                 /\ Last(t.ann) = Len(t.chain) /\ Last(t.annb) = Last(t.chain)
ConvP(i) == (Tr[i].fin /\ ~Tr[i].adv) => ConvergedP(St(i))
PanicP(i) == ~(Len(Tr[i].skip) >= 5 /\ SubSeq(Tr[i].skip, 1, 5) = "PANIC")
LoadOKP(i) == ~(Len(Tr[i].skip) >= 11 /\ SubSeq(Tr[i].skip, 1, 11) = "LOAD FAILED")
QuietP(i) == Tr[i].fin => (St(i).net = <<>> /\ St(i).out = <<>> /\ St(i).infl.pc = "idle")

\* C01: once in sync the node asks to be told about new tips by headers - on every connection (check() : sendheaders)
SendHdrsP(j) == (Tr[j].act.a = "Check" /\ Tr[j].skip = "" /\ St(j).inSync) => St(j).sendhdrs
\* C13: a block that sits unfilled in the download window has been asked for on this connection: its request or its answer is under way
InFlightP(s) == \A i \in 1..Len(s.req) : s.req[i].f = 0 =>
   \/ \E k \in 1..Len(s.out) : s.out[k].t = "gd" /\ s.out[k].b = s.req[i].b
   \/ \E k \in 1..Len(s.net) : s.net[k].t = "blk" /\ s.net[k].b = s.req[i].b
F(name, X) == {<<name, i>> : i \in X}
Bad == F("Linked", {j \in Lines : ~LinkedP(St(j))})
  \cup F("NoDupChain", {j \in Lines : ~NoDupP(St(j))})
  \cup F("WindowOK", {j \in Lines : ~WindowP(St(j))})
  \cup F("OrderedReq", {j \in Lines : ~OrderedReqP(St(j))})
  \cup F("Inverse", {j \in Lines : ~InverseP(St(j))})
  \cup F("GrowsAtTip", {j \in Steps : ~GrowsAtTipP(St(j-1), St(j))})
  \cup F("InSyncNotifyOK", {j \in Steps : ~NotifyP(St(j-1), St(j))})
  \cup F("AnnouncedContiguous", {j \in Steps : ~AnnP(St(j-1), St(j))})
  \cup F("Convergence", {j \in Lines : ~ConvP(j)})
  \cup F("SendHeadersInSync", {j \in Steps : ~SendHdrsP(j)})
  \cup F("RequestsInFlight", {j \in Lines : ~InFlightP(St(j))})
  \cup F("Quiescent", {j \in Lines : ~QuietP(j)})
  \cup F("NoPanic", {j \in Lines : ~PanicP(j)})
  \cup F("LoadOK", {j \in Lines : ~LoadOKP(j)})

ASSUME JsonSerialize("props_result.json", [lines |-> Len(Tr), bad |-> Bad])
PNext == UNCHANGED vars
PSpec == Init /\ [][PNext]_vars
====
