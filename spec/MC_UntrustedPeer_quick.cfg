SPECIFICATION Spec
CONSTANTS
  H = 12
  Delta = 6
  Txs <- Txs1
  Addrs <- Addrs1
  MaxSteps = 9
VIEW View
INVARIANTS Gated Order ScoreBound
PROPERTIES StepProps
CHECK_DEADLOCK FALSE
