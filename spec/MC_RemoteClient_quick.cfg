SPECIFICATION Spec
CONSTANTS
  NCalls = 2
  Keys <- Keys2
  Full = TRUE
  Big = TRUE
  MaxSteps = 5
  Subs <- SubsFew
  MaxNote = 4
  Fix <- NoFix
VIEW View
INVARIANTS Correlated Gated
PROPERTIES StepProps
CHECK_DEADLOCK FALSE
