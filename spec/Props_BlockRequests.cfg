SPECIFICATION PSpec
CONSTANTS
  N = 14
  Par <- ParBig
  W = 10
  MaxPend = 4
  Sizes <- SizesSim
  Mut = ""
CHECK_DEADLOCK FALSE
