SPECIFICATION SimSpec
CONSTANTS
  NB = 4
  MaxEpoch = 3
  MaxTx = 2
  MaxSteps = 18
  StopAfter = 0
CHECK_DEADLOCK FALSE
