SPECIFICATION SimSpec
CONSTANTS
  MaxSteps = 24
  MaxQ = 40
CHECK_DEADLOCK FALSE
