---- MODULE Props_Crash ----
(* C10, store level: every crash point (prefix of the recorded storage mutations of a BlockStore scenario) must load to a prefix *)
(* of the chain before or after the interrupted call -- the implementation-side image of the model invariant CrashSafe.        *)
EXTENDS Integers, Sequences, TLC, Json
Tr == ndJsonDeserialize("impl.ndjson")
Bad == {<<"CrashSafe", i>> : i \in {j \in 1..Len(Tr) : ~Tr[j].ok}}
ASSUME JsonSerialize("props_result.json", [lines |-> Len(Tr), bad |-> Bad])
VARIABLE x
Init == x = 0
Next == UNCHANGED x
Spec == Init /\ [][Next]_x
====
