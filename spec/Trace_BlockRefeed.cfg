SPECIFICATION TraceSpec
CONSTANTS
  H = 4
  MaxRefeed = 1000
  MaxSteps = 100000
  Fix <- NoFix
INVARIANTS Done
CHECK_DEADLOCK FALSE
