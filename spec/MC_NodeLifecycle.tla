---- MODULE MC_NodeLifecycle ----
EXTENDS NodeLifecycle
View == <<run, epoch, hs, ann, done, sync, ntx, gate, pend, emitted, stopReq, stopRet, phases, saved, locTop, fed, steps>>
====
