SPECIFICATION SimSpec
CONSTANTS
  NT = 4
  Ins <- Ins4
  Rel <- Rel4
  Blk <- Blk4
  Delay = 1
  MaxClock = 4
  Cap = 3
  MaxArr = 8
  MaxRestart = 1
  MaxCheck = 3
  MaxReorg = 0
  Sources <- Src5
  Race = FALSE
  Fix <- CodeFix
  Mut = ""
CHECK_DEADLOCK FALSE
