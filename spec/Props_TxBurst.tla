---- MODULE Props_TxBurst ----
(* C14 under real concurrency: TxRequests.tla models MemPool.AddRequest as one atomic step per caller, so simultaneous              *)
(* announcements (Inv(c, t) for every c at one clock value) and simultaneous periodic checks (Check(c) for every c) are            *)
(* interleavings, and in every interleaving a transaction is asked for exactly once per window (Exclusive, TrackedOrAsked,         *)
(* Rerequest - model-checked in MC_TxRequests).  These formulas are that consequence, evaluated on what the real connections       *)
(* put on the wire when their handlers / checks really ran at the same moment.                                                     *)
EXTENDS Integers, Sequences, TLC, Json
Tr == ndJsonDeserialize("impl.ndjson")
Lines == 1..Len(Tr)
F(name, X) == {<<name, i>> : i \in X}
Bad == F("ConcurrentExclusive", {i \in Lines : Tr[i].st.multi > 0})                \* some transaction was requested by two connections at once
  \cup F("ConcurrentAsked", {i \in Lines : Tr[i].st.none > 0})                     \* an announced (InvAll) / still missing (CheckAll) transaction was not requested at all
ASSUME JsonSerialize("props_result.json", [lines |-> Len(Tr), bad |-> Bad])
VARIABLE x
PSpec == x = 0 /\ [][UNCHANGED x]_x
====
