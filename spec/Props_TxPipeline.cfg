SPECIFICATION PSpec
CONSTANTS
  NT = 4
  Ins <- Ins4
  Rel <- Rel4
  Blk <- Blk4
  Delay = 1
  MaxClock = 1000
  Cap = 1000
  MaxArr = 1000
  MaxRestart = 1000
  MaxCheck = 1000
  MaxReorg = 1000
  Sources <- SrcAll
  Race = TRUE
  Fix <- CodeFix
  Mut = ""
INVARIANTS Done
CHECK_DEADLOCK FALSE
