SPECIFICATION SimSpec
CONSTANTS
  H = 4
  MaxRefeed = 2
  MaxSteps = 22
  Fix <- NoFix
CHECK_DEADLOCK FALSE
