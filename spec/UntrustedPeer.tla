---------------------------- MODULE UntrustedPeer ----------------------------
(***************************************************************************)
(* One untrusted connection (internal/spynode/untrusted_node.go,           *)
(* internal/state/untrusted_state.go, handlers/untrusted_*.go) from the    *)
(* connect to the stop, at the level of what the peer and the rest of the  *)
(* node observe.  Part of C12 (what an untrusted peer can make the node    *)
(* do) and growth beyond the list (peer scoring, broadcast).               *)
(*                                                                         *)
(*   Check        UntrustedNode.check : 318 - runs at the top of every     *)
(*                iteration of monitorIncoming : 268, before the read      *)
(*   Recv(m)      one message read and handled (handleMessage : 452); a    *)
(*                handler error costs the peer a point and ends the        *)
(*                connection (: 303-306)                                   *)
(*   Broadcast(t) Node.BroadcastTx -> UntrustedNode.BroadcastTxs : 232     *)
(*   Expire       monitorRequestTimeouts : 399 (handshake 30 s, headers    *)
(*                60 s, state/timeouts.go)                                 *)
(*   Stop         UntrustedNode.Stop : 214                                 *)
(*                                                                         *)
(* The stored chain is 0..H; a headers message is abstracted to the height *)
(* of its first header in the stored chain (-1: unknown), whether the      *)
(* headers are linked, and whether the list is empty.                      *)
(***************************************************************************)
EXTENDS Integers, Sequences, FiniteSets, TLC

CONSTANTS H,            \* height of the stored chain
          Delta,        \* handlers.UntrustedHeaderDelta (6)
          Txs,          \* transaction ids
          Addrs,        \* peer addresses an addr message may carry
          MaxSteps

VARIABLES ver,          \* version message received
          hsk,          \* "handshake complete": the header request has been queued
          hreq,         \* a header request is outstanding (time-out armed)
          verified,     \* the peer has been verified to be on this node's chain
          scored,       \* the +5 for a verified peer has been given
          addrReq, mpReq,
          stopping,
          score,        \* the peer's score in the peer repository (starts at 0)
          known,        \* addresses in the peer repository (besides this peer)
          out,          \* what the node has queued for the peer, in order
          pend,         \* transactions waiting for the peer to become ready
          chan,         \* transactions handed to the node's tx channel (as untrusted)
          asked,        \* txids this connection has requested
          tracked,      \* txids announced here while requested elsewhere / already requested
          pc,           \* where the read loop is: "top" (about to run check()) or "read" (waiting for a message)
          steps, act

vars == <<ver, hsk, hreq, verified, scored, addrReq, mpReq, stopping, score, known, out, pend, chan, asked, tracked, pc, steps, act>>

Msg(t, x) == [t |-> t, x |-> x]
\* headers messages: [first |-> height of the first header in the stored chain or -1, linked, n |-> number of headers]
HdrKinds == {[first |-> f, linked |-> l, n |-> n] : f \in {-1, 0, H - Delta - 2, H - Delta - 1, H - 1, H}, l \in BOOLEAN, n \in {0, 1, 3}}
A(a, m) == [a |-> a, m |-> m]
NoMsg == Msg("", 0)

Init == /\ ver = FALSE /\ hsk = FALSE /\ hreq = FALSE /\ verified = FALSE /\ scored = FALSE /\ addrReq = FALSE /\ mpReq = FALSE
        /\ stopping = FALSE /\ score = 0 /\ known = {} /\ out = <<>> /\ pend = <<>> /\ chan = <<>> /\ asked = {} /\ tracked = {}
        /\ pc = "top" /\ steps = 0 /\ act = A("init", NoMsg)

Step == steps < MaxSteps /\ steps' = steps + 1 /\ ~stopping

(* untrusted_node.go:318 check() *)
Check ==
  /\ Step /\ pc = "top" /\ pc' = "read"
  /\ IF ~ver THEN UNCHANGED <<hsk, hreq, scored, addrReq, mpReq, score, out, pend>>
     ELSE LET out1 == IF hsk THEN out ELSE Append(out, Msg("getheaders", H - Delta))     \* locator starts Delta blocks below the tip
          IN /\ hsk' = TRUE /\ hreq' = (hreq \/ ~hsk)
             /\ IF ~verified THEN out' = out1 /\ UNCHANGED <<scored, addrReq, mpReq, score, pend>>
                ELSE /\ scored' = TRUE /\ score' = (IF scored THEN score ELSE score + 5)
                     /\ addrReq' = TRUE /\ mpReq' = TRUE /\ pend' = <<>>
                     /\ out' = out1 \o (IF addrReq THEN <<>> ELSE <<Msg("getaddr", 0)>>)
                                    \o [i \in 1..Len(pend) |-> Msg("tx", pend[i])]
                                    \o (IF mpReq THEN <<>> ELSE <<Msg("mempool", 0)>>)
  /\ act' = A("Check", NoMsg)
  /\ UNCHANGED <<ver, verified, stopping, known, chan, asked, tracked>>

\* handler error: monitorIncoming takes a point off the peer and stops the connection
Fail(extra) == /\ stopping' = TRUE /\ score' = score - extra
               /\ UNCHANGED <<ver, hsk, hreq, verified, scored, addrReq, mpReq, known, out, pend, chan, asked, tracked>>

Unlinked(h) == h.n >= 2 /\ ~h.linked
GoodHeaders(h) == h.n > 0 /\ h.first >= 0 /\ h.first >= H - Delta - 1 /\ ~Unlinked(h)
Rd == Step /\ pc = "read" /\ pc' = "top"      \* one message is read and handled; the loop returns to its top

RecvVersion ==
  /\ Rd /\ ver' = TRUE /\ out' = Append(out, Msg("verack", 0))
  /\ act' = A("Recv", Msg("version", 0))
  /\ UNCHANGED <<hsk, hreq, verified, scored, addrReq, mpReq, stopping, score, known, pend, chan, asked, tracked>>

RecvHeaders(h) ==        \* handlers/untrusted_headers.go
  /\ Rd /\ act' = A("Recv", Msg("headers", h))
  /\ IF verified THEN UNCHANGED <<ver, hsk, hreq, verified, scored, addrReq, mpReq, stopping, score, known, out, pend, chan, asked, tracked>>
     ELSE IF h.n = 0 \/ h.first < 0 THEN Fail(1)                  \* zero headers / unknown first header
     ELSE IF h.first < H - Delta - 1 THEN Fail(2)                 \* too far below the tip: the handler takes a point as well
     ELSE IF Unlinked(h) THEN Fail(1)
     ELSE /\ verified' = TRUE /\ hreq' = FALSE
          /\ UNCHANGED <<ver, hsk, scored, addrReq, mpReq, stopping, score, known, out, pend, chan, asked, tracked>>

RecvInv(t) ==            \* handlers/untrusted_inventory.go; the mempool is this connection's only requester here
  /\ Rd /\ act' = A("Recv", Msg("inv", t))
  /\ IF ~verified THEN UNCHANGED <<out, asked, tracked>>
     ELSE IF t \in asked THEN tracked' = tracked \cup {t} /\ UNCHANGED <<out, asked>>
     ELSE asked' = asked \cup {t} /\ out' = Append(out, Msg("getdata", t)) /\ UNCHANGED tracked
  /\ UNCHANGED <<ver, hsk, hreq, verified, scored, addrReq, mpReq, stopping, score, known, pend, chan>>

RecvTx(t) ==             \* handlers/untrusted_transaction.go
  /\ Rd /\ act' = A("Recv", Msg("tx", t))
  /\ chan' = IF verified THEN Append(chan, t) ELSE chan
  /\ UNCHANGED <<ver, hsk, hreq, verified, scored, addrReq, mpReq, stopping, score, known, out, pend, asked, tracked>>

RecvAddr(a) ==           \* handlers/address.go: new addresses enter the repository with score 0
  /\ Rd /\ act' = A("Recv", Msg("addr", a))
  /\ known' = known \cup {a}
  /\ UNCHANGED <<ver, hsk, hreq, verified, scored, addrReq, mpReq, stopping, score, out, pend, chan, asked, tracked>>

RecvPing ==
  /\ Rd /\ act' = A("Recv", Msg("ping", 0))
  /\ out' = Append(out, Msg("pong", 0))
  /\ UNCHANGED <<ver, hsk, hreq, verified, scored, addrReq, mpReq, stopping, score, known, pend, chan, asked, tracked>>

RecvBlock ==             \* block messages of untrusted connections have no handler (F4)
  /\ Rd /\ act' = A("Recv", Msg("block", 0))
  /\ UNCHANGED <<ver, hsk, hreq, verified, scored, addrReq, mpReq, stopping, score, known, out, pend, chan, asked, tracked>>

RecvUnknown ==           \* a command this node does not know: skipped (: 289)
  /\ Rd /\ act' = A("Recv", Msg("unknown", 0))
  /\ UNCHANGED <<ver, hsk, hreq, verified, scored, addrReq, mpReq, stopping, score, known, out, pend, chan, asked, tracked>>

RecvGarbage ==           \* a message that does not parse ends the connection; it costs the peer nothing (: 291-299)
  /\ Rd /\ act' = A("Recv", Msg("garbage", 0))
  /\ stopping' = TRUE
  /\ UNCHANGED <<ver, hsk, hreq, verified, scored, addrReq, mpReq, score, known, out, pend, chan, asked, tracked>>

(* untrusted_node.go:232 BroadcastTxs: written at once when the peer is ready, and kept for the next check() in any case - *)
(* a ready peer gets the transaction twice (deliberately modelled as the code is; harmless on the Bitcoin network)          *)
Broadcast(t) ==
  /\ Step /\ Len(pend) < 2 /\ act' = A("Broadcast", Msg("tx", t))
  /\ out' = IF verified THEN Append(out, Msg("tx", t)) ELSE out
  /\ pend' = Append(pend, t)
  /\ UNCHANGED <<pc, ver, hsk, hreq, verified, scored, addrReq, mpReq, stopping, score, known, chan, asked, tracked>>

Expire ==                \* the handshake (30 s) or the header request (60 s) timed out
  /\ Step /\ (~hsk \/ hreq) /\ act' = A("Expire", NoMsg)
  /\ Fail(1) /\ UNCHANGED pc

Stop == /\ Step /\ stopping' = TRUE /\ act' = A("Stop", NoMsg)
        /\ UNCHANGED <<pc, ver, hsk, hreq, verified, scored, addrReq, mpReq, score, known, out, pend, chan, asked, tracked>>

Next == \/ Check \/ RecvVersion \/ RecvPing \/ RecvBlock \/ RecvUnknown \/ RecvGarbage \/ Expire \/ Stop
        \/ \E h \in HdrKinds : RecvHeaders(h)
        \/ \E t \in Txs : RecvInv(t) \/ RecvTx(t) \/ Broadcast(t)
        \/ \E a \in Addrs : RecvAddr(a)
Spec == Init /\ [][Next]_vars

-----------------------------------------------------------------------------
(* properties, over a state record so that they can be evaluated on recorded implementation states *)
S == [ver |-> ver, hsk |-> hsk, hreq |-> hreq, verified |-> verified, scored |-> scored, stopping |-> stopping, score |-> score,
      known |-> known, out |-> out, pend |-> pend, chan |-> chan]
Kinds(s, k) == {i \in 1..Len(s.out) : s.out[i].t = k}

\* C12: nothing is requested from, and nothing is accepted from, a peer that has not been verified
GatedP(s) == ~s.verified => (s.chan = <<>> /\ Kinds(s, "getdata") = {} /\ Kinds(s, "mempool") = {} /\ Kinds(s, "tx") = {})
\* C12: the only way to become verified is a non-empty, linked headers message that starts in the stored chain near its tip
VerifyP(s, t, e) == (t.verified /\ ~s.verified) => (e.a = "Recv" /\ e.m.t = "headers" /\ GoodHeaders(e.m.x))
\* once verified the header request is answered: a verified peer is not timed out for it
ClearP(s, t, e) == (t.verified /\ ~s.verified) => ~t.hreq
BadHeadersP(s, t, e) == (e.a = "Recv" /\ e.m.t = "headers" /\ ~s.verified /\ ~GoodHeaders(e.m.x)) => (t.stopping /\ t.score < s.score /\ ~t.verified)
\* the peer's score: +5 once per connection and only when verified; any other change is a loss; never above 5 per connection
ScoreP(s, t, e) == /\ (t.score > s.score => (t.score = s.score + 5 /\ s.verified /\ ~s.scored /\ t.scored /\ e.a = "Check"))
                   /\ (t.score < s.score => t.stopping)
ScoreBound == score <= 5
\* handshake order: verack answers version; the header request follows the version, once
OrderP(s) == /\ Cardinality(Kinds(s, "getheaders")) <= 1
             /\ (Kinds(s, "getheaders") # {} => s.ver)
             /\ (\A i \in Kinds(s, "getaddr") \cup Kinds(s, "mempool") : \E j \in Kinds(s, "getheaders") : j < i)
             /\ Cardinality(Kinds(s, "getaddr")) <= 1 /\ Cardinality(Kinds(s, "mempool")) <= 1
\* a stopped connection does nothing (every action is disabled by Step; on the code: the state does not change)
\* broadcast: what was handed over is written once the peer is ready and check() has run
FlushP(s, t, e) == (e.a = "Check" /\ s.verified /\ s.ver) => (t.pend = <<>> /\ \A i \in 1..Len(s.pend) : \E j \in Kinds(t, "tx") : j > Len(s.out) /\ t.out[j].x = s.pend[i])
\* an untrusted peer cannot add a verified peer: addresses enter with score 0 and its own score is not changed by them
AddrP(s, t, e) == (e.a = "Recv" /\ e.m.t = "addr") => (t.score = s.score /\ t.known = s.known \cup {e.m.x})
Gated == GatedP(S)
Order == OrderP(S)
StepProps == [][VerifyP(S, S', act') /\ ClearP(S, S', act') /\ BadHeadersP(S, S', act') /\ ScoreP(S, S', act') /\ FlushP(S, S', act') /\ AddrP(S, S', act')]_vars
=============================================================================
