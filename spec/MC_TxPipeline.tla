---- MODULE MC_TxPipeline ----
EXTENDS TxPipeline
\* three transactions: 1 and 2 double-spend outpoint 1 (both relevant), 3 spends outpoint 2 (not relevant); one block <<2,3>>
Ins3 == <<{1}, {1}, {2}>>
Rel3 == <<TRUE, TRUE, FALSE>>
Rel3b == <<TRUE, FALSE, FALSE>>     \* the double spend of the relevant transaction 1 is itself not relevant
Blk3 == << <<2, 3>> >>
\* four transactions: 1,2 conflict on outpoint 1; 3 spends outpoints 1 and 2 (partial overlap); 4 spends outpoint 3; two blocks
Ins4 == <<{1}, {1}, {1, 2}, {3}>>
Rel4 == <<TRUE, TRUE, TRUE, TRUE>>
Rel4b == <<TRUE, FALSE, TRUE, TRUE>>
Blk4 == << <<2>>, <<4, 3>> >>
Blk4b == << <<1, 4>>, <<2>> >>
NoFix == {}
CodeFix == {"reannounce", "staleproof", "neverboth"}     \* the repairs made in the code (fix: commits 11f1c4b, 2a4d66a, 9c74d8c)
OldFix == {"reannounce"}
AllFix == {"reannounce", "race", "staleproof", "neverboth"}
View == <<mp, idx, un, st, q, c, nblk, clock, arr, restarts, checks, aborted, ready, orphd>>
\* reorganisation universe: 1 relevant, 2 conflicts with 1, 3 independent; block 1 = <<1>>, its replacement <<1, 3>> or <<2>>
BlkR == << <<1>>, <<1, 3>> >>
BlkR2 == << <<1, 3>>, <<2>> >>
====
