---- MODULE MC_TxPipeline ----
EXTENDS TxPipeline
\* three transactions: 1 and 2 double-spend outpoint 1 (both relevant), 3 spends outpoint 2 (not relevant); one block <<2,3>>
Ins3 == <<{1}, {1}, {2}>>
Rel3 == <<TRUE, TRUE, FALSE>>
Rel3b == <<TRUE, FALSE, FALSE>>     \* the double spend of the relevant transaction 1 is itself not relevant
Blk3 == << <<2, 3>> >>
\* four transactions: 1,2 conflict on outpoint 1; 3 spends outpoints 1 and 2 (partial overlap); 4 spends outpoint 3; two blocks
Ins4 == <<{1}, {1}, {1, 2}, {3}>>
Rel4 == <<TRUE, TRUE, TRUE, TRUE>>
Rel4b == <<TRUE, FALSE, TRUE, TRUE>>
Blk4 == << <<2>>, <<4, 3>> >>
Blk4b == << <<1, 4>>, <<2>> >>
\* five transactions over three outpoints: 1 spends o1, 2 spends o2, 3 spends o2 and o3, 4 (in the block) spends o3 and evicts 3,
\* 5 spends o1 and o2 (conflicts on two inputs with two different transactions)
Ins5 == <<{1}, {2}, {2, 3}, {3}, {1, 2}>>
Rel5 == <<TRUE, TRUE, TRUE, TRUE, TRUE>>
Blk5 == << <<4>> >>
\* parents and children: output 51 is "output 0 of transaction 1" (the node can resolve it from its own records once it holds 1):
\* 2 spends outpoint 2 and 1's output, 3 spends 1's output (conflicts with 2), 4 spends outpoint 2 (conflicts with 2)
InsP == <<{1}, {2, 51}, {51}, {2}>>
RelP == <<TRUE, TRUE, TRUE, TRUE>>
BlkP == << <<1>>, <<3>> >>
\* four transactions on one outpoint: three of them can be in the mempool when the fourth is confirmed
InsQ == <<{1}, {1}, {1}, {1}>>
RelQ == <<TRUE, TRUE, TRUE, TRUE>>
BlkQ == << <<4>> >>
SrcTT == {"TT"}
Src5 == {"TT", "UT", "LOC", "TX", "UX"}
SrcAll == {"TT", "UT", "LOC", "TX", "UX", "NU", "NX"}
NoFix == {}
CodeFix == {"reannounce", "staleproof", "neverboth"}     \* the repairs made in the code (fix: commits 11f1c4b, 2a4d66a, 9c74d8c)
OldFix == {"reannounce"}
AllFix == {"reannounce", "race", "staleproof", "neverboth"}
View == <<mp, idx, un, st, q, c, nblk, clock, arr, restarts, checks, aborted, ready, orphd>>
\* reorganisation universe: 1 relevant, 2 conflicts with 1, 3 independent; block 1 = <<1>>, its replacement <<1, 3>> or <<2>>
BlkR == << <<1>>, <<1, 3>> >>
BlkR2 == << <<1, 3>>, <<2>> >>
====
