SPECIFICATION Spec
CONSTANTS
  N = 8
  Par <- ParMid
  W = 4
  MaxPend = 2
  Sizes <- SizesSmall
  Mut = ""
VIEW View
INVARIANTS Window Bytes ChainOrder UnfilledZero
PROPERTIES StepProps
CHECK_DEADLOCK FALSE
