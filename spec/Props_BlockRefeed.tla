---- MODULE Props_BlockRefeed ----
EXTENDS MC_BlockRefeed, Json
Tr == ndJsonDeserialize("impl.ndjson")
Lines == 1..Len(Tr)
Pairs(s) == [i \in 1..Len(s) |-> <<s[i][1], s[i][2]>>]
St(i) == [provided |-> Pairs(Tr[i].st.provided), next |-> Tr[i].st.next]
F(name, X) == {<<name, i>> : i \in X}
Bad == F("OwnBlock", {i \in Lines : ~OwnBlockP(St(i))})
  \cup F("InOrder", {i \in Lines : ~InOrderP(St(i))})
  \cup F("RefeedDelivers", {i \in Lines : \E k \in 1..Len(Tr[i].st.provided) :      \* a provided block hands over its relevant transaction
          LET p == Tr[i].st.provided[k] IN p[1] = p[2] /\ ~\E j \in 1..Len(Tr[i].st.delivered) : Tr[i].st.delivered[j] \in {p[2], 0 - p[2]}})
  \cup F("NoPanic", {i \in Lines : Len(Tr[i].skip) >= 5 /\ SubSeq(Tr[i].skip, 1, 5) = "PANIC"})
ASSUME JsonSerialize("props_result.json", [lines |-> Len(Tr), bad |-> Bad])
PSpec == Init /\ [][UNCHANGED vars]_vars
====
