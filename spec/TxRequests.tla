---------------------------- MODULE TxRequests ----------------------------
(***************************************************************************)
(* Requesting announced transactions (property C14).                       *)
(*   state/mempool.go     AddRequest (request window of 3 s)               *)
(*   state/tx_tracker.go  Add, Check, RemoveList                           *)
(*   handlers/inventory.go, untrusted_inventory.go  (Inv)                  *)
(*   spynode/transactions.go:37 tracker.Remove + MemPool.AddTransaction    *)
(*                          (Body)                                         *)
(*   spynode/node.go:749 CleanupBlock, blocks.go RemoveTransaction         *)
(*                          (Confirm)                                      *)
(* Connection 0 is the trusted one.  One clock tick is 2 s, the request    *)
(* window of 3 s is therefore over after Win = 2 ticks.                    *)
(***************************************************************************)
EXTENDS Integers, Sequences, FiniteSets, TLC
CONSTANTS NT, NC, Win, MaxClock, MaxOps, Mut
Tx == 1..NT
Conn == 0..(NC - 1)
VARIABLES body,    \* [Tx -> BOOLEAN] the mempool holds the transaction
          reqAt,   \* [Tx -> Int] clock of the active request, -1 = none
          trk,     \* [Conn -> SUBSET Tx] announced by that connection, not requested from it
          clock, ops,
          asked,   \* history: sequence of [c, t, at, had]
          forgot,  \* history: per tx, the clocks at which it was confirmed in a processed block
          act
vars == <<body, reqAt, trk, clock, ops, asked, forgot, act>>
A(a, c, t) == [a |-> a, c |-> c, t |-> t]

\* MemPool.AddRequest: <<alreadyHave, shouldRequest, reqAt'>>
AddRequest(t, ra) ==
  IF body[t] THEN <<TRUE, FALSE, ra>>
  ELSE IF ra[t] = -1 \/ clock - ra[t] >= (IF Mut = "WindowShort" THEN Win - 1 ELSE Win)
  THEN <<FALSE, TRUE, [ra EXCEPT ![t] = clock]>>
  ELSE <<FALSE, FALSE, ra>>

Ask(c, t) == [c |-> c, t |-> t, at |-> clock, had |-> body[t]]

Inv(c, t) ==     \* inventory item t on connection c
  /\ ops < MaxOps /\ ops' = ops + 1
  /\ LET r == AddRequest(t, reqAt) IN
     /\ reqAt' = r[3]
     /\ IF r[1] THEN UNCHANGED <<trk, asked>>
        ELSE IF r[2] THEN asked' = Append(asked, Ask(c, t)) /\ UNCHANGED trk
        ELSE trk' = [trk EXCEPT ![c] = @ \cup {t}] /\ UNCHANGED asked
  /\ act' = A("Inv", c, t) /\ UNCHANGED <<body, clock, forgot>>

Body(t) ==       \* the transaction arrives and is consumed
  /\ ops < MaxOps /\ ops' = ops + 1
  /\ body' = [body EXCEPT ![t] = TRUE] /\ reqAt' = [reqAt EXCEPT ![t] = -1]
  /\ trk' = [trk EXCEPT ![0] = @ \ {t}]
  /\ act' = A("Body", 0, t) /\ UNCHANGED <<clock, asked, forgot>>

RECURSIVE CheckFold(_, _, _, _, _)
CheckFold(c, ts, ra, keep, out) ==       \* returns <<reqAt, kept, asks>>
  IF ts = {} THEN <<ra, keep, out>>
  ELSE LET t == CHOOSE x \in ts : \A y \in ts : x <= y
           r == AddRequest(t, ra)
       IN IF r[1] THEN CheckFold(c, ts \ {t}, r[3], keep, out)
          ELSE IF r[2] THEN CheckFold(c, ts \ {t}, r[3], keep, Append(out, Ask(c, t)))
          ELSE CheckFold(c, ts \ {t}, r[3], keep \cup {t}, out)

Check(c) ==      \* periodic check of connection c: TxTracker.Check
  /\ ops < MaxOps /\ ops' = ops + 1
  /\ LET r == CheckFold(c, trk[c], reqAt, {}, <<>>) IN
     /\ reqAt' = r[1] /\ trk' = [trk EXCEPT ![c] = r[2]]
     /\ asked' = IF Mut = "NoTransmit" THEN asked ELSE asked \o r[3]
  /\ act' = A("Check", c, 0) /\ UNCHANGED <<body, clock, forgot>>

Confirm(t) ==    \* a processed block contains t
  /\ ops < MaxOps /\ ops' = ops + 1
  /\ body' = [body EXCEPT ![t] = FALSE] /\ reqAt' = [reqAt EXCEPT ![t] = -1]
  /\ trk' = [c \in Conn |-> trk[c] \ {t}]
  /\ forgot' = [forgot EXCEPT ![t] = @ \cup {clock}]
  /\ act' = A("Confirm", 0, t) /\ UNCHANGED <<clock, asked>>

\* the block that contains t is processed while the node is out of sync (after a header of the trusted peer that did not connect):
\* the trackers forget t all the same (Node.CleanupBlock).  blocks.go:287 removes the block's transactions from the mempool only
\* while in sync; a transaction whose body is held is removed anyway, as a spender of its own inputs (MemPool.Conflicting : 294);
\* one that was only announced keeps its entry and its request time
ConfirmOos(t) ==
  /\ ops < MaxOps /\ ops' = ops + 1
  /\ trk' = [c \in Conn |-> trk[c] \ {t}]
  /\ body' = [body EXCEPT ![t] = FALSE] /\ reqAt' = [reqAt EXCEPT ![t] = IF body[t] THEN -1 ELSE @]
  /\ forgot' = [forgot EXCEPT ![t] = @ \cup {clock}]
  /\ act' = A("ConfirmOos", 0, t) /\ UNCHANGED <<clock, asked>>

Tick == /\ clock < MaxClock /\ clock' = clock + 1 /\ act' = A("Tick", 0, 0)
        /\ UNCHANGED <<body, reqAt, trk, ops, asked, forgot>>

Init == /\ body = [t \in Tx |-> FALSE] /\ reqAt = [t \in Tx |-> -1] /\ trk = [c \in Conn |-> {}]
        /\ clock = 0 /\ ops = 0 /\ asked = <<>> /\ forgot = [t \in Tx |-> {}] /\ act = A("init", 0, 0)
Next == \/ \E c \in Conn, t \in Tx : Inv(c, t)
        \/ \E t \in Tx : Body(t) \/ Confirm(t) \/ ConfirmOos(t)
        \/ \E c \in Conn : Check(c)
        \/ Tick
Spec == Init /\ [][Next]_vars

(* properties over the ask history h and the state *)
ExclusiveP(h, fg) == \A i, j \in 1..Len(h) :
   (i < j /\ h[i].t = h[j].t) => (h[j].at - h[i].at >= Win \/ \E f \in fg[h[i].t] : f >= h[i].at /\ f <= h[j].at)
NoneAfterBodyP(h) == \A i \in 1..Len(h) : ~h[i].had
Exclusive == ExclusiveP(asked, forgot)
NoneAfterBody == NoneAfterBodyP(asked)
\* step properties: s = state before, t = state after, e = the action
RerequestP(s, t, e) == (e.a = "Check") =>
   \A x \in s.trk[e.c] : (~s.body[x] /\ (s.reqAt[x] = -1 \/ s.clock - s.reqAt[x] >= Win))
        => \E i \in (Len(s.asked) + 1)..Len(t.asked) : t.asked[i].c = e.c /\ t.asked[i].t = x
ForgottenP(s, t, e) == (e.a \in {"Confirm", "ConfirmOos"}) => \A c \in Conn : e.t \notin t.trk[c]
TrackedOrAskedP(s, t, e) == (e.a = "Inv" /\ ~s.body[e.t]) =>
   \/ \E i \in (Len(s.asked) + 1)..Len(t.asked) : t.asked[i].c = e.c /\ t.asked[i].t = e.t
   \/ e.t \in t.trk[e.c]
S == [body |-> body, reqAt |-> reqAt, trk |-> trk, clock |-> clock, asked |-> asked]
StepProps == [][RerequestP(S, S', act') /\ ForgottenP(S, S', act') /\ TrackedOrAskedP(S, S', act')]_vars
=============================================================================
