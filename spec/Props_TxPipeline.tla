---- MODULE Props_TxPipeline ----
(* Judgement on implementation traces: the C03-C07/C11 formulas of TxPipeline evaluated with every variable set  *)
(* to the recorded projection of the real node (free trace specification), plus the Go-side facts the formulas   *)
(* consume (merkle proof verified independently, spent outputs, stored copy).                                    *)
EXTENDS MC_TxPipeline, Json

Tr == ndJsonDeserialize("impl.ndjson")
VARIABLES l, bad
pvars == <<vars, l, bad>>
MNote(n) == [k |-> n.k, t |-> n.t, safe |-> n.safe, unsafe |-> n.unsafe, canc |-> n.canc, proof |-> n.proof, depth |-> n.depth, pv |-> n.pv]
LDl(i) == [j \in 1..Len(Tr[i].st.dl) |-> MNote(Tr[i].st.dl[j])]
OutSeq == CHOOSE s \in [1..Cardinality(Outs) -> Outs] : \A a, b \in 1..Cardinality(Outs) : a < b => s[a] < s[b]

Load(i) == LET s == Tr[i].st IN
  /\ mp' = [t \in Tx |-> s.mp[t]]
  /\ idx' = [o \in Outs |-> s.idx[CHOOSE k \in 1..Cardinality(Outs) : OutSeq[k] = o]]
  /\ un' = [t \in Tx |-> s.un[t]] /\ st' = [t \in Tx |-> s.st[t]]
  /\ q' = s.q /\ c' = [IdleC EXCEPT !.pc = s.c.pc, !.t = s.c.t]
  /\ nblk' = s.nblk /\ clock' = s.clock /\ dl' = LDl(i) /\ arr' = s.arr /\ restarts' = s.restarts /\ checks' = s.checks
  /\ aborted' = FALSE /\ ready' = s.ready /\ orphd' = s.orphd /\ act' = A(Tr[i].act.a, Tr[i].act.t, Tr[i].act.s)

\* formulas that need the Go-side facts or the previous line
FactsP(i) == \A j \in 1..Len(Tr[i].st.dl) : Tr[i].st.dl[j].pv
OutsP(i) == \A j \in 1..Len(Tr[i].st.dl) : Tr[i].st.dl[j].outs
StoredCopyP(i) == Tr[i].st.gettx
StartsWith(x, p) == Len(x) >= Len(p) /\ SubSeq(x, 1, Len(p)) = p
NoPanicP(i) == ~StartsWith(Tr[i].skip, "PANIC")
NoErrorP(i) == ~StartsWith(Tr[i].skip, "ProcessBlock") /\ ~StartsWith(Tr[i].skip, "processUnconfirmedTx")
\* a block step delivers a proof for every relevant transaction of that block, in that step (C04), and the chain advances (C06)
BlockStepP(i) == (Tr[i].act.a = "Block" /\ Tr[i].skip = "") =>
   /\ Tr[i].st.height = Tr[i-1].st.height + 1
   /\ \A k \in 1..Len(Blk[Tr[i].act.t]) : LET t == Blk[Tr[i].act.t][k] IN
        Rel[t] => \E j \in (Len(Tr[i-1].st.dl) + 1)..Len(Tr[i].st.dl) : Tr[i].st.dl[j].t = t /\ Tr[i].st.dl[j].proof /\ Tr[i].st.dl[j].depth = 0
\* C06: a block that confirms a double spend of a delivered unconfirmed relevant transaction cancels it in that step
CancelP(i) == (Tr[i].act.a = "Block" /\ Tr[i].skip = "" /\ Tr[i].st.restarts = 0) =>      \* (the mempool does not survive a restart)
   \A t1 \in Tx : \A k \in 1..Len(Blk[Tr[i].act.t]) : LET t2 == Blk[Tr[i].act.t][k]  p == Tr[i-1].st IN
      (t1 # t2 /\ Ins[t1] \cap Ins[t2] # {} /\ p.st[t1].has /\ ~p.st[t1].proof /\ ~p.st[t1].canc /\ p.un[t1].in
         /\ t1 \notin Range(Blk[Tr[i].act.t]))
      => /\ \E j \in (Len(p.dl) + 1)..Len(Tr[i].st.dl) : LET n == Tr[i].st.dl[j] IN n.t = t1 /\ n.canc /\ n.unsafe /\ ~n.safe
         /\ Tr[i].st.mp[t1].st # "body"

\* C07: when the checker runs, every transaction that is eligible (tracked, trusted, no conflict, delay elapsed) is reported safe
SafeEventuallyP(i) == (Tr[i].act.a = "Checker" /\ Tr[i].skip = "") =>
   \A t \in Tx : LET p == Tr[i-1].st IN
      (p.un[t].in /\ ~p.un[t].safe /\ ~p.un[t].unsafe /\ p.un[t].t0 + Delay < p.clock /\ (p.un[t].tr \/ p.mp[t].tr)
         /\ p.st[t].has /\ ~p.st[t].unsafe /\ ~p.st[t].canc)
      => \E j \in (Len(p.dl) + 1)..Len(Tr[i].st.dl) : LET n == Tr[i].st.dl[j] IN n.t = t /\ n.safe /\ ~n.unsafe
\* C11: a clean restart keeps the unconfirmed set (flags, first-seen time) and the tx state records, and delivers nothing
RestartKeepsP(i) == (Tr[i].act.a = "Restart" /\ Tr[i].skip = "") =>
   /\ Tr[i].st.un = Tr[i-1].st.un /\ Tr[i].st.st = Tr[i-1].st.st /\ Len(Tr[i].st.dl) = Len(Tr[i-1].st.dl)
\* C07: a notification that says safe (without a proof) is only issued for a locally submitted transaction when it is first delivered,
\* or by the checker for a transaction that was eligible before the step (trusted peer vouched, no conflict, delay elapsed)
SafeOnlyWarrantedP(i) == Tr[i].skip = "" =>
   \A j \in (Len(Tr[i-1].st.dl) + 1)..Len(Tr[i].st.dl) : LET n == Tr[i].st.dl[j]  p == Tr[i-1].st IN
      (n.safe /\ ~n.proof) =>
         \/ (Tr[i].act.a = "ConsumeB" /\ n.k = "new" /\ p.c.safe)
         \/ (Tr[i].act.a = "Checker" /\ n.k = "upd" /\ p.un[n.t].in /\ ~p.un[n.t].unsafe /\ ~p.st[n.t].unsafe /\ ~p.st[n.t].canc
                /\ (p.un[n.t].tr \/ p.mp[n.t].tr) /\ p.un[n.t].t0 + Delay < p.clock)
\* C07: the checker reports a transaction safe only if no conflicting transaction is known (held in the mempool) at that moment
SafeWithoutConflictP(i) == (Tr[i].act.a = "Checker" /\ Tr[i].skip = "") =>
   \A j \in (Len(Tr[i-1].st.dl) + 1)..Len(Tr[i].st.dl) : LET n == Tr[i].st.dl[j]  p == Tr[i-1].st IN
      (n.safe /\ ~n.proof) => \A t2 \in Tx : (t2 # n.t /\ p.mp[t2].st = "body") => Ins[t2] \cap Ins[n.t] = {}
\* C06: a block cancels a transaction only for a different transaction of that block that spends one of its outpoints
CancelWarrantedP(i) == (Tr[i].act.a = "Block" /\ Tr[i].skip = "") =>
   \A j \in (Len(Tr[i-1].st.dl) + 1)..Len(Tr[i].st.dl) : LET n == Tr[i].st.dl[j]  p == Tr[i-1].st IN
      (n.canc /\ ~p.st[n.t].canc) => \E k \in 1..Len(Blk[Tr[i].act.t]) : LET t2 == Blk[Tr[i].act.t][k] IN t2 # n.t /\ Ins[t2] \cap Ins[n.t] # {}
\* C12: what an untrusted connection sends before it has been verified to be on this node's chain changes nothing
UnverifiedIgnoredP(i) == (Tr[i].act.a \in {"Arrive", "Inv"} /\ Tr[i].act.s \in {"NU", "NX"} /\ Tr[i].skip = "") =>
   (Tr[i].st.q = Tr[i-1].st.q /\ Tr[i].st.mp = Tr[i-1].st.mp /\ Tr[i].st.un = Tr[i-1].st.un /\ Len(Tr[i].st.dl) = Len(Tr[i-1].st.dl))
\* C12: trust (the basis of a safe report) only comes from the trusted connection or a local submission
TrustedSource(j, t) == \/ (Tr[j].act.a = "Arrive" /\ Tr[j].act.t = t /\ Tr[j].act.s \in {"TT", "TX", "LOC"})
                       \/ (Tr[j].act.a = "Inv" /\ Tr[j].act.t = t /\ Tr[j].act.s = "TT")
TraceStart(i) == CHOOSE j \in 1..i : Tr[j].act.a = "init" /\ \A k \in (j+1)..i : Tr[k].act.a # "init"
TrustWarrantedP(i) == \A t \in Tx : (Tr[i].st.un[t].tr \/ Tr[i].st.mp[t].tr) => \E j \in TraceStart(i)..i : TrustedSource(j, t)
ItemTrustP(i) == (Tr[i].act.a = "ConsumeA" /\ Tr[i].skip = "" /\ Tr[i].st.c.pc = "mid") =>
                    (Tr[i].st.c.tr = Tr[i-1].st.q[1].tr /\ Tr[i].st.c.safe = Tr[i-1].st.q[1].safe)
One(name, i, ok) == IF ok THEN {} ELSE {<<name, i>>}
\* state formulas are evaluated in the successor state (the variables then hold the projection recorded on line i)
Judge(i) ==
       One("AtMostOnceNew", i, AtMostOnceNew') \cup One("NoIrrelevant", i, NoIrrelevant')
  \cup One("NeverBoth", i, NeverBoth') \cup One("CancImpliesUnsafe", i, CancImpliesUnsafe')
  \cup One("StickyUnsafe", i, StickyUnsafe') \cup One("SafeOnce", i, SafeOnceP(dl'))
  \cup One("ProofDepth", i, ProofDepth') \cup One("IndexExact", i, IndexExact')
  \cup One("ConflictsFlagged", i, ConflictsFlagged') \cup One("NoFalseFlag", i, NoFalseFlag')
  \cup One("ConfirmedHasProof", i, ConfirmedHasProof') \cup One("Complete", i, Complete')
  \cup One("SafeWarranted", i, SafeWarranted')
  \cup One("ProofValid", i, FactsP(i)) \cup One("SpentOutputs", i, OutsP(i)) \cup One("StoredCopy", i, StoredCopyP(i))
  \cup One("SafeOnlyWarranted", i, Tr[i].act.a = "init" \/ SafeOnlyWarrantedP(i))
  \cup One("TrustWarranted", i, TrustWarrantedP(i)) \cup One("ItemTrust", i, Tr[i].act.a = "init" \/ ItemTrustP(i))
  \cup One("SafeEventually", i, Tr[i].act.a = "init" \/ SafeEventuallyP(i))
  \cup One("RestartKeeps", i, Tr[i].act.a = "init" \/ RestartKeepsP(i))
  \cup One("NoPanic", i, NoPanicP(i)) \cup One("NoError", i, NoErrorP(i))
  \cup One("BlockDelivers", i, Tr[i].act.a = "init" \/ BlockStepP(i))
  \cup One("CancelOnConfirm", i, Tr[i].act.a = "init" \/ CancelP(i))
  \cup One("SafeWithoutConflict", i, Tr[i].act.a = "init" \/ SafeWithoutConflictP(i))
  \cup One("UnverifiedIgnored", i, Tr[i].act.a = "init" \/ UnverifiedIgnoredP(i))
  \cup One("CancelWarranted", i, Tr[i].act.a = "init" \/ CancelWarrantedP(i))
  \cup One("TrustSticky", i, Tr[i].act.a = "init" \/ TrustStickyP([t \in Tx |-> Tr[i-1].st.mp[t]], [t \in Tx |-> Tr[i].st.mp[t]], Tr[i].act.a))

PInit == Init /\ l = 0 /\ bad = {}
PNext == /\ l < Len(Tr) /\ l' = l + 1 /\ Load(l + 1)
         /\ bad' = bad \cup Judge(l + 1)
PSpec == PInit /\ [][PNext]_pvars
Done == (l = Len(Tr)) => JsonSerialize("props_result.json", [lines |-> Len(Tr), bad |-> bad])
====
