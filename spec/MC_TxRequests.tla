---- MODULE MC_TxRequests ----
EXTENDS TxRequests
View == <<body, reqAt, trk, clock, ops, forgot>>
====
