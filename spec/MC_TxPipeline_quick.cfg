SPECIFICATION Spec
CONSTANTS
  NT = 3
  Ins <- Ins3
  Rel <- Rel3
  Blk <- Blk3
  Delay = 1
  MaxClock = 3
  Cap = 2
  MaxArr = 4
  MaxRestart = 1
  MaxCheck = 2
  MaxReorg = 0
  Sources <- Src5
  Race = FALSE
  Fix <- CodeFix
  Mut = ""
VIEW View
INVARIANTS AtMostOnceNew NoIrrelevant NeverBoth CancImpliesUnsafe StickyUnsafe ProofDepth IndexExact ConflictsFlagged NoFalseFlag ConfirmedHasProof Complete SafeWarranted
PROPERTIES TrustSticky
CHECK_DEADLOCK FALSE
