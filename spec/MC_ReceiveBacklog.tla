---- MODULE MC_ReceiveBacklog ----
EXTENDS ReceiveBacklog
View == <<ep, up, flag, nextId, held, full, hq, rq, deliv, accs, sent, run, steps>>
====
