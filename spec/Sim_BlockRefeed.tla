---- MODULE Sim_BlockRefeed ----
EXTENDS MC_BlockRefeed
SimSpec == Spec
====
