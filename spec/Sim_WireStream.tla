---- MODULE Sim_WireStream ----
(* Generator of streams: several messages of any types and value classes written back to back, reads and prefix cuts interleaved. *)
EXTENDS MC_WireStream
SimNext == (\E t \in Types, c \in Classes : Write(t, c, 1)) \/ Read \/ (\E k \in 1..Len(w) : Cut(k) /\ k = Len(w))
SimSpec == Init /\ [][SimNext]_vars
====
