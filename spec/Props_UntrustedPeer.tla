---- MODULE Props_UntrustedPeer ----
(* C12 (and the peer-score / broadcast rules beyond the list) judged on implementation traces: the formulas of UntrustedPeer on the *)
(* recorded states and steps of the real untrusted connection.                                                                       *)
EXTENDS MC_UntrustedPeer, Json
Tr == ndJsonDeserialize("impl.ndjson")
Lines == 1..Len(Tr)
Steps == {i \in Lines : i > 1 /\ Tr[i].act.a # "init" /\ Tr[i].skip = ""}
SetOf(s) == {s[i] : i \in 1..Len(s)}
St(i) == LET s == Tr[i].st IN
  [ver |-> s.ver, hsk |-> s.hsk, hreq |-> s.hreq, verified |-> s.verified, scored |-> s.scored, stopping |-> s.stopping, score |-> s.score,
   known |-> SetOf(s.known), out |-> s.out, pend |-> s.pend, chan |-> s.chan]
F(name, X) == {<<name, i>> : i \in X}
\* the block repository is never touched by an untrusted connection
ChainUntouched(i) == Tr[i].st.height = H /\ Tr[i].st.tip = H
\* what reaches the tx channel from an untrusted peer is marked neither trusted nor safe (the driver negates the id otherwise)
Unvouched(i) == \A j \in 1..Len(Tr[i].st.chan) : Tr[i].st.chan[j] > 0
\* a stopped connection does nothing any more: nothing is queued, nothing reaches the channel, the score does not rise
StoppedQuiet(i) == Tr[i-1].st.stopping => (Tr[i].st.out = Tr[i-1].st.out /\ Tr[i].st.chan = Tr[i-1].st.chan /\ Tr[i].st.score <= Tr[i-1].st.score)
\* every transaction handed to Broadcast is queued for the peer by the first check() that finds it ready (judged on the history,
\* not on the pending list a defect may leave empty)
TraceStart(i) == CHOOSE j \in 1..i : Tr[j].act.a = "init" /\ \A k \in (j+1)..i : Tr[k].act.a # "init"
BroadcastDelivered(i) == (Tr[i].act.a = "Check" /\ Tr[i-1].st.verified /\ Tr[i-1].st.ver) =>
   \A j \in TraceStart(i)..i : (Tr[j].act.a = "Broadcast" /\ Tr[j].skip = "") =>
      \E k \in 1..Len(Tr[i].st.out) : Tr[i].st.out[k].t = "tx" /\ Tr[i].st.out[k].x = Tr[j].act.m.x
Bad == F("UntrustedGated", {i \in Lines : ~GatedP(St(i))})
  \cup F("VerifiedByHeaders", {i \in Steps : ~VerifyP(St(i-1), St(i), Tr[i].act)})
  \cup F("BadHeadersEnd", {i \in Steps : ~BadHeadersP(St(i-1), St(i), Tr[i].act)})
  \cup F("ScoreRule", {i \in Steps : ~ScoreP(St(i-1), St(i), Tr[i].act)})
  \cup F("HandshakeOrder", {i \in Lines : ~OrderP(St(i))})
  \cup F("VerifiedClearsRequest", {i \in Steps : ~ClearP(St(i-1), St(i), Tr[i].act)})
  \cup F("BroadcastDelivered", {i \in Steps : ~BroadcastDelivered(i)})
  \cup F("BroadcastFlushed", {i \in Steps : ~FlushP(St(i-1), St(i), Tr[i].act)})
  \cup F("AddrHarmless", {i \in Steps : ~AddrP(St(i-1), St(i), Tr[i].act)})
  \cup F("ChainUntouched", {i \in Lines : ~ChainUntouched(i)})
  \cup F("Unvouched", {i \in Lines : ~Unvouched(i)})
  \cup F("StoppedQuiet", {i \in Steps : ~StoppedQuiet(i)})
  \cup F("NoPanic", {i \in Lines : Len(Tr[i].skip) >= 5 /\ SubSeq(Tr[i].skip, 1, 5) = "PANIC"})
ASSUME JsonSerialize("props_result.json", [lines |-> Len(Tr), bad |-> Bad])
PSpec == Init /\ [][UNCHANGED vars]_vars
====
