---- MODULE Props_ReceiveBacklog ----
(* C18 behind a full handler queue, judged on what the real handlers saw and on what the scripted service sent *)
EXTENDS MC_ReceiveBacklog, Json
Tr == ndJsonDeserialize("impl.ndjson")
Lines == 1..Len(Tr)
F(name, X) == {<<name, i>> : i \in X}
Accs(i) == {[e |-> Tr[i].st.accs[j].e, n |-> Tr[i].st.accs[j].n] : j \in 1..Len(Tr[i].st.accs)}
Bad == F("DataAfterAccept", {i \in Lines : ~DataAfterAcceptP(Tr[i].st.deliv, Accs(i))})
  \cup F("AcceptOnce", {i \in Lines : ~AcceptOnceP(Tr[i].st.deliv, Accs(i))})
  \cup F("BacklogInOrder", {i \in Lines : ~InOrderP(Tr[i].st.deliv)})
  \* F43: scenarios "stall-..." wait the message channel time-out out behind a full handler queue; once the application has caught up
  \* every id the client counted must have reached the handlers (no Ready in these scenarios: ids count from 1)
  \cup F("CountedAreDelivered", {i \in Lines : Len(Tr[i].tr) >= 6 /\ SubSeq(Tr[i].tr, 1, 6) = "stall-" /\ Tr[i].act.a = "Release" /\ Tr[i].skip = ""
                                               /\ ~CountedAreDeliveredP(Tr[i].st.deliv, Tr[i].st.nextId)})
  \cup F("NoPanic", {i \in Lines : Len(Tr[i].skip) >= 5 /\ SubSeq(Tr[i].skip, 1, 5) = "PANIC"})
ASSUME JsonSerialize("props_result.json", [lines |-> Len(Tr), bad |-> Bad])
PSpec == Init /\ [][UNCHANGED vars]_vars
====
