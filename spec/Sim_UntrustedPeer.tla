---- MODULE Sim_UntrustedPeer ----
EXTENDS MC_UntrustedPeer
\* random walks that live long enough to be interesting: the events that end a connection only late, good headers as likely as bad ones
GoodH == {[first |-> H, linked |-> TRUE, n |-> 1], [first |-> H - Delta - 1, linked |-> TRUE, n |-> 3], [first |-> H - 1, linked |-> TRUE, n |-> 3]}
BadH == {[first |-> H - Delta - 2, linked |-> TRUE, n |-> 3], [first |-> -1, linked |-> TRUE, n |-> 1], [first |-> H - 1, linked |-> FALSE, n |-> 3],
         [first |-> H, linked |-> TRUE, n |-> 0], [first |-> 0, linked |-> FALSE, n |-> 3]}
SimNext == \/ Check \/ RecvVersion \/ RecvPing \/ RecvBlock \/ RecvUnknown
           \/ (steps > 10 /\ (RecvGarbage \/ Expire \/ Stop))
           \/ \E h \in GoodH : RecvHeaders(h)
           \/ (steps > 8 /\ \E h \in BadH : RecvHeaders(h))
           \/ \E t \in Txs : RecvInv(t) \/ RecvTx(t) \/ Broadcast(t)
           \/ \E a \in Addrs : RecvAddr(a)
SimSpec == Init /\ [][SimNext]_vars
====
