SPECIFICATION SimSpec
CONSTANTS
  N = 16
  W = 10
  MaxBatch = 8
  MaxSteps = 70
CHECK_DEADLOCK FALSE
