---- MODULE Attack_BlockStore ----
EXTENDS MC_BlockStore
ASpec == Spec
====
