---- MODULE Props_HeaderSync ----
(* C10, single failing storage write during the header-only sync, judged on the real repository / state after every step *)
EXTENDS MC_HeaderSync, Json
Tr == ndJsonDeserialize("impl.ndjson")
Lines == 1..Len(Tr)
F(name, X) == {<<name, i>> : i \in X}
Runs(i) == [j \in 1..Len(Tr[i].st.chain) |-> [a |-> Tr[i].st.chain[j].a, b |-> Tr[i].st.chain[j].b]]
\* the chain in memory is hash-linked from the genesis header
MemLinked(i) == LinkedP(Runs(i))
\* what a new node loads from the surviving storage is hash-linked (and loads at all)
StoreLinked(i) == Tr[i].st.sload = "" /\ LinkedP([j \in 1..Len(Tr[i].st.schain) |-> [a |-> Tr[i].st.schain[j].a, b |-> Tr[i].st.schain[j].b]])
Bad == F("FaultRecoverable", {i \in Lines : ~MemLinked(i) /\ ~StoreLinked(i)})        \* neither consistent in memory nor recoverable by a restart
  \cup F("LoadOK", {i \in Lines : Tr[i].st.sload # "" \/ (Len(Tr[i].skip) >= 4 /\ SubSeq(Tr[i].skip, 1, 4) = "LOAD")})
  \cup F("CrashLinked", {i \in Lines : Tr[i].act.a \in {"Crash", "Restart"} /\ Tr[i].skip = "" /\ ~MemLinked(i)})
  \cup F("Convergence", {i \in Lines : Tr[i].act.a = "final" /\ ~(MemLinked(i) /\ Tip(Runs(i)) = Tr[i].st.ptip /\ Tr[i].st.last = Tr[i].st.ptip)})
  \cup F("NoPanic", {i \in Lines : Len(Tr[i].skip) >= 5 /\ SubSeq(Tr[i].skip, 1, 5) = "PANIC"})
ASSUME JsonSerialize("props_result.json", [lines |-> Len(Tr), bad |-> Bad])
PSpec == Init /\ [][UNCHANGED vars]_vars
====
