---- MODULE Trace_WireStream ----
(* Strict trace validation for WireStream: every recorded operation on the real byte stream must be the specification's:  *)
(* a Read returns the type and value class that was written at that position, with res "ok", and consumes exactly the     *)
(* bytes the writer produced for it; every Cut reports "error".                                                           *)
EXTENDS MC_WireStream, Json
Tr == ndJsonDeserialize("impl.ndjson")
VARIABLES l, rej
tvars == <<vars, l, rej>>
Same(i) == LET s == Tr[i].st IN w' = s.w /\ r' = s.r /\ pos' = s.pos
Step1(e) == CASE e.a = "Write" -> Write(e.t, e.c, e.n) [] e.a = "Read" -> Read [] e.a = "Cut" -> Cut(e.n) [] OTHER -> FALSE
TMatch == /\ l < Len(Tr) /\ Tr[l+1].act.a # "init" /\ Tr[l+1].skip = ""
          /\ Step1(Tr[l+1].act) /\ Same(l+1) /\ act' = Tr[l+1].act /\ l' = l + 1 /\ UNCHANGED rej
TStart(i) == w' = <<>> /\ r' = 0 /\ pos' = 0 /\ act' = A("init", 0, "", 0, "") /\ l' = i
Begin == l < Len(Tr) /\ Tr[l+1].act.a = "init" /\ TStart(l+1) /\ UNCHANGED rej
NextInit(i) == IF \E j \in i..Len(Tr) : Tr[j].act.a = "init"
               THEN CHOOSE j \in i..Len(Tr) : Tr[j].act.a = "init" /\ \A k \in i..(j-1) : Tr[k].act.a # "init" ELSE 0
Resync == /\ l < Len(Tr) /\ Tr[l+1].act.a # "init" /\ ~ENABLED TMatch /\ rej' = Append(rej, l + 1)
          /\ LET j == NextInit(l + 1) IN IF j = 0 THEN l' = Len(Tr) /\ UNCHANGED vars ELSE TStart(j)
TraceSpec == Init /\ l = 0 /\ rej = <<>> /\ [][Begin \/ TMatch \/ Resync]_tvars
Done == (l = Len(Tr)) => JsonSerialize("trace_result.json", [lines |-> Len(Tr), rej |-> rej])
====
