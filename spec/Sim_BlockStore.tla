---- MODULE Sim_BlockStore ----
(* Behaviour generator for BlockStore at K = 4 / heights up to 3K+1, both storage back ends.  *)
(* `bias` makes some behaviours add-heavy (long chains crossing file boundaries) and others   *)
(* revert/save/load-heavy.                                                                    *)
EXTENDS MC_BlockStore
VARIABLES bias, n
svars == <<vars, bias, n>>
SimInit == Init /\ bias \in {0, 1, 2} /\ n = 0
Grow == Add
Other == Save \/ Load \/ \E t \in 0..(height + 1) : Revert(t)
SimNext == /\ n' = n + 1 /\ UNCHANGED bias
           /\ \/ Grow /\ GhostNext
              \/ (bias = 0 \/ n % 3 = 0 \/ nextId > MaxId) /\ Other /\ GhostNext
              \/ (bias = 2 /\ n % 2 = 1) /\ Grow /\ GhostNext
SimSpec == SimInit /\ [][SimNext]_svars
====
