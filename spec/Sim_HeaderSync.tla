---- MODULE Sim_HeaderSync ----
EXTENDS MC_HeaderSync
\* random walks at the code's scale (R = 1000); faults are armed when the next answer crosses a file boundary more often than not
SimNext == \/ Check \/ Check \/ Answer \/ Answer \/ Timeout \/ (steps > 3 /\ Restart) \/ (steps > 3 /\ Crash)
           \/ Arm \/ (req >= 0 /\ (Count(chain) % R) + B >= R /\ Arm)
SimSpec == Init /\ [][SimNext]_vars
====
