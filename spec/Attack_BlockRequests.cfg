SPECIFICATION ASpec
CONSTANTS
  N = 14
  Par <- ParBig
  W = 10
  MaxPend = 4
  Sizes <- SizesSim
  Mut = "@MUT@"
VIEW View
INVARIANTS Window Bytes ChainOrder UnfilledZero
PROPERTIES StepProps
CHECK_DEADLOCK FALSE
