SPECIFICATION Spec
CONSTANTS
  NB = 3
  MaxEpoch = 3
  MaxTx = 2
  MaxSteps = 12
VIEW View
INVARIANTS SavedAtStop SavedAtRestart StopReturns ResumeFromTip
PROPERTIES StepProps
CHECK_DEADLOCK FALSE
