--------------------------- MODULE BlockRequests ---------------------------
(***************************************************************************)
(* The block download window of spynode: internal/state/requests.go.       *)
(* One action per locked method of state.State.  `act` records the call    *)
(* and its return value, so that a behaviour is a call/return history.     *)
(*                                                                         *)
(* Property C13.  The module is the "reference queue model" the property   *)
(* speaks of: the real code is replayed call by call and every return      *)
(* value and every projected state must be the one this module computes.   *)
(*                                                                         *)
(* Mut names a deliberately wrong variant of one action (the model-level   *)
(* image of a plausible coding error).  Mut = "" is the faithful model.    *)
(* Mutants are only used to derive attack scripts (shortest counter-       *)
(* examples) that are then replayed on the real code.                      *)
(***************************************************************************)
EXTENDS Integers, Sequences, FiniteSets, TLC

CONSTANTS N,        \* blocks are 1..N, 0 is the block below the first one
          Par,      \* Par[b] = parent of b
          W,        \* maxRequestedBlocks (code: 10)
          MaxPend,  \* maxPendingBlockSize in size units (code: 100 MB; harness unit 40 MB => 2)
          Sizes,    \* size units a delivered block can have
          Mut       \* "" or the name of a mutant

Blocks == 1..N
VARIABLES req,        \* blocksRequested: Seq([b, f, sz]) ; f = 1 iff the block body is buffered
          toReq,      \* blocksToRequest: Seq(Block)
          pend,       \* pendingBlockSize
          lastSaved,  \* lastSavedHash
          act         \* last call: [a, b, sz, rs, ri]
vars == <<req, toReq, pend, lastSaved, act>>

Last(s) == s[Len(s)]
Act(a, b, sz, rs, ri) == [a |-> a, b |-> b, sz |-> sz, rs |-> rs, ri |-> ri]
InSeq(s, b) == \E i \in 1..Len(s) : s[i].b = b
IdxIn(s, b) == CHOOSE i \in 1..Len(s) : s[i].b = b /\ \A j \in 1..(i-1) : s[j].b # b
InReq(b) == InSeq(req, b)
Idx(b) == IdxIn(req, b)
RECURSIVE SumFilled(_)
SumFilled(s) == IF s = <<>> THEN 0 ELSE (IF Head(s).f = 1 THEN Head(s).sz ELSE 0) + SumFilled(Tail(s))

Init == req = <<>> /\ toReq = <<>> /\ pend = 0 /\ lastSaved = 0 /\ act = Act("reset", 0, 0, "", 0)

Full == Len(req) >= (IF Mut = "WindowOffByOne" THEN W + 1 ELSE W)
Paused == IF Mut = "IgnorePause" THEN FALSE ELSE pend > MaxPend

(* requests.go:60  AddBlockRequest(prevHash, hash) *)
AddBlockRequest(b) ==
  LET prev == Par[b]
      R(rs) == Act("AddBlockRequest", b, 0, rs, 0) IN
  IF toReq # <<>>
  THEN IF Last(toReq) # prev /\ Mut # "NoPrevCheckQueued"
       THEN UNCHANGED <<req, toReq, pend, lastSaved>> /\ act' = R("err")
       ELSE toReq' = Append(toReq, b) /\ UNCHANGED <<req, pend, lastSaved>> /\ act' = R("queued")
  ELSE IF Mut # "NoPrevCheck" /\ ((req # <<>> /\ Last(req).b # prev) \/ (req = <<>> /\ lastSaved # prev))
  THEN UNCHANGED <<req, toReq, pend, lastSaved>> /\ act' = R("err")
  ELSE IF Full \/ Paused
  THEN toReq' = <<b>> /\ UNCHANGED <<req, pend, lastSaved>> /\ act' = R("queued")
  ELSE req' = Append(req, [b |-> b, f |-> 0, sz |-> 0]) /\ UNCHANGED <<toReq, pend, lastSaved>>
       /\ act' = R("send")

(* requests.go:107  AddBlock(hash, block) *)
AddBlock(b, sz) ==
  IF InReq(b)
  THEN LET old == req[Idx(b)] IN
       /\ req' = [req EXCEPT ![Idx(b)] = [b |-> b, f |-> 1, sz |-> sz]]
       /\ pend' = IF Mut = "DupCountedTwice" THEN pend + sz
                  ELSE pend - (IF old.f = 1 THEN old.sz ELSE 0) + sz
       /\ UNCHANGED <<toReq, lastSaved>> /\ act' = Act("AddBlock", b, sz, "ok", 0)
  ELSE IF Mut = "AcceptUnrequested" /\ Len(req) < W
  THEN /\ req' = Append(req, [b |-> b, f |-> 1, sz |-> sz]) /\ pend' = pend + sz
       /\ UNCHANGED <<toReq, lastSaved>> /\ act' = Act("AddBlock", b, sz, "ok", 0)
  ELSE UNCHANGED <<req, toReq, pend, lastSaved>> /\ act' = Act("AddBlock", b, sz, "no", 0)

(* requests.go:123  NextBlock() *)
NextBlock ==
  IF req = <<>> \/ (Head(req).f = 0 /\ Mut # "PopUnfilled")
  THEN IF Mut = "PopAnyFilled" /\ \E i \in 1..Len(req) : req[i].f = 1
       THEN LET i == CHOOSE i \in 1..Len(req) : req[i].f = 1 /\ \A j \in 1..(i-1) : req[j].f = 0 IN
            /\ pend' = pend - req[i].sz /\ lastSaved' = req[i].b
            /\ req' = SubSeq(req, 1, i-1) \o SubSeq(req, i+1, Len(req))
            /\ UNCHANGED toReq /\ act' = Act("NextBlock", 0, 0, "", req[i].b)
       ELSE UNCHANGED <<req, toReq, pend, lastSaved>> /\ act' = Act("NextBlock", 0, 0, "", 0)
  ELSE /\ pend' = IF Mut = "NoSubtractOnPop" THEN pend ELSE pend - Head(req).sz
       /\ lastSaved' = Head(req).b /\ req' = Tail(req)
       /\ UNCHANGED toReq /\ act' = Act("NextBlock", 0, 0, "", Head(req).b)

(* requests.go:138  GetNextBlockToRequest() *)
GetNext ==
  IF toReq = <<>> \/ Full \/ Paused
  THEN UNCHANGED <<req, toReq, pend, lastSaved>> /\ act' = Act("GetNext", 0, 0, "", 0)
  ELSE /\ req' = Append(req, [b |-> Head(toReq), f |-> 0, sz |-> 0]) /\ toReq' = Tail(toReq)
       /\ UNCHANGED <<pend, lastSaved>> /\ act' = Act("GetNext", 0, 0, "", Head(toReq))

(* requests.go:207  ClearBlockRequests() *)
ClearAll ==
  /\ req' = <<>> /\ toReq' = <<>> /\ UNCHANGED lastSaved
  /\ pend' = IF Mut = "ClearKeepsBytes" THEN pend ELSE 0
  /\ act' = Act("ClearAll", 0, 0, "", 0)

(* requests.go:218  ClearBlockRequestsAfter(hash) *)
ClearAfter(b) ==
  /\ act' = Act("ClearAfter", b, 0, "", 0)
  /\ UNCHANGED lastSaved
  /\ IF InReq(b)
     THEN /\ req' = SubSeq(req, 1, Idx(b))
          /\ toReq' = IF Mut = "ClearAfterKeepsQueue" THEN toReq ELSE <<>>
          /\ pend' = IF Mut = "ClearKeepsBytes" THEN pend
                     ELSE pend - SumFilled(SubSeq(req, Idx(b) + 1, Len(req)))
     ELSE IF \E i \in 1..Len(toReq) : toReq[i] = b
     THEN /\ toReq' = SubSeq(toReq, 1, CHOOSE i \in 1..Len(toReq) : toReq[i] = b)
          /\ UNCHANGED <<req, pend>>
     ELSE UNCHANGED <<req, toReq, pend>>

(* requests.go:186  SetLastHash(hash) *)
SetLastHash(b) == lastSaved' = b /\ UNCHANGED <<req, toReq, pend>> /\ act' = Act("SetLastHash", b, 0, "", 0)

(* state.go:53  Reset() -- reconnect *)
Reset == /\ req' = <<>> /\ toReq' = <<>> /\ pend' = 0 /\ UNCHANGED lastSaved
         /\ act' = Act("Reset", 0, 0, "", 0)

Next == \/ \E b \in Blocks : AddBlockRequest(b) \/ ClearAfter(b)
        \/ \E b \in Blocks, s \in Sizes : AddBlock(b, s)
        \/ \E b \in Blocks \cup {0} : SetLastHash(b)
        \/ NextBlock \/ GetNext \/ ClearAll \/ Reset
Spec == Init /\ [][Next]_vars

-----------------------------------------------------------------------------
(* Properties (C13), written over a state record so that the same formulas   *)
(* are evaluated on the model's states and on recorded implementation states *)
S == [req |-> req, toReq |-> toReq, pend |-> pend, lastSaved |-> lastSaved, act |-> act]

Seqd(s) == [i \in 1..Len(s.req) |-> s.req[i].b] \o s.toReq      \* everything requested or queued, in order

WindowP(s) == Len(s.req) <= W
BytesP(s) == s.pend = SumFilled(s.req)
ChainOrderP(s) == \A i \in 2..Len(Seqd(s)) : Par[Seqd(s)[i]] = Seqd(s)[i-1]
UnfilledZeroP(s) == \A i \in 1..Len(s.req) : s.req[i].f = 0 => s.req[i].sz = 0

\* two-state properties: s = state before the call, t = state after (t.act is the call)
PausedP(s, t) == (s.pend > MaxPend /\ t.act.a \in {"AddBlockRequest", "GetNext"}) => Len(t.req) <= Len(s.req)
FIFOP(s, t) == (t.act.a = "NextBlock") =>
                 IF s.req # <<>> /\ Head(s.req).f = 1
                 THEN t.act.ri = Head(s.req).b /\ t.req = Tail(s.req) /\ t.lastSaved = Head(s.req).b
                 ELSE t.act.ri = 0 /\ t.req = s.req
UnrequestedP(s, t) == (t.act.a = "AddBlock" /\ ~InSeq(s.req, t.act.b)) =>
                 (t.act.rs = "no" /\ t.req = s.req /\ t.toReq = s.toReq /\ t.pend = s.pend)
SendMeansAppendedP(s, t) ==
   /\ (t.act.a = "AddBlockRequest" /\ t.act.rs = "send") =>
         (Len(s.req) < W /\ t.req = Append(s.req, [b |-> t.act.b, f |-> 0, sz |-> 0]))
   /\ (t.act.a = "GetNext" /\ t.act.ri # 0) =>
         (Len(s.req) < W /\ s.toReq # <<>> /\ t.act.ri = Head(s.toReq)
          /\ t.req = Append(s.req, [b |-> Head(s.toReq), f |-> 0, sz |-> 0]) /\ t.toReq = Tail(s.toReq))
   /\ (t.act.a \in {"AddBlockRequest", "GetNext"} /\ t.act.rs # "send" /\ t.act.ri = 0) => t.req = s.req
ForkDiscardP(s, t) == (t.act.a = "ClearAfter" /\ (InSeq(s.req, t.act.b) \/ \E i \in 1..Len(s.toReq) : s.toReq[i] = t.act.b)) =>
                 (Seqd(t) # <<>> /\ Last(Seqd(t)) = t.act.b)
OnceP(s, t) == \* a block is never issued while it is still requested (at most once unless cleared)
   (t.act.a = "AddBlockRequest" /\ t.act.rs = "send") => ~InSeq(s.req, t.act.b)

Window == WindowP(S)
Bytes == BytesP(S)
ChainOrder == ChainOrderP(S)
UnfilledZero == UnfilledZeroP(S)
Step2 == PausedP(S, S') /\ FIFOP(S, S') /\ UnrequestedP(S, S') /\ SendMeansAppendedP(S, S')
         /\ ForkDiscardP(S, S') /\ OnceP(S, S')
StepProps == [][Step2]_vars
=============================================================================
