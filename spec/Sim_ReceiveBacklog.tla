---- MODULE Sim_ReceiveBacklog ----
EXTENDS MC_ReceiveBacklog
\* random walks biased towards a blocked message loop, a teardown behind it and the expected id
SimNext == \/ Accept \/ Hold \/ Flood \/ Flood \/ Release \/ (steps > 2 /\ Teardown) \/ Connect \/ Connect
           \/ (\E n \in 1..3 : Ready(n))
           \/ \E kind \in {"tip", "tx", "upd"}, id \in 1..3 : Notify(kind, IF kind = "tip" THEN 0 ELSE id)
           \/ Notify("tip", 0) \/ \E kind \in {"tx", "upd"} : Notify(kind, nextId) \/ Notify(kind, nextId)
SimSpec == Init /\ [][SimNext]_vars
====
