---- MODULE Props_TxRequests ----
(* C14 judged on implementation traces: the formulas of TxRequests on the recorded request history and projected state. *)
EXTENDS MC_TxRequests, Json
Tr == ndJsonDeserialize("impl.ndjson")
Lines == 1..Len(Tr)
Steps == {i \in Lines : i > 1 /\ Tr[i].act.a # "init" /\ Tr[i].skip = ""}
St(i) == [body |-> [t \in Tx |-> Tr[i].st.body[t]], reqAt |-> [t \in Tx |-> Tr[i].st.reqAt[t]],
          trk |-> [c \in Conn |-> {Tr[i].st.trk[c + 1][k] : k \in 1..Len(Tr[i].st.trk[c + 1])}],
          clock |-> Tr[i].st.clock, asked |-> Tr[i].st.asked]
Fg(i) == [t \in Tx |-> {Tr[i].st.forgot[t][k] : k \in 1..Len(Tr[i].st.forgot[t])}]
F(name, X) == {<<name, i>> : i \in X}
Bad == F("Exclusive", {i \in Lines : ~ExclusiveP(Tr[i].st.asked, Fg(i))})
  \cup F("NoneAfterBody", {i \in Lines : ~NoneAfterBodyP(Tr[i].st.asked)})
  \cup F("Rerequest", {i \in Steps : ~RerequestP(St(i-1), St(i), Tr[i].act)})
  \cup F("Forgotten", {i \in Steps : ~ForgottenP(St(i-1), St(i), Tr[i].act)})
  \cup F("TrackedOrAsked", {i \in Steps : ~TrackedOrAskedP(St(i-1), St(i), Tr[i].act)})
  \cup F("GroupUniform", {i \in Lines : Len(Tr[i].st.anom) # 0})      \* bulk runs: every member of a group of 120 txids is treated like the one txid of the specification
  \cup F("NoPanic", {i \in Lines : Tr[i].skip # ""})
ASSUME JsonSerialize("props_result.json", [lines |-> Len(Tr), bad |-> Bad])
PSpec == Init /\ [][UNCHANGED vars]_vars
====
