---- MODULE MC_WireStream ----
EXTENDS WireStream
Lens3 == {1, 2, 5}
TypesFew == {0, 1, 11, 111, 201}
MCNext == (\E t \in TypesFew, c \in {"zero", "wide"}, n \in Lens : Write(t, c, n)) \/ Read \/ (\E k \in 1..MaxMsgs : Cut(k))
          \/ (\E k \in 1..MaxMsgs, lie \in {"w9max"} : Hostile(k, lie))
MCSpec == Init /\ [][MCNext]_vars
====
