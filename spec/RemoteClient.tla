---------------------------- MODULE RemoteClient ----------------------------
(***************************************************************************)
(* The spynode remote client (pkg/client/remote_client.go) against a       *)
(* scripted service, at the level of what the application and the service  *)
(* observe.  Properties C16, C17, C18.                                     *)
(*                                                                         *)
(*   Accept(v)    the service sends AcceptRegister (valid or forged)       *)
(*                handleMessage *AcceptRegister : 2149                     *)
(*   Ready(n)     the application declares ready : 278                     *)
(*   Call(k,..)   a synchronous request of the application: addRequest,    *)
(*                sendMessage (queued until the handshake completes),      *)
(*                GetTx 594, GetHeaders 710, GetHeader 800, ...            *)
(*   Respond(k,f) the service answers the request of call k (f = ok,       *)
(*                reject, or wrongkey = a response for another key):       *)
(*                handleRequestResponse : 1781                             *)
(*   TimeoutAll   the request time-out of every pending call elapses       *)
(*   Notify(..)   Tx / TxUpdate with a message id, InSync, Headers         *)
(*   Subscribe(m) a subscription message of the application (: 180-276):   *)
(*                written at once while the handshake is open (sendDirect, *)
(*                ahead of queued requests), through the queue afterwards  *)
(*   CallBig(k,.) a SendTx whose write cannot complete: the service has    *)
(*                stopped reading and then loses the connection; the       *)
(*                message is carried over to the next connection           *)
(*                (sendMessages returns it, runConnection : 1450-1540) and *)
(*                written there once the handshake completes, ahead of the *)
(*                queue (sendMessages : 1577)                              *)
(*   Drop         the connection is lost, the client reconnects            *)
(*   Stop         the application interrupts Run                           *)
(***************************************************************************)
EXTENDS Integers, Sequences, FiniteSets, TLC

CONSTANTS NCalls, Keys, Full,      \* Full = TRUE: connection type "full" (the handshake ends with Ready)
          MaxSteps, MaxNote,
          Big,                     \* TRUE: with carried-over messages (CallBig)
          Subs,                    \* the subscription messages the application sends (a subset of SubNames)
          Fix                      \* repaired defects assumed: subset of {"rejectnohash"}

Kinds == {"GetTx", "GetHeader", "GetHeaders", "ReprocessTx", "MarkInvalid", "MarkNotInvalid", "SendTx", "FeeQuotes"}
Slots == 0..(NCalls - 1)
Idle == [st |-> "idle", kind |-> "", key |-> 0, res |-> "", rkey |-> -1]

VARIABLES ep, acc, hs, nextId, calls, sent, order, queue, stale, srv, deliv, run, steps, had, carry, act
vars == <<ep, acc, hs, nextId, calls, sent, order, queue, stale, srv, deliv, run, steps, had, carry, act>>
A(a, k, kind, key) == [a |-> a, k |-> k, kind |-> kind, key |-> key]

MsgName(kind) == CASE kind = "GetTx" -> "get_tx" [] kind = "GetHeader" -> "get_header" [] kind = "GetHeaders" -> "get_headers"
                   [] kind = "ReprocessTx" -> "reprocess_tx" [] kind = "MarkInvalid" -> "mark_header_invalid"
                   [] kind = "MarkNotInvalid" -> "mark_header_not_invalid" [] kind = "SendTx" -> "send_tx" [] OTHER -> "get_fee_quotes"
WireKey(kind, key) == IF kind = "FeeQuotes" THEN -1 ELSE key

\* Requests issued before the handshake completes wait in the send buffer (sendChannel, 100 deep) in the order they were
\* issued.  A call that gives up waiting (send time-out) leaves its message in the buffer (k = -1 below) and its
\* registration in the request list (`stale`): the message is still written once the handshake completes, and the answer
\* to it is absorbed by the stale registration.
NoCarry == [k |-> -1, ep |-> 0]
Stuck == carry.k # -1 /\ carry.ep = ep           \* the send routine is blocked in the write of the carried message
CarryMsg == IF carry.k # -1 THEN <<[t |-> "send_tx", key |-> calls[carry.k].key, hs |-> TRUE]>> ELSE <<>>
Flush(s) == s \o CarryMsg \o [i \in 1..Len(queue) |-> [t |-> MsgName(queue[i].kind), key |-> WireKey(queue[i].kind, queue[i].key), hs |-> TRUE]]
FlushSent == [k \in Slots |-> sent[k] \/ (calls[k].st = "pending")]
FlushStale == [i \in 1..Len(stale) |-> [stale[i] EXCEPT !.w = TRUE]]

Init == /\ ep = 1 /\ acc = FALSE /\ hs = FALSE /\ nextId = 1 /\ calls = [k \in Slots |-> Idle] /\ sent = [k \in Slots |-> FALSE]
        /\ order = <<>> /\ queue = <<>> /\ stale = <<>> /\ srv = <<>> /\ deliv = <<>> /\ run = "running" /\ steps = 0 /\ had = FALSE /\ carry = NoCarry /\ act = A("init", 0, "", 0)

Step == steps < MaxSteps /\ steps' = steps + 1 /\ run = "running"

Accept(v) ==
  /\ Step /\ ~acc
  /\ (v = "replay" => had)        \* the genuine accept of an earlier connection, sent again: its key belongs to another hash
  /\ IF v = "valid"
     THEN /\ acc' = TRUE /\ UNCHANGED run
          /\ IF Full THEN UNCHANGED <<hs, srv, sent, queue, stale, carry>>
             ELSE hs' = TRUE /\ srv' = Flush(srv) /\ sent' = FlushSent /\ queue' = <<>> /\ stale' = FlushStale /\ carry' = NoCarry
     ELSE /\ run' = (IF v \in {"wrongkey", "otherhash", "replay"} THEN "failed:wrongkey" ELSE "failed:badsig")
          /\ UNCHANGED <<acc, hs, srv, sent, queue, stale, carry>>
  /\ act' = A("Accept", 0, v, 0) /\ UNCHANGED <<ep, nextId, calls, order, deliv, had>>

\* The application may declare ready before the service's accept has arrived (Ready : 278 does not look at the accepted flag): the
\* ready message is written, the code's handshake flag is set and queued requests are released - modelled as the code is.  What must
\* still hold: nothing the service sends reaches the handlers before a valid accept (NotifyP), and a forged accept still ends Run.
Ready(n) ==
  /\ Step /\ Full
  /\ nextId' = (IF n = 0 THEN 1 ELSE n) /\ hs' = TRUE
  /\ srv' = Flush(Append(srv, [t |-> "ready", key |-> (IF n = 0 THEN 1 ELSE n), hs |-> TRUE])) /\ sent' = FlushSent
  /\ queue' = <<>> /\ stale' = FlushStale /\ carry' = NoCarry
  /\ act' = A("Ready", n, "", 0) /\ UNCHANGED <<ep, acc, calls, order, deliv, run, had>>

\* The service answers the ready message at once with the first tx (id n): the client has written ready(n) but may not have
\* stored n as its next id yet (Ready: 278-310 writes first).  What the application is entitled to: the tx is delivered.
ReadyRace(n) ==
  /\ Step /\ acc /\ Full /\ n >= 1 /\ Len(deliv) < MaxNote
  /\ nextId' = n + 1 /\ hs' = TRUE /\ deliv' = Append(deliv, [kind |-> "tx", id |-> n])
  /\ srv' = Flush(Append(srv, [t |-> "ready", key |-> n, hs |-> TRUE])) /\ sent' = FlushSent
  /\ queue' = <<>> /\ stale' = FlushStale /\ carry' = NoCarry
  /\ act' = A("ReadyRace", n, "", 0) /\ UNCHANGED <<ep, acc, calls, order, run, had>>

Call(k, kind, key) ==
  /\ Step /\ calls[k].st # "pending"
  /\ \A j \in Slots : calls[j].st = "pending" => ~(calls[j].kind = kind /\ (calls[j].key = key \/ kind = "FeeQuotes"))   \* distinct keys among concurrent calls
  /\ calls' = [calls EXCEPT ![k] = [st |-> "pending", kind |-> kind, key |-> key, res |-> "", rkey |-> -1]]
  /\ order' = Append(SelectSeq(order, LAMBDA j : j # k), k)
  /\ IF hs THEN srv' = Append(srv, [t |-> MsgName(kind), key |-> WireKey(kind, key), hs |-> TRUE]) /\ sent' = [sent EXCEPT ![k] = TRUE] /\ UNCHANGED queue
          ELSE UNCHANGED srv /\ sent' = [sent EXCEPT ![k] = FALSE] /\ queue' = Append(queue, [k |-> k, kind |-> kind, key |-> key])
  /\ act' = A("Call", k, kind, key) /\ UNCHANGED <<ep, acc, hs, nextId, stale, deliv, run, had, carry>>

\* A SendTx the service does not read: the write blocks, the connection is lost (the only step enabled next is Drop), the
\* message is carried over to the next connection.
CallBig(k, key) ==
  /\ Step /\ hs /\ carry.k = -1 /\ calls[k].st # "pending"
  /\ \A j \in Slots : calls[j].st = "pending" => ~(calls[j].kind = "SendTx" /\ calls[j].key = key)
  /\ calls' = [calls EXCEPT ![k] = [st |-> "pending", kind |-> "SendTx", key |-> key, res |-> "", rkey |-> -1]]
  /\ order' = Append(SelectSeq(order, LAMBDA j : j # k), k)
  /\ sent' = [sent EXCEPT ![k] = FALSE] /\ carry' = [k |-> k, ep |-> ep]
  /\ act' = A("CallBig", k, "SendTx", key) /\ UNCHANGED <<ep, acc, hs, nextId, queue, stale, srv, deliv, run, had>>

\* which registered request a response for (kind, key, form) is routed to: the first in registration order, or none.
Routable(kind, form) == ~(form = "reject" /\ kind \in {"GetHeaders", "FeeQuotes"} /\ "rejectnohash" \notin Fix)   \* rejects without a hash are dropped
Match(kind, key) == SelectSeq(order, LAMBDA j : calls[j].st = "pending" /\ calls[j].kind = kind /\ (calls[j].key = key \/ kind = "FeeQuotes"))
StaleIdx(kind, key) == {i \in 1..Len(stale) : stale[i].kind = kind /\ (stale[i].key = key \/ kind = "FeeQuotes")}
RemoveAt(q, i) == SubSeq(q, 1, i - 1) \o SubSeq(q, i + 1, Len(q))
\* The service answers the request of call k.  It answers only requests it has received, and in the order it received
\* requests for the same key (so the request of an abandoned call is answered first: RespondStale).
Respond(k, form) ==
  /\ Step /\ calls[k].kind # ""
  /\ LET kind == calls[k].kind
         key == IF form = "wrongkey" THEN calls[k].key + 20 ELSE calls[k].key
         m == Match(kind, key)
     IN /\ \A i \in 1..Len(m) : sent[m[i]]
        /\ StaleIdx(kind, key) = {}
        /\ IF form = "reject" /\ ~acc
           THEN run' = "failed:rejected" /\ UNCHANGED <<calls, deliv>>      \* a reject before the accept is a rejected registration
           ELSE /\ UNCHANGED run
                /\ IF ~Routable(kind, form) THEN UNCHANGED <<calls, deliv>>
                   ELSE IF m # <<>>
                   THEN /\ calls' = [calls EXCEPT ![m[1]] = [@ EXCEPT !.st = "done", !.rkey = (IF kind = "FeeQuotes" THEN calls[m[1]].key ELSE key),
                                                                 !.res = (IF form = "reject" THEN "reject" ELSE "ok")]]
                        /\ UNCHANGED deliv
                   ELSE /\ UNCHANGED calls
                        /\ IF kind = "GetHeaders" /\ form # "reject"          \* headers nobody asked for are a notification
                           THEN deliv' = Append(deliv, [kind |-> "hdrs", id |-> key]) ELSE UNCHANGED deliv
  /\ act' = A("Respond", k, form, 0) /\ UNCHANGED <<ep, acc, hs, nextId, sent, order, queue, stale, srv, had, carry>>

\* the service answers the (late) request of an abandoned call: the stale registration absorbs the answer
RespondStale(i, form) ==
  /\ Step /\ i \in 1..Len(stale) /\ stale[i].w /\ acc
  /\ \A j \in 1..(i - 1) : ~(stale[j].kind = stale[i].kind /\ (stale[j].key = stale[i].key \/ stale[i].kind = "FeeQuotes"))
  /\ stale' = IF Routable(stale[i].kind, form) THEN RemoveAt(stale, i) ELSE stale
  /\ act' = A("RespondStale", (IF form = "ok" THEN 0 ELSE 1), stale[i].kind, stale[i].key)
  /\ UNCHANGED <<ep, acc, hs, nextId, calls, sent, order, queue, srv, deliv, run, had, carry>>

\* the service writes a headers notification, the next tx, the next tx update and an in-sync message in one go (a new block with
\* its confirmations): the handlers get them in that order
BurstSeq(b) == <<[kind |-> "hdrs", id |-> b]>>
               \o (IF acc THEN <<[kind |-> "tx", id |-> nextId], [kind |-> "upd", id |-> nextId + 1]>> ELSE <<>>)
               \o <<[kind |-> "insync", id |-> 0]>>
Burst(b) ==
  /\ Step /\ Len(deliv) + 4 <= MaxNote
  /\ deliv' = deliv \o BurstSeq(b) /\ nextId' = IF acc THEN nextId + 2 ELSE nextId
  /\ act' = A("Burst", b, "", 0) /\ UNCHANGED <<ep, acc, hs, calls, sent, order, queue, stale, srv, run, had, carry>>

SubNames == {"subscribe_push_data", "unsubscribe_push_data", "subscribe_tx", "unsubscribe_tx", "subscribe_outputs", "unsubscribe_outputs",
             "subscribe_headers", "unsubscribe_headers", "subscribe_contracts", "unsubscribe_contracts"}
Subscribe(m) ==
  /\ Step /\ Len(srv) < MaxNote + 6
  /\ srv' = Append(srv, [t |-> m, key |-> -1, hs |-> hs])
  /\ act' = A("Subscribe", 0, m, 0) /\ UNCHANGED <<ep, acc, hs, nextId, calls, sent, order, queue, stale, deliv, run, had, carry>>

TimeoutAll ==
  /\ Step /\ carry.k = -1 /\ \E k \in Slots : calls[k].st = "pending"
  /\ calls' = [k \in Slots |-> IF calls[k].st = "pending" THEN [calls[k] EXCEPT !.st = "done", !.res = "timeout"] ELSE calls[k]]
  /\ LET unsent == SelectSeq(order, LAMBDA k : calls[k].st = "pending" /\ ~sent[k])
     IN /\ stale' = stale \o [i \in 1..Len(unsent) |-> [kind |-> calls[unsent[i]].kind, key |-> calls[unsent[i]].key, w |-> FALSE]]
        /\ queue' = [i \in 1..Len(queue) |-> [queue[i] EXCEPT !.k = -1]]
  /\ act' = A("Timeout", 0, "", 0) /\ UNCHANGED <<ep, acc, hs, nextId, sent, order, srv, deliv, run, had, carry>>

Notify(kind, id) ==
  /\ Step /\ Len(deliv) < MaxNote
  /\ IF kind \in {"tx", "upd"}
     THEN IF acc /\ id = nextId THEN deliv' = Append(deliv, [kind |-> kind, id |-> id]) /\ nextId' = id + 1
                                ELSE UNCHANGED <<deliv, nextId>>
     ELSE deliv' = Append(deliv, [kind |-> kind, id |-> (IF kind = "insync" THEN 0 ELSE id)]) /\ UNCHANGED nextId
  /\ act' = A("Notify", id, kind, 0) /\ UNCHANGED <<ep, acc, hs, calls, sent, order, queue, stale, srv, run, had, carry>>

Drop ==
  /\ Step
  /\ ep' = ep + 1 /\ acc' = FALSE /\ hs' = FALSE /\ srv' = <<>> /\ had' = (had \/ acc)
  /\ act' = A("Drop", 0, "", 0) /\ UNCHANGED <<nextId, calls, sent, order, queue, stale, deliv, run, carry>>

Stop == /\ Step /\ run' = "stopped" /\ act' = A("Stop", 0, "", 0)
        /\ UNCHANGED <<ep, acc, hs, nextId, calls, sent, order, queue, stale, srv, deliv, had, carry>>

Others ==
        \/ \E v \in {"valid", "wrongkey", "otherhash", "badsig", "counts", "replay"} : Accept(v)
        \/ \E n \in 0..4 : Ready(n)
        \/ \E n \in 2..3 : ReadyRace(n)
        \/ \E k \in Slots, kind \in Kinds, key \in Keys : Call(k, kind, key)
        \/ \E k \in Slots, f \in {"ok", "reject", "wrongkey"} : Respond(k, f)
        \/ \E i \in 1..Len(stale), f \in {"ok", "reject"} : RespondStale(i, f)
        \/ TimeoutAll
        \/ \E kind \in {"tx", "upd", "insync", "hdrs"}, id \in 1..5 : Notify(kind, id)
        \/ (\E m \in Subs : Subscribe(m))
        \/ (\E b \in {7} : Burst(b))
        \/ (\E k \in Slots, key \in Keys : Big /\ CallBig(k, key))
        \/ Stop
Next == (~Stuck /\ Others) \/ Drop
Spec == Init /\ [][Next]_vars

-----------------------------------------------------------------------------
(* properties *)
Handshake == {"ready", "register"} \cup SubNames        \* what may be written before the handshake of a connection completes
Correlated == \A k \in Slots : (calls[k].st = "done" /\ calls[k].res = "ok") => calls[k].rkey = calls[k].key          \* C16
Gated == \A i \in 1..Len(srv) : srv[i].t \notin Handshake => srv[i].hs                                                  \* C18
DataIds == SelectSeq(deliv, LAMBDA d : d.kind \in {"tx", "upd"})
InOrderP(d) == \A i \in 2..Len(d) : d[i].id = d[i-1].id + 1 \/ d[i].id <= d[i-1].id                                      \* C17 (a lower id only after a re-declared Ready)
NextIdTracksP(d, n) == d # <<>> => (n = d[Len(d)].id + 1 \/ n <= d[Len(d)].id + 1)
InOrder == InOrderP(DataIds)
\* step properties (s = before, t = after, e = action)
S == [acc |-> acc, hs |-> hs, nextId |-> nextId, calls |-> calls, deliv |-> deliv, run |-> run, srv |-> srv, sent |-> sent]
AcceptP(s, t, e) == (e.a = "Accept") => /\ t.acc = (e.kind = "valid")
                                         /\ (e.kind # "valid" => (t.run # "running" /\ t.deliv = s.deliv))
NotifyP(s, t, e) == (e.a = "Notify" /\ e.kind \in {"tx", "upd"}) =>
   IF s.acc /\ e.k = s.nextId THEN t.deliv = Append(s.deliv, [kind |-> e.kind, id |-> e.k]) /\ t.nextId = e.k + 1
                              ELSE t.deliv = s.deliv /\ t.nextId = s.nextId
\* (a call may also reach its own request time-out while a long scenario is running: that is judged by TimeoutOnTime, not here)
RespondP(s, t, e) == (e.a = "Respond") =>
   \A k \in Slots : (t.calls[k] # s.calls[k] /\ t.calls[k].res # "timeout") =>
        /\ s.calls[k].st = "pending" /\ t.calls[k].st = "done" /\ s.calls[k].kind = s.calls[e.k].kind
        /\ (e.kind = "ok" => (t.calls[k].res = "ok" /\ t.calls[k].rkey = s.calls[k].key /\ (s.calls[k].key = s.calls[e.k].key \/ s.calls[k].kind = "FeeQuotes")))
        /\ (e.kind = "reject" => t.calls[k].res = "reject")
        /\ (e.kind = "wrongkey" => s.calls[k].kind = "FeeQuotes")
AnsweredP(s, t, e) == (e.a = "Respond" /\ e.kind = "ok" /\ s.calls[e.k].st = "pending") => t.calls[e.k].st = "done"   \* the answer reaches its call
ReadyP(s, t, e) == (e.a = "Ready") => (t.nextId = (IF e.k = 0 THEN 1 ELSE e.k) /\ t.hs /\ t.deliv = s.deliv)                    \* C17
RejectSurfacesP(s, t, e) == (e.a = "Respond" /\ e.kind = "reject" /\ s.acc /\ s.calls[e.k].st = "pending") =>
                               (t.calls[e.k].st = "done" /\ t.calls[e.k].res \in {"reject", "timeout"} /\ (t.calls[e.k].res = "reject" => t.calls[e.k].rkey = s.calls[e.k].key))   \* C16
TimeoutP(s, t, e) == (e.a = "Timeout") => \A k \in Slots : IF s.calls[k].st = "pending" THEN t.calls[k].res = "timeout" ELSE t.calls[k] = s.calls[k]
NotifyOtherP(s, t, e) == (e.a = "Notify" /\ e.kind \in {"insync", "hdrs"}) =>                                           \* C17: every notification, in order
   (t.deliv = Append(s.deliv, [kind |-> e.kind, id |-> (IF e.kind = "insync" THEN 0 ELSE e.k)]) /\ t.nextId = s.nextId)
DropP(s, t, e) == (e.a = "Drop") => (t.nextId = s.nextId /\ t.deliv = s.deliv /\ ~t.acc /\ ~t.hs)                            \* C17: the resume point survives a reconnect
FlushP(s, t, e) == ((e.a = "Ready") \/ (e.a = "Accept" /\ e.kind = "valid" /\ ~Full)) =>                                   \* C18: queued requests go out with the handshake
   \A k \in Slots : t.calls[k].st = "pending" => t.sent[k]
WrittenP(t) == \A k \in Slots : (t.calls[k].st = "done" /\ t.calls[k].res \in {"ok", "reject"}) => t.sent[k]               \* C18: no answer without a written request
ReadyRaceP(s, t, e) == (e.a = "ReadyRace") => (t.deliv = Append(s.deliv, [kind |-> "tx", id |-> e.k]) /\ t.nextId = e.k + 1)   \* C17: from the declared id on
BurstP(s, t, e) == (e.a = "Burst") =>                                                                                       \* C17: order across notification kinds
   /\ t.deliv = s.deliv \o <<[kind |-> "hdrs", id |-> e.k]>>
                       \o (IF s.acc THEN <<[kind |-> "tx", id |-> s.nextId], [kind |-> "upd", id |-> s.nextId + 1]>> ELSE <<>>)
                       \o <<[kind |-> "insync", id |-> 0]>>
   /\ t.nextId = IF s.acc THEN s.nextId + 2 ELSE s.nextId
SubscribeP(s, t, e) == (e.a = "Subscribe") => t.srv = Append(s.srv, [t |-> e.kind, key |-> -1, hs |-> s.hs])               \* C18: subscriptions do not wait
QuietP(s, t, e) == (e.a \in {"Call", "Respond", "RespondStale", "Timeout", "Stop", "Subscribe"} /\ ~(e.a = "Respond" /\ s.calls[e.k].kind = "GetHeaders"))
                     => (t.deliv = s.deliv /\ t.nextId = s.nextId)                                                          \* C17: nothing else reaches handlers
CarriedP(s, t, e) == (e.a = "CallBig") => (t.srv = s.srv /\ t.calls[e.k].st = "pending")                            \* C18: nothing is written ...
CarryGatedP(s, t, e) == (e.a \in {"Drop", "Accept"} /\ ~t.hs) => \A i \in 1..Len(t.srv) : t.srv[i].t \in Handshake   \* ... on the next connection before its handshake
DataOf(d) == SelectSeq(d, LAMBDA x : x.kind \in {"tx", "upd"})
UnacceptedQuietP(s, t, e) == ~s.acc => DataOf(t.deliv) = DataOf(s.deliv)      \* C18: no data reaches handlers on a connection that is not accepted
StepProps == [][AcceptP(S, S', act') /\ NotifyP(S, S', act') /\ RespondP(S, S', act') /\ AnsweredP(S, S', act') /\ TimeoutP(S, S', act')
                /\ ReadyP(S, S', act') /\ NotifyOtherP(S, S', act') /\ DropP(S, S', act') /\ FlushP(S, S', act') /\ WrittenP(S')
                /\ QuietP(S, S', act') /\ SubscribeP(S, S', act') /\ BurstP(S, S', act') /\ ReadyRaceP(S, S', act')
                /\ CarriedP(S, S', act') /\ CarryGatedP(S, S', act') /\ UnacceptedQuietP(S, S', act')]_vars
RejectProps == [][RejectSurfacesP(S, S', act')]_vars
=============================================================================
