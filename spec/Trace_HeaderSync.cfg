SPECIFICATION TraceSpec
CONSTANTS
  R = 1000
  PT = {1}
  B = 700
  MaxSteps = 100000
INVARIANTS Done
CHECK_DEADLOCK FALSE
