SPECIFICATION TraceSpec
CONSTANTS
  N = 14
  Par <- ParBig
  W = 10
  MaxPend = 4
  Sizes <- SizesSim
  Mut = ""
INVARIANTS Done
CHECK_DEADLOCK FALSE
