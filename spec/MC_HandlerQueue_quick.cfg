SPECIFICATION Spec
CONSTANTS
  MaxSteps = 6
  MaxQ = 4
VIEW View
INVARIANTS InOrder
CHECK_DEADLOCK FALSE
