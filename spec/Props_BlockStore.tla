---- MODULE Props_BlockStore ----
(* Judgement of C09 on implementation traces: the abstract chain is recomputed from the      *)
(* recorded calls and their recorded results (contract layer only); every recorded answer of *)
(* the real repository must be the answer the abstract chain gives.                          *)
EXTENDS BlockStoreC, Json, SequencesExt

RhoReal == <<0, 1, 500, 999>>
RhoV1 == <<0, 2, 998, 999>>
RhoV2 == <<0, 1, 2, 999>>
RhoV3 == <<0, 997, 998, 999>>
Tr == ndJsonDeserialize("impl.ndjson")
VARIABLES l, abs, pabs, bad
pvars == <<l, abs, pabs, bad>>

E(i) == Act(Tr[i].a, Tr[i].t, Tr[i].n, Tr[i].rs)
Judge(i, a) == {<<"QueryOK", i>> : x \in {1} \ {IF AnswersP(Tr[i].obs, a) THEN 1 ELSE 0}}
          \cup {<<"NoPanic", i>> : x \in {1} \ {IF NoCrashP(Tr[i].obs) /\ Tr[i].rs # "panic" THEN 1 ELSE 0}}
          \cup {<<"NegOK", i>> : x \in {1} \ {IF NegP(Tr[i].obs) THEN 1 ELSE 0}}
          \cup {<<"RangeOK", i>> : x \in {1} \ {IF RangeP(Tr[i].obs, a) THEN 1 ELSE 0}}

PInit == l = 0 /\ abs = <<0>> /\ pabs = <<0>> /\ bad = {}
PNext == /\ l < Len(Tr) /\ l' = l + 1
         /\ IF Tr[l+1].a = "reset"
            THEN abs' = <<0>> /\ pabs' = <<0>>
            ELSE abs' = Ghost(abs, pabs, E(l+1)).a /\ pabs' = Ghost(abs, pabs, E(l+1)).p
         /\ bad' = bad \cup Judge(l + 1, abs')
PSpec == PInit /\ [][PNext]_pvars
Done == (l = Len(Tr)) => JsonSerialize("props_result.json", [lines |-> Len(Tr), bad |-> SetToSeq(bad)])
====
