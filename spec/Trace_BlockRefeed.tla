---- MODULE Trace_BlockRefeed ----
(* Strict trace validation for BlockRefeed: the real processBlocks loop, block handler and RefeedBlocksFromHeight against the model *)
(* of the code as it is (Fix = {}).                                                                                                 *)
EXTENDS MC_BlockRefeed, Json
Tr == ndJsonDeserialize("impl.ndjson")
VARIABLES l, rej
tvars == <<vars, l, rej>>
Pairs(s) == [i \in 1..Len(s) |-> <<s[i][1], s[i][2]>>]
Same(i) == LET s == Tr[i].st IN
  /\ next' = s.next /\ held' = s.held /\ out' = s.out /\ net' = s.net /\ provided' = Pairs(s.provided)
Step1(e) == CASE e.a = "Refeed" -> Refeed(e.x) [] e.a = "Loop" -> Loop [] e.a = "Answer" -> Answer [] e.a = "Deliver" -> Deliver [] OTHER -> FALSE
TMatch == /\ l < Len(Tr) /\ Tr[l+1].act.a # "init" /\ Tr[l+1].skip = ""
          /\ Step1(Tr[l+1].act) /\ Same(l+1) /\ l' = l + 1 /\ UNCHANGED rej
TStart(i) == /\ next' = 0 /\ want' = 0 /\ requested' = FALSE /\ held' = 0 /\ out' = <<>> /\ net' = <<>> /\ provided' = <<>> /\ stray' = <<>>
             /\ refeeds' = 0 /\ steps' = 0 /\ act' = A("init", 0) /\ l' = i
Begin == l < Len(Tr) /\ Tr[l+1].act.a = "init" /\ TStart(l+1) /\ UNCHANGED rej
NextInit(i) == IF \E j \in i..Len(Tr) : Tr[j].act.a = "init"
               THEN CHOOSE j \in i..Len(Tr) : Tr[j].act.a = "init" /\ \A k \in i..(j-1) : Tr[k].act.a # "init" ELSE 0
Resync == /\ l < Len(Tr) /\ Tr[l+1].act.a # "init" /\ ~ENABLED TMatch /\ rej' = Append(rej, l + 1)
          /\ LET j == NextInit(l + 1) IN IF j = 0 THEN l' = Len(Tr) /\ UNCHANGED vars ELSE TStart(j)
TraceSpec == Init /\ l = 0 /\ rej = <<>> /\ [][Begin \/ TMatch \/ Resync]_tvars
Done == (l = Len(Tr)) => JsonSerialize("trace_result.json", [lines |-> Len(Tr), rej |-> rej])
====
