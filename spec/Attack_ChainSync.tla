---- MODULE Attack_ChainSync ----
(* Attack-script derivation for ChainSync: the model with the repair switches of the known findings on *)
(* and one mutant; the shortest counterexample TLC finds becomes a script replayed on the real code.     *)
EXTENDS MC_ChainSync
ASpec == Spec
====
