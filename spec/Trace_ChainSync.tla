---- MODULE Trace_ChainSync ----
(* Strict trace validation for ChainSync: every recorded step of the replay driver must be the  *)
(* step of the specification with the same label and arguments, and every projected variable    *)
(* of the real node must have the value the specification computes.                             *)
EXTENDS MC_ChainSync, Json

Tr == ndJsonDeserialize("impl.ndjson")
VARIABLES l, rej
tvars == <<vars, l, rej>>

RangeS(s) == {s[i] : i \in 1..Len(s)}
RECURSIVE BagOf(_)
BagOf(s) == IF s = <<>> THEN EmptyBag ELSE BagAdd(BagOf(Tail(s)), Head(s))

Logged(i) == LET st == Tr[i].st IN
  /\ ptip' = st.ptip /\ pann' = st.pann /\ sendhdrs' = st.sendhdrs
  /\ net' = st.net /\ out' = st.out
  /\ chain' = st.chain /\ startH' = st.startH /\ req' = st.req /\ toReq' = st.toReq
  /\ lastSaved' = st.lastSaved /\ infl' = st.infl /\ inSync' = st.inSync /\ pendSync' = st.pendSync
  /\ hdrReq' = st.hdrReq /\ hsDone' = st.hsDone /\ notified' = st.notified /\ ann' = st.ann

Step(e) == CASE e.a = "PeerAdvance"    -> PeerAdvance(e.t)
             [] e.a = "PeerAnswer"     -> PeerAnswer(e.t) /\ out[e.t] = e.r
             [] e.a = "Deliver"        -> Deliver(e.t, e.k) /\ net[e.t] = e.m
             [] e.a = "AdvMsg"         -> AdvMsg(e.m)
             [] e.a = "UntrustedBlock" -> UntrustedBlock(e.m.b, e.m.f)
             [] e.a = "Check"          -> Check
             [] e.a = "ProcPop"        -> ProcPop
             [] e.a = "ProcCheck"      -> ProcCheck
             [] e.a = "ProcAdd"        -> ProcAdd
             [] e.a = "Restart"        -> Restart
             [] e.a = "Drop"           -> Drop
             [] e.a = "ProcRestart"    -> ProcRestart
             [] OTHER                  -> FALSE

IsStutter(i) == Tr[i].skip # "" \/ Tr[i].act.a = "final"
Match == /\ l < Len(Tr) /\ Tr[l+1].act.a # "init"
         /\ IF IsStutter(l+1)
            THEN UNCHANGED <<ptip, pann, sendhdrs, net, out, chain, startH, req, toReq, lastSaved, infl, inSync,
                             pendSync, hdrReq, hsDone, notified, ann, tipc, badNotify, restarts, prs, dups, advs, unts, chk, act>>
            ELSE Step(Tr[l+1].act)
         /\ Logged(l+1)
         /\ l' = l + 1 /\ UNCHANGED rej

TStart(i) == /\ tipc' = 0 /\ badNotify' = FALSE /\ restarts' = 0 /\ prs' = 0 /\ dups' = 0 /\ advs' = 0 /\ unts' = 0 /\ chk' = FALSE /\ act' = A0("init")
            /\ Logged(i) /\ l' = i
Begin == l < Len(Tr) /\ Tr[l+1].act.a = "init" /\ TStart(l+1) /\ UNCHANGED rej

NextInit(i) == IF \E j \in i..Len(Tr) : Tr[j].act.a = "init"
               THEN CHOOSE j \in i..Len(Tr) : Tr[j].act.a = "init" /\ \A k \in i..(j-1) : Tr[k].act.a # "init"
               ELSE 0
Resync == /\ l < Len(Tr) /\ Tr[l+1].act.a # "init" /\ ~ENABLED Match
          /\ rej' = Append(rej, l + 1)
          /\ LET j == NextInit(l + 1) IN
             IF j = 0 THEN l' = Len(Tr) /\ UNCHANGED vars ELSE TStart(j)

TraceInit == Init /\ l = 0 /\ rej = <<>>
TraceNext == Begin \/ Match \/ Resync
TraceSpec == TraceInit /\ [][TraceNext]_tvars
Done == (l = Len(Tr)) => JsonSerialize("trace_result.json", [lines |-> Len(Tr), rej |-> rej])
====
