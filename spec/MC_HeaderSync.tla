---- MODULE MC_HeaderSync ----
EXTENDS HeaderSync
View == <<chain, last, saved, req, fault, hs, ptip, steps>>
====
