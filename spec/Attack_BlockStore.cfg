SPECIFICATION ASpec
CONSTANTS
  K = 4
  MaxId = 14
  MaxH = 13
  RmMissingErr = TRUE
  Fixed <- @FIXED@
  Mut = "@MUT@"
  RTop = 4
  Rho <- RhoId4
VIEW View
INVARIANTS QueryOK NoPanic NegOK RangeOK
CHECK_DEADLOCK FALSE
