---- MODULE Props_ProofCases ----
(* C04 judgement for the enumerated block shapes (ProofCases.tla): at the step that processes the block, every      *)
(* transaction gets exactly the notification its class prescribes, carrying a merkle proof that the independent     *)
(* verifier of the harness accepted (field pv: root recomputed from txid, true index, path and duplicated layers,   *)
(* compared with the header the node holds at that height), unconfirmed depth zero; irrelevant transactions get     *)
(* none.  A block whose body does not hash to its header is not added and delivers nothing.                         *)
EXTENDS Integers, Sequences, FiniteSets, TLC, Json

Tr == ndJsonDeserialize("impl.ndjson")
Lines == 1..Len(Tr)
NewNotes(i) == {j \in (Len(Tr[i-1].st.dl) + 1)..Len(Tr[i].st.dl) : TRUE}
BlockOK(i) ==
  LET e == Tr[i].exp  d == Tr[i].st.dl IN
  /\ Tr[i].skip = ""
  /\ Tr[i].st.height = Tr[i-1].st.height + 1
  /\ \A t \in 1..Len(e) :
       IF e[t] = "none" THEN \A j \in 1..Len(d) : d[j].t # t
       ELSE /\ Cardinality({j \in NewNotes(i) : d[j].t = t}) = 1
            /\ \A j \in NewNotes(i) : d[j].t = t => (d[j].k = e[t] /\ d[j].proof /\ d[j].pv /\ d[j].depth = 0 /\ d[j].outs)
            /\ e[t] = "new" => \A j \in 1..Len(Tr[i-1].st.dl) : d[j].t # t
  /\ \A j \in NewNotes(i) : d[j].t \in 1..Len(e)
BadBlockOK(i) ==
  /\ Tr[i].st.height = Tr[i-1].st.height
  /\ Len(Tr[i].st.dl) = Len(Tr[i-1].st.dl)
  /\ ~(Len(Tr[i].skip) >= 8 /\ SubSeq(Tr[i].skip, 1, 8) = "ACCEPTED")
  /\ ~(Len(Tr[i].skip) >= 5 /\ SubSeq(Tr[i].skip, 1, 5) = "PANIC")
Bad == {<<"ProofCase", i>> : i \in {j \in Lines : Tr[j].act.a = "Block" /\ Len(Tr[j].exp) > 0 /\ ~BlockOK(j)}}
  \cup {<<"BadBodyRejected", i>> : i \in {j \in Lines : Tr[j].act.a = "BadBlock" /\ ~BadBlockOK(j)}}
ASSUME JsonSerialize("props_result.json", [lines |-> Len(Tr), bad |-> Bad])
VARIABLE x
Init == x = 0
Next == UNCHANGED x
Spec == Init /\ [][Next]_x
====
