---- MODULE Trace_BlockStore ----
(* Strict trace validation for BlockStore: the recorded calls are executed by the model's    *)
(* code layer (file size K, heights mapped by R); the call's result and every recorded       *)
(* answer must be the ones the model computes.  The range requests (gh) are excluded: with   *)
(* the scaled height map they are judged by the contract layer only (Props_BlockStore).      *)
EXTENDS MC_BlockStore, Json

Tr == ndJsonDeserialize("impl.ndjson")
VARIABLES l, rej
tvars == <<vars, l, rej>>

SameNext(o) == LET m == ObsC' IN      \* the model's observation in the successor state
           /\ o.h = m.h /\ o.tip = m.tip /\ o.hs = m.hs /\ o.hd = m.hd /\ o.ts = m.ts
           /\ o.neg = m.neg /\ o.hdtip = m.hdtip /\ o.bhtip = m.bhtip /\ o.ids = m.ids

Step(e) == CASE e.a = "Add"    -> Add /\ nextId = e.t
             [] e.a = "Save"   -> Save
             [] e.a = "Load"   -> Load
             [] e.a = "Revert" -> Revert(e.t)
             [] OTHER          -> FALSE

Match == /\ l < Len(Tr) /\ Tr[l+1].a # "reset"
         /\ Step(Tr[l+1]) /\ GhostNext /\ act'.rs = Tr[l+1].rs
         /\ SameNext(Tr[l+1].obs)
         /\ l' = l + 1 /\ UNCHANGED rej

Start(i) == /\ height' = 0 /\ last' = <<0>> /\ hmap' = (0 :> 0) /\ files' = [f \in FIdx |-> <<>>]
            /\ abs' = <<0>> /\ pabs' = <<0>> /\ nextId' = 1 /\ act' = Act("reset", 0, 0, "") /\ l' = i
Begin == l < Len(Tr) /\ Tr[l+1].a = "reset" /\ Start(l+1) /\ UNCHANGED rej

NextReset(i) == IF \E j \in i..Len(Tr) : Tr[j].a = "reset"
                THEN CHOOSE j \in i..Len(Tr) : Tr[j].a = "reset" /\ \A k \in i..(j-1) : Tr[k].a # "reset"
                ELSE 0
Resync == /\ l < Len(Tr) /\ Tr[l+1].a # "reset" /\ ~ENABLED Match
          /\ rej' = Append(rej, l + 1)
          /\ LET j == NextReset(l + 1) IN
             IF j = 0 THEN l' = Len(Tr) /\ UNCHANGED vars ELSE Start(j)

TraceInit == Init /\ l = 0 /\ rej = <<>>
TraceNext == Begin \/ Match \/ Resync
TraceSpec == TraceInit /\ [][TraceNext]_tvars
Done == (l = Len(Tr)) => JsonSerialize("trace_result.json", [lines |-> Len(Tr), rej |-> rej])
====
