SPECIFICATION SimSpec
CONSTANTS
  MaxMsgs = 8
  Lens <- Lens3
CHECK_DEADLOCK FALSE
