SPECIFICATION SimSpec
CONSTANTS
  N = 7
  Par <- Par7
  Start = 2
  W = 10
  Batch = 2
  AnnMax = 8
  MaxTip = 3
  MaxRestart = 2
  MaxPR = 1
  Drops = TRUE
  MaxDup = 2
  MaxAdv = 0
  Calm = FALSE
  Fifo = TRUE
  MaxUnt = 0
  InitTips <- Tips134
  Fix <- CodeFix
  Mut = ""
CHECK_DEADLOCK FALSE
