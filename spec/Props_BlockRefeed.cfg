SPECIFICATION PSpec
CONSTANTS
  H = 4
  MaxRefeed = 1000
  MaxSteps = 100000
  Fix <- NoFix
CHECK_DEADLOCK FALSE
