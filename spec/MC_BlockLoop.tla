---- MODULE MC_BlockLoop ----
EXTENDS BlockLoop
View == <<ann, req, toReq, wire, ans, net, done, steps>>
====
