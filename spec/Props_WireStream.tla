---- MODULE Props_WireStream ----
(* C15 judged on implementation traces. *)
EXTENDS MC_WireStream, Json
Tr == ndJsonDeserialize("impl.ndjson")
Lines == 1..Len(Tr)
Ops == {i \in Lines : Tr[i].act.a # "init" /\ Tr[i].skip = ""}
F(name, X) == {<<name, i>> : i \in X}
St(i) == Tr[i].st
Bad == F("RoundTrip", {i \in Ops : Tr[i].act.a = "Read" /\ ~(Tr[i].act.res = "ok" /\ Tr[i].eq /\ Tr[i].act.t = St(i).w[St(i).r].t)})
  \cup F("ExactConsumption", {i \in Ops : Tr[i].act.a = "Read" /\ Tr[i].act.res = "ok" /\ Tr[i].act.n # St(i).w[St(i).r].n})
  \cup F("Framing", {i \in Lines : ~(St(i).r <= Len(St(i).w) /\ St(i).pos = SumN(St(i).w, St(i).r))})
  \cup F("PrefixFails", {i \in Ops : Tr[i].act.a = "Cut" /\ Tr[i].act.res # "error"})
  \cup F("Encodable", {i \in Lines : Len(Tr[i].skip) >= 6 /\ SubSeq(Tr[i].skip, 1, 6) = "encode"})
  \cup F("NoPanic", {i \in Ops : Tr[i].act.res = "panic"})
ASSUME JsonSerialize("props_result.json", [lines |-> Len(Tr), bad |-> Bad])
PSpec == Init /\ [][UNCHANGED vars]_vars
====
