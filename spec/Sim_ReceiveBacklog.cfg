SPECIFICATION SimSpec
CONSTANTS
  MaxSteps = 16
  MaxQ = 6
  MaxConn = 3
CHECK_DEADLOCK FALSE
