---------------------------- MODULE BlockLoop ----------------------------
(***************************************************************************)
(* C13 at the level of the wire: what the real block processor loop        *)
(* (spynode/blocks.go processBlocks : 23-110, the part after ProcessBlock  *)
(* that asks for the next blocks) and the headers handler put on the       *)
(* trusted connection as getdata(block) while a chain of N blocks is       *)
(* announced, delivered and processed.                                     *)
(*                                                                         *)
(*   Announce(k)  a headers message with the next k headers                *)
(*                (handlers/headers.go -> State.AddBlockRequest: requested *)
(*                at once while the window has room, queued otherwise)     *)
(*   Answer       the peer answers the oldest unanswered request           *)
(*   Deliver      the block message is handled (State.AddBlock)            *)
(*   Loop         one iteration of processBlocks: pop the head of the      *)
(*                window if its block has arrived, process it, then move   *)
(*                queued blocks into the window and request them           *)
(***************************************************************************)
EXTENDS Integers, Sequences, FiniteSets, TLC
CONSTANTS N, W, MaxBatch, MaxSteps
VARIABLES ann,     \* headers announced so far
          req,     \* the window: requested, not yet processed: <<[b, f]>>
          toReq,   \* announced, not yet requested
          wire,    \* every block request written to the connection, in order
          ans,     \* how many of them the peer has answered
          net,     \* block messages on their way to the node
          done,    \* blocks processed (height of the chain above the start block)
          steps, act
vars == <<ann, req, toReq, wire, ans, net, done, steps, act>>
A(a, x) == [a |-> a, x |-> x]
Init == ann = 0 /\ req = <<>> /\ toReq = <<>> /\ wire = <<>> /\ ans = 0 /\ net = <<>> /\ done = 0 /\ steps = 0 /\ act = A("init", 0)
Step == steps < MaxSteps /\ steps' = steps + 1

RECURSIVE Place(_, _, _, _)
Place(bs, r, t, w) ==     \* AddBlockRequest for each header in turn: returns [req, toReq, wire]
  IF bs = <<>> THEN [req |-> r, toReq |-> t, wire |-> w]
  ELSE IF Len(r) < W /\ t = <<>> THEN Place(Tail(bs), Append(r, [b |-> Head(bs), f |-> FALSE]), t, Append(w, Head(bs)))
       ELSE Place(Tail(bs), r, Append(t, Head(bs)), w)

Announce(k) ==
  /\ Step /\ k \in 1..MaxBatch /\ ann + k <= N
  /\ LET p == Place([i \in 1..k |-> ann + i], req, toReq, wire) IN req' = p.req /\ toReq' = p.toReq /\ wire' = p.wire
  /\ ann' = ann + k /\ act' = A("Announce", k) /\ UNCHANGED <<ans, net, done>>

Answer == /\ Step /\ ans < Len(wire) /\ ans' = ans + 1 /\ net' = Append(net, wire[ans + 1])
          /\ act' = A("Answer", wire[ans + 1]) /\ UNCHANGED <<ann, req, toReq, wire, done>>

Deliver == /\ Step /\ net # <<>> /\ net' = Tail(net)
           /\ req' = [i \in 1..Len(req) |-> IF req[i].b = Head(net) THEN [req[i] EXCEPT !.f = TRUE] ELSE req[i]]
           /\ act' = A("Deliver", Head(net)) /\ UNCHANGED <<ann, toReq, wire, ans, done>>

RECURSIVE Fill(_, _, _)
Fill(r, t, w) == IF Len(r) < W /\ t # <<>> THEN Fill(Append(r, [b |-> Head(t), f |-> FALSE]), Tail(t), Append(w, Head(t)))
                 ELSE [req |-> r, toReq |-> t, wire |-> w]
Loop ==
  /\ Step
  /\ IF req # <<>> /\ Head(req).f
     THEN LET p == Fill(Tail(req), toReq, wire) IN req' = p.req /\ toReq' = p.toReq /\ wire' = p.wire /\ done' = done + 1
     ELSE UNCHANGED <<req, toReq, wire, done>>          \* nothing to pop: the loop sleeps
  /\ act' = A("Loop", 0) /\ UNCHANGED <<ann, ans, net>>

Next == (\E k \in 1..MaxBatch : Announce(k)) \/ Answer \/ Deliver \/ Loop
Spec == Init /\ [][Next]_vars
-----------------------------------------------------------------------------
S == [wire |-> wire, done |-> done]
WireOnceP(s) == \A i, j \in 1..Len(s.wire) : s.wire[i] = s.wire[j] => i = j         \* each announced block at most once per connection
WireOrderP(s) == \A i \in 1..Len(s.wire) : s.wire[i] = i                             \* in chain order
WindowP(s) == Len(s.wire) - s.done <= W                                              \* never more than W requested-but-unprocessed
WireOnce == WireOnceP(S)
WireOrder == WireOrderP(S)
Window == WindowP(S)
=============================================================================
