---- MODULE Trace_BlockLoop ----
EXTENDS MC_BlockLoop, Json
Tr == ndJsonDeserialize("impl.ndjson")
VARIABLES l, rej
tvars == <<vars, l, rej>>
Same(i) == LET s == Tr[i].st IN
  /\ ann' = s.ann /\ req' = s.req /\ toReq' = s.toReq /\ wire' = s.wire /\ ans' = s.ans /\ net' = s.net /\ done' = s.done
Step1(e) == CASE e.a = "Announce" -> Announce(e.x) [] e.a = "Answer" -> Answer [] e.a = "Deliver" -> Deliver [] e.a = "Loop" -> Loop [] OTHER -> FALSE
TMatch == /\ l < Len(Tr) /\ Tr[l+1].act.a # "init" /\ Tr[l+1].skip = ""
          /\ Step1(Tr[l+1].act) /\ Same(l+1) /\ l' = l + 1 /\ UNCHANGED rej
TStart(i) == /\ ann' = 0 /\ req' = <<>> /\ toReq' = <<>> /\ wire' = <<>> /\ ans' = 0 /\ net' = <<>> /\ done' = 0 /\ steps' = 0 /\ act' = A("init", 0) /\ l' = i
Begin == l < Len(Tr) /\ Tr[l+1].act.a = "init" /\ TStart(l+1) /\ UNCHANGED rej
NextInit(i) == IF \E j \in i..Len(Tr) : Tr[j].act.a = "init"
               THEN CHOOSE j \in i..Len(Tr) : Tr[j].act.a = "init" /\ \A k \in i..(j-1) : Tr[k].act.a # "init" ELSE 0
Resync == /\ l < Len(Tr) /\ Tr[l+1].act.a # "init" /\ ~ENABLED TMatch /\ rej' = Append(rej, l + 1)
          /\ LET j == NextInit(l + 1) IN IF j = 0 THEN l' = Len(Tr) /\ UNCHANGED vars ELSE TStart(j)
TraceSpec == Init /\ l = 0 /\ rej = <<>> /\ [][Begin \/ TMatch \/ Resync]_tvars
Done == (l = Len(Tr)) => JsonSerialize("trace_result.json", [lines |-> Len(Tr), rej |-> rej])
====
