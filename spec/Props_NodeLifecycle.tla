---- MODULE Props_NodeLifecycle ----
(* C19 judged on implementation traces: the formulas of NodeLifecycle on the recorded observations, plus the facts only *)
(* the real run has (how long Stop took, call-backs after Stop returned, what a fresh process finds in storage).         *)
EXTENDS MC_NodeLifecycle, Json
Tr == ndJsonDeserialize("impl.ndjson")
Lines == 1..Len(Tr)
Steps == {i \in Lines : i > 1 /\ Tr[i].act.a # "init" /\ Tr[i].skip = ""}
StopBoundMs == 5000
St(i) == [run |-> Tr[i].st.run, epoch |-> Tr[i].st.epoch, hs |-> Tr[i].st.hs, done |-> Tr[i].st.done, ntx |-> Tr[i].st.ntx,
          stopRet |-> Tr[i].st.stopRet, phases |-> Tr[i].st.phases, saved |-> Tr[i].st.saved, locTop |-> Tr[i].st.locTop, gate |-> Tr[i].st.gate]
E(i) == [a |-> Tr[i].act.a, n |-> Tr[i].act.n, k |-> Tr[i].act.k]
F(name, X) == {<<name, i>> : i \in X}
Consecutive(h) == \A j \in 1..Len(h) : h[j] = j
Bad == F("StopTerminates", {i \in Steps : ~StopP(St(i-1), St(i), E(i)) \/ ~ReleaseStopP(St(i-1), St(i), E(i))
                                          \/ (Tr[i].st.stopRet /\ Tr[i].st.stopMs > StopBoundMs)
                                          \/ (Tr[i].act.a = "Release" /\ Tr[i-1].st.stopReq /\ ~Tr[i].st.stopRet)})
  \cup F("SavedAtStop", {i \in Lines : Tr[i].st.run = "stopped" /\ ~(Tr[i].st.saved.tip = Tr[i].st.done /\ Tr[i].st.saved.utx = Tr[i].st.ntx
                                                                      /\ (Tr[i].st.epoch > 0 => Tr[i].st.peers))})
  \cup F("SavedAtRestart", {i \in Steps : ~CloseP(St(i-1), St(i), E(i))})
  \cup F("SilentAfterStop", {i \in Lines : Tr[i].st.cbAfter # 0})
  \cup F("ResumeFromTip", {i \in Steps : ~ResumeP(St(i-1), St(i), E(i))})
  \cup F("NoReannounce", {i \in Lines : ~Consecutive(Tr[i].st.hdrs)} \cup {i \in Steps : ~NoReannounceP(St(i-1), St(i), E(i))})
  \cup F("PhaseOrder", {i \in Lines : ~OrderP(St(i))})
  \cup F("FeedSafe", {i \in Lines : LET f == Tr[i].st.feed IN           \* a client thread submitting transactions during a shutdown: never a panic,
          \/ (Len(f) >= 5 /\ SubSeq(f, 1, 5) = "PANIC")                     \* and once Stop has returned its call has returned too
          \/ (Tr[i].st.stopRet /\ f = "blocked")})
  \cup F("NoPanic", {i \in Lines : Len(Tr[i].skip) >= 5 /\ SubSeq(Tr[i].skip, 1, 5) = "PANIC"})
ASSUME JsonSerialize("props_result.json", [lines |-> Len(Tr), bad |-> Bad])
PSpec == Init /\ [][UNCHANGED vars]_vars
====
