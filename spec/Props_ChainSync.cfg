SPECIFICATION PSpec
CONSTANTS
  N = 7
  Par <- Par7
  Start = 2
  W = 10
  Batch = 2
  AnnMax = 8
  MaxTip = 100
  MaxRestart <- Unb
  MaxPR = 100
  Drops = TRUE
  MaxDup = 100
  MaxAdv = 100
  Calm = FALSE
  Fifo = FALSE
  MaxUnt = 100
  InitTips <- Tips134
  Fix <- CodeFix
  Mut = ""
CHECK_DEADLOCK FALSE
