---- MODULE MC_BlockStore ----
EXTENDS BlockStore
AllFixed == {"revert", "neg", "load", "range"}
NoneFixed == {}
FxNoRevert == AllFixed \ {"revert"}
FxNoNeg == AllFixed \ {"neg"}
FxNoLoad == AllFixed \ {"load"}
FxNoRange == AllFixed \ {"range"}
RhoId3 == <<0, 1, 2>>
RhoId4 == <<0, 1, 2, 3>>
RhoReal == <<0, 1, 500, 999>>
RhoV1 == <<0, 2, 998, 999>>
RhoV2 == <<0, 1, 2, 999>>
RhoV3 == <<0, 997, 998, 999>>
View == <<height, last, hmap, files, abs, pabs, nextId>>
====
