---- MODULE MC_HandlerQueue ----
EXTENDS HandlerQueue
View == <<ep, acc, nextId, held, hq, deliv, sent, steps>>
====
