---------------------------- MODULE ChainSync ----------------------------
(***************************************************************************)
(* Header and block synchronisation of spynode with its trusted peer.      *)
(*   handlers/headers.go   HandleHeaders, HStep (one header), CheckStart   *)
(*   handlers/block.go     HandleBlock (trusted and untrusted connections) *)
(*   spynode/blocks.go     ProcPop / ProcCheck / ProcAdd (processBlocks,   *)
(*                         ProcessBlock: three critical sections, no       *)
(*                         common lock with the handlers)                  *)
(*   spynode/node.go       Check (check()), Restart (time-out reconnect),  *)
(*                         CleanRestart (Stop; new process on the storage) *)
(*   spynode/outgoing.go   Locator (buildHeaderRequest)                    *)
(*   state/requests.go     AddReq, ClearAfter, MoreRequests                *)
(* and a Bitcoin peer (PeerAdvance, PeerAnswer), the network (net, out),   *)
(* optional adversarial input (AdvHeaders, AdvBlock: C02) and an untrusted *)
(* connection delivering block messages into the shared request state      *)
(* (UntrustedBlock: C12).                                                  *)
(* Properties: C01 (Convergence, InSyncNotifyOK), C02 (Linked, NoDupChain, *)
(* GrowsAtTip, Inverse, AnnouncedContiguous), C12 (chain part), C13        *)
(* (WindowOK, OncePerConn, ForkDiscard at handler level).                  *)
(***************************************************************************)
EXTENDS Integers, Sequences, FiniteSets, TLC

CONSTANTS N,              \* blocks are 1..N ; 0 is genesis
          Par,            \* Par[b] = parent of b
          Start,          \* configured start block (a block id; N+5 = never found)
          W,              \* max concurrently requested blocks (code: 10)
          Batch,          \* max headers in one headers answer of the peer (Bitcoin: 2000)
          AnnMax,         \* max headers in an unsolicited announcement (Bitcoin Core: 8), else a block inv is sent
          MaxTip,         \* bound on peer best-tip changes
          MaxRestart,     \* bound on time-out reconnects (-1 = unbounded)
          Drops,          \* TRUE: the connection may also be lost at any moment (counts against MaxRestart)
          MaxPR,          \* bound on process restarts
          MaxDup,         \* bound on duplicated deliveries
          MaxAdv,         \* bound on adversarial messages from the trusted connection (C02)
          MaxUnt,         \* bound on block messages delivered by an untrusted connection (C12)
          Calm,           \* TRUE: the peer's best chain only changes while the node is in sync and idle
          Fifo,           \* TRUE: the trusted connection delivers in sending order (TCP); FALSE: any order
          InitTips,       \* initial peer tips
          Fix             \* set of repaired defects the model assumes, subset of
                          \*   "inflight" : the block popped by the processor stays visible to the handlers (F1, F23)
                          \*   "recheck"  : blocks.Add happens only if the block still extends the tip (F2)
                          \*   "stale"    : block messages of untrusted connections are ignored (F4)
                          \*   "blockinv" : a tip change is announced by headers even before "sendheaders" (F24)
                          \*   "unknownkeeps" : a header that does not connect ends the message without dropping the block requests
                          \*                    the earlier headers of the message caused (F42)
CONSTANT Mut              \* "" or the name of a mutant (attack-script derivation only)

Blocks == 1..N
Unknown == N + 1          \* a header whose parent (N + 2) nobody knows
ParX(b) == IF b \in Blocks THEN Par[b] ELSE N + 2
None == [b |-> 0, f |-> 0, pc |-> "idle"]

RECURSIVE Ht(_)
Ht(b) == IF b = 0 THEN 0 ELSE 1 + Ht(Par[b])
RECURSIVE PathTo(_)
PathTo(b) == IF b = 0 THEN <<>> ELSE Append(PathTo(Par[b]), b)   \* genesis excluded
Range(s) == {s[i] : i \in 1..Len(s)}
Last(s) == s[Len(s)]

VARIABLES
  ptip, tipc,             \* peer best tip, number of tip changes so far
  pann,                   \* tip the peer believes the node knows (for announcements)
  sendhdrs,               \* node sent "sendheaders" on this connection
  net,                    \* messages in flight peer -> node, in sending order
  out,                    \* requests in flight node -> peer, in sending order
  chain,                  \* block repository: heights 1..Len(chain)
  startH,                 \* -1 until the start block was found
  req, toReq, lastSaved,  \* state/requests.go
  infl,                   \* block popped by the processor, not yet added
  inSync, pendSync, hdrReq, hsDone, notified,
  ann,                    \* history: heights announced to handlers (HandleHeaders), in order
  badNotify,              \* history: in-sync notification sent while a block was still pending
  restarts, prs, dups, advs, unts,
  chk,                    \* a message was handled and check() has not run since: monitorIncoming runs check() before it reads the
                          \* next message (node.go:785), so no second message is handled while a check that changes something is due
  act                     \* label of the last action (for scripts / traces)

nvars == <<chain, startH, req, toReq, lastSaved, infl, inSync, pendSync, hdrReq, hsDone, notified>>
vars == <<ptip, tipc, pann, sendhdrs, net, out, chain, startH, req, toReq, lastSaved, infl, inSync,
          pendSync, hdrReq, hsDone, notified, ann, badNotify, restarts, prs, dups, advs, unts, chk, act>>

Tip == IF chain = <<>> THEN 0 ELSE Last(chain)
ChainHas(b) == b = 0 \/ b \in Range(chain)
HashAt(h) == IF h = 0 THEN 0 ELSE chain[h]
BagAdd(B, x) == IF x \in DOMAIN B THEN [B EXCEPT ![x] = @ + 1] ELSE (x :> 1) @@ B
BagRem(B, x) == IF B[x] = 1 THEN [y \in DOMAIN B \ {x} |-> B[y]] ELSE [B EXCEPT ![x] = @ - 1]
RECURSIVE BagAddAll(_, _)
BagAddAll(B, s) == IF s = <<>> THEN B ELSE BagAddAll(BagAdd(B, Head(s)), Tail(s))
EmptyBag == <<>>
GD(b) == [t |-> "gd", b |-> b, loc |-> <<>>]
GH(loc) == [t |-> "gh", b |-> 0, loc |-> loc]
HdrMsg(hs) == [t |-> "hdr", hs |-> hs, b |-> 0, f |-> 0]
BlkMsg(b, f) == [t |-> "blk", hs |-> <<>>, b |-> b, f |-> f]
A0(a) == [a |-> a, m |-> HdrMsg(<<>>), r |-> GD(0), t |-> 0, k |-> FALSE]
AM(a, m, k) == [A0(a) EXCEPT !.m = m, !.k = k]
AR(a, r) == [A0(a) EXCEPT !.r = r]
AT(a, t) == [A0(a) EXCEPT !.t = t]

ReqBlocks == {req[i].b : i \in 1..Len(req)}
StateLastHash == IF toReq # <<>> THEN Last(toReq)
                 ELSE IF req # <<>> THEN Last(req).b ELSE lastSaved

-----------------------------------------------------------------------------
(* state/requests.go : AddBlockRequest on a record s with fields req,toReq,lastSaved *)
AddReq(s, prev, b) ==
  IF s.toReq # <<>>
  THEN IF Last(s.toReq) # prev THEN [s |-> s, ok |-> FALSE, send |-> FALSE]
       ELSE [s |-> [s EXCEPT !.toReq = Append(@, b)], ok |-> TRUE, send |-> FALSE]
  ELSE IF (s.req # <<>> /\ Last(s.req).b # prev) \/ (s.req = <<>> /\ s.lastSaved # prev)
  THEN [s |-> s, ok |-> FALSE, send |-> FALSE]
  ELSE IF Len(s.req) >= W
  THEN [s |-> [s EXCEPT !.toReq = <<b>>], ok |-> TRUE, send |-> FALSE]
  ELSE [s |-> [s EXCEPT !.req = Append(@, [b |-> b, f |-> 0])], ok |-> TRUE, send |-> TRUE]

ClearAfter(s, h) ==
  IF \E i \in 1..Len(s.req) : s.req[i].b = h
  THEN LET i == CHOOSE i \in 1..Len(s.req) : s.req[i].b = h
       IN [s EXCEPT !.req = SubSeq(@, 1, i), !.toReq = <<>>]
  ELSE IF \E i \in 1..Len(s.toReq) : s.toReq[i] = h
  THEN LET i == CHOOSE i \in 1..Len(s.toReq) : s.toReq[i] = h
       IN [s EXCEPT !.toReq = SubSeq(@, 1, i)]
  ELSE s

(* handlers/headers.go : one header.  s carries the handler-local and the shared state. *)
SChainHas(s, b) == b = 0 \/ b \in Range(s.chain)
SHeight(s, b) == IF b = 0 THEN 0 ELSE CHOOSE i \in 1..Len(s.chain) : s.chain[i] = b
SIsReq(s, b) == \E i \in 1..Len(s.req) : s.req[i].b = b
SIsToReq(s, b) == b \in Range(s.toReq)

CheckStart(s, b) ==      \* checkStartHeight: returns [s, request]
  IF s.startH # -1 THEN [s |-> s, request |-> TRUE]
  ELSE IF b = Start
       THEN [s |-> [s EXCEPT !.startH = Len(s.chain) + 1, !.lastSaved = ParX(b)], request |-> TRUE]
       ELSE [s |-> [s EXCEPT !.chain = Append(@, b), !.lastSaved = b], request |-> FALSE]

TryRequest(s, b) ==      \* checkStart + AddBlockRequest + getdata bookkeeping
  LET cs == CheckStart(s, b) IN
  IF ~cs.request THEN cs.s
  ELSE LET r == AddReq(cs.s, ParX(b), b) IN
       IF r.send THEN [r.s EXCEPT !.gd = Append(@, b)] ELSE r.s

HStep(s, b) ==
  IF s.stop THEN s
  ELSE IF s.lastHash = ParX(b)                          \* next header (headers.go:84)
  THEN [TryRequest(s, b) EXCEPT !.lastHash = b, !.modified = TRUE]
  ELSE IF b = s.lastHash THEN s                         \* already latest header (:121)
  ELSE IF (SChainHas(s, b) /\ Mut # "KnownCheckDropped") \/ SIsReq(s, b) \/ SIsToReq(s, b) THEN s   \* already known (:132)
  ELSE IF "inflight" \in Fix /\ s.inflb # 0 /\ (b = s.inflb \/ ParX(b) = s.inflb) /\ s.lastHash = s.inflb
  THEN (IF b = s.inflb THEN s ELSE [TryRequest([s EXCEPT !.lastSaved = s.inflb], b) EXCEPT !.lastHash = b, !.modified = TRUE])
  ELSE IF SIsReq(s, ParX(b)) \/ SIsToReq(s, ParX(b))    \* reorg in pending blocks (:138)
  THEN LET s1 == ClearAfter(s, ParX(b))
           r == IF Mut = "PendingForkNotRequested" THEN [s |-> s1, ok |-> FALSE, send |-> FALSE] ELSE AddReq(s1, ParX(b), b)
           s2 == IF r.send THEN [r.s EXCEPT !.gd = Append(@, b)] ELSE r.s
       IN [s2 EXCEPT !.lastHash = b, !.modified = TRUE]
  ELSE IF SChainHas(s, ParX(b))                          \* reorg in processed blocks (:168)
  THEN LET rh == SHeight(s, ParX(b)) IN
       IF rh = Len(s.chain)
       THEN [s EXCEPT !.inSync = FALSE, !.req = <<>>, !.toReq = <<>>]     \* "Reorg on latest block" (:170)
       ELSE LET s1 == [s EXCEPT !.inSync = FALSE, !.req = <<>>, !.toReq = <<>>,
                                !.chain = SubSeq(@, 1, rh), !.lastSaved = IF Mut = "RevertNoSetLastHash" THEN @ ELSE ParX(b)]
            IN [TryRequest(s1, b) EXCEPT !.lastHash = b, !.modified = TRUE]
  ELSE [s EXCEPT !.stop = TRUE,                           \* unknown header (:270): the rest of the message is not looked at.  It used to be
                 !.gd = IF "unknownkeeps" \in Fix THEN @ ELSE <<>>,         \* "return nil, nil", which also dropped the requests collected so far
                 !.inSync = IF "unknownpoll" \in Fix THEN FALSE ELSE @]     \* repaired ("unknownpoll"): the node leaves the in-sync state, check() polls again

RECURSIVE HFold(_, _)
HFold(s, hs) == IF hs = <<>> THEN s ELSE HFold(HStep(s, Head(hs)), Tail(hs))

(* handlers/headers.go:44 Handle *)
HandleHeaders(hs) ==
  LET lh == StateLastHash IN
  IF ~inSync /\ (hs = <<>> \/ (Len(hs) = 1 /\ hs[1] = lh))
  THEN \* "Headers in sync" (:62)
       /\ pendSync' = TRUE
       /\ inSync' = (startH = -1 \/ Mut = "InSyncIgnoresRequests" \/ (req = <<>> /\ toReq = <<>> /\ ("inflight" \notin Fix \/ infl = None)))
       /\ hdrReq' = FALSE
       /\ UNCHANGED <<chain, startH, req, toReq, lastSaved, out>>
  ELSE LET s0 == [chain |-> chain, startH |-> startH, req |-> req, toReq |-> toReq,
                  lastSaved |-> lastSaved, inSync |-> inSync, lastHash |-> lh, inflb |-> infl.b,
                  modified |-> FALSE, stop |-> FALSE, gd |-> <<>>]
           s == HFold(s0, hs)
       IN /\ chain' = s.chain /\ startH' = s.startH
          /\ req' = s.req /\ toReq' = s.toReq /\ lastSaved' = s.lastSaved
          /\ inSync' = s.inSync
          /\ hdrReq' = IF s.modified /\ (~s.stop \/ "unknownkeeps" \in Fix) THEN FALSE ELSE hdrReq
          /\ out' = out \o [i \in 1..Len(s.gd) |-> GD(s.gd[i])]
          /\ UNCHANGED pendSync

(* handlers/block.go : state.AddBlock *)
HandleBlock(b, f) ==
  /\ req' = IF \E i \in 1..Len(req) : req[i].b = b
            THEN LET i == CHOOSE i \in 1..Len(req) : req[i].b = b IN [req EXCEPT ![i].f = f]
            ELSE req
  /\ UNCHANGED <<chain, startH, toReq, lastSaved, inSync, pendSync, hdrReq, out>>

-----------------------------------------------------------------------------
(* spynode/outgoing.go : buildHeaderRequest *)
ReqHash(delta) == IF Len(toReq) > delta THEN <<toReq[Len(toReq) - delta]>>
                  ELSE IF Len(req) > delta THEN <<req[Len(req) - delta].b>> ELSE <<>>
RECURSIVE LocLoop(_)
LocLoop(d) == IF d > Len(chain) THEN <<>>
              ELSE <<HashAt(Len(chain) - d)>> \o (IF Len(chain) <= d \/ (d = 0 /\ Mut = "LocatorDeltaZero") THEN <<>>
                                                   ELSE LocLoop(IF d = 0 THEN 1 ELSE 2 * d))
Locator(delta) == ReqHash(delta) \o LocLoop(delta)

MoreRequests(rq, tr) ==   \* GetNextBlockToRequest loop: returns <<req, toReq, newly requested>>
  LET k == IF Len(tr) < W - Len(rq) THEN Len(tr) ELSE (IF W > Len(rq) THEN W - Len(rq) ELSE 0)
  IN <<rq \o [i \in 1..k |-> [b |-> tr[i], f |-> 0]], SubSeq(tr, k+1, Len(tr)), SubSeq(tr, 1, k)>>

CanNotify == ~notified /\ (Mut = "NotifyWithRequests" \/ (req = <<>> /\ toReq = <<>>)) /\ ("inflight" \notin Fix \/ infl = None)   \* node.go: NotifiedSync, BlockRequestsEmpty
CheckGuard == \/ ~hsDone \/ (inSync /\ (~sendhdrs \/ CanNotify))
              \/ (~inSync /\ ~hdrReq /\ Len(req) + Len(toReq) < 5 /\ Mut # "NoPollMore")

(* spynode/node.go:868 check() *)
Check ==
  /\ CheckGuard     \* only when it changes something
  /\ LET hs == ~hsDone
         out1 == IF hs THEN Append(out, GH(Locator(0))) ELSE out
         hdrReq1 == hs \/ hdrReq
     IN /\ hsDone' = TRUE
        /\ IF inSync
           THEN /\ sendhdrs' = TRUE
                /\ notified' = (notified \/ CanNotify)
                /\ badNotify' = (badNotify \/ (CanNotify /\ infl # None))
                /\ out' = out1 /\ hdrReq' = hdrReq1
           ELSE /\ UNCHANGED <<sendhdrs, notified, badNotify>>
                /\ IF ~hdrReq1 /\ Len(req) + Len(toReq) < 5 /\ Mut # "NoPollMore"
                   THEN out' = Append(out1, GH(Locator(1))) /\ hdrReq' = TRUE
                   ELSE out' = out1 /\ hdrReq' = hdrReq1
  /\ act' = A0("Check") /\ chk' = FALSE
  /\ UNCHANGED <<ptip, tipc, pann, net, chain, startH, req, toReq, lastSaved, infl, inSync,
                 pendSync, ann, restarts, prs, dups, advs, unts>>

(* spynode/blocks.go : processBlocks loop, three critical sections *)
ProcPop ==               \* state.NextBlock() (blocks.go:61)
  /\ infl = None /\ req # <<>> /\ Head(req).f # 0
  /\ infl' = [b |-> Head(req).b, f |-> Head(req).f, pc |-> "popped"]
  /\ lastSaved' = Head(req).b
  /\ req' = Tail(req)
  /\ act' = A0("ProcPop")
  /\ UNCHANGED <<chk, ptip, tipc, pann, sendhdrs, net, out, chain, startH, toReq, inSync, pendSync,
                 hdrReq, hsDone, notified, ann, badNotify, restarts, prs, dups, advs, unts>>

ProcDone(rq, tr) ==      \* request more blocks after ProcessBlock returned (blocks.go:78)
  LET m == MoreRequests(rq, tr) IN
  /\ req' = m[1] /\ toReq' = m[2]
  /\ out' = out \o [i \in 1..Len(m[3]) |-> GD(m[3][i])]
  /\ infl' = None

ProcCheck ==             \* ProcessBlock: Contains / previous-hash checks (blocks.go:206-217)
  /\ infl # None /\ infl.pc = "popped"
  /\ IF (ChainHas(infl.b) /\ Mut # "NoContainsCheck") \/ (Par[infl.b] # Tip /\ Mut # "NoPrevCheck")
     THEN ProcDone(req, toReq)
     ELSE infl' = [infl EXCEPT !.pc = "checked"] /\ UNCHANGED <<req, toReq, out>>
  /\ act' = A0("ProcCheck")
  /\ UNCHANGED <<chk, ptip, tipc, pann, sendhdrs, net, chain, startH, lastSaved, inSync, pendSync,
                 hdrReq, hsDone, notified, ann, badNotify, restarts, prs, dups, advs, unts>>

ProcAdd ==               \* ProcessBlock: merkle check, blocks.Add, HandleHeaders callback, in-sync detection
  /\ infl # None /\ infl.pc = "checked"
  /\ IF (infl.f = 2 /\ Mut # "BadMerkleAccepted") \/ ("recheck" \in Fix /\ Par[infl.b] # Tip)
     THEN UNCHANGED <<chain, inSync, ann>>              \* invalid merkle root: not added (blocks.go:219)
     ELSE /\ chain' = Append(chain, infl.b)             \* NB: the tip is not re-checked here
          /\ ann' = Append(ann, Len(chain) + 1)
          /\ inSync' = (inSync \/ (pendSync /\ req = <<>> /\ toReq = <<>>))
  /\ ProcDone(req, toReq)
  /\ act' = A0("ProcAdd")
  /\ UNCHANGED <<chk, ptip, tipc, pann, sendhdrs, net, startH, lastSaved, pendSync, hdrReq, hsDone, notified,
                 badNotify, restarts, prs, dups, advs, unts>>

-----------------------------------------------------------------------------
(* the trusted peer: a Bitcoin node *)
PChain == PathTo(ptip)
OnPChain(b) == b = 0 \/ b \in Range(PChain)
PH(b) == IF b = 0 THEN 0 ELSE CHOOSE i \in 1..Len(PChain) : PChain[i] = b
After(h) == SubSeq(PChain, h + 1, IF h + Batch < Len(PChain) THEN h + Batch ELSE Len(PChain))

RECURSIVE FirstOn(_)
FirstOn(loc) == IF loc = <<>> THEN 0 ELSE IF OnPChain(Head(loc)) THEN Head(loc) ELSE FirstOn(Tail(loc))
RECURSIVE Common(_, _)
Common(a, b) == IF a = b THEN a ELSE IF Ht(a) >= Ht(b) THEN Common(Par[a], b) ELSE Common(a, Par[b])

PeerAdvance(t) ==        \* best-chain change; announced by headers once "sendheaders" was received
  /\ tipc < MaxTip /\ Ht(t) > Ht(ptip)
  /\ Calm => (inSync /\ sendhdrs /\ notified /\ net = <<>> /\ out = <<>> /\ infl = None /\ req = <<>> /\ toReq = <<>>)
  /\ ptip' = t /\ tipc' = tipc + 1
  /\ IF sendhdrs \/ "blockinv" \in Fix
     THEN LET c == Common(t, pann)
              hs == SubSeq(PathTo(t), Ht(c) + 1, Ht(t))
          IN IF Len(hs) <= AnnMax \/ "blockinv" \in Fix      \* too many headers: the peer falls back to a block inv (ignored by the node)
             THEN net' = Append(net, HdrMsg(hs)) /\ pann' = t
             ELSE UNCHANGED <<net, pann>>
     ELSE UNCHANGED <<net, pann>>
  /\ act' = AT("PeerAdvance", t)
  /\ UNCHANGED <<chk, sendhdrs, out, chain, startH, req, toReq, lastSaved, infl, inSync, pendSync,
                 hdrReq, hsDone, notified, ann, badNotify, restarts, prs, dups, advs, unts>>

PeerAnswer(i) ==         \* getheaders: from the first locator hash on its chain, else from genesis; getdata: the block
  /\ i \in 1..Len(out) /\ (Fifo => i = 1)
  /\ out' = SubSeq(out, 1, i - 1) \o SubSeq(out, i + 1, Len(out))
  /\ LET r == out[i] IN
     /\ IF r.t = "gh"
        THEN LET hs == After(PH(FirstOn(r.loc))) IN
             /\ net' = Append(net, HdrMsg(hs))
             /\ pann' = IF hs = <<>> THEN ptip ELSE Last(hs)     \* nothing to send: the node is taken to be at the peer's tip
        ELSE /\ net' = Append(net, BlkMsg(r.b, 1))
             /\ UNCHANGED pann
     /\ act' = [AR("PeerAnswer", r) EXCEPT !.t = i]
  /\ UNCHANGED <<chk, ptip, tipc, sendhdrs, chain, startH, req, toReq, lastSaved, infl, inSync,
                 pendSync, hdrReq, hsDone, notified, ann, badNotify, restarts, prs, dups, advs, unts>>

Handle(m) == IF m.t = "hdr" THEN HandleHeaders(m.hs) ELSE HandleBlock(m.b, m.f)

Deliver(i, keep) ==      \* one message of the trusted connection is handled (node.go:782 monitorIncoming)
  /\ i \in 1..Len(net) /\ (Fifo => i = 1)
  /\ ~(chk /\ CheckGuard)
  /\ IF keep THEN dups < MaxDup /\ dups' = dups + 1 /\ UNCHANGED net
             ELSE net' = SubSeq(net, 1, i - 1) \o SubSeq(net, i + 1, Len(net)) /\ UNCHANGED dups
  /\ Handle(net[i])
  /\ act' = [AM("Deliver", net[i], keep) EXCEPT !.t = i]
  /\ UNCHANGED <<ptip, tipc, pann, sendhdrs, infl, hsDone, notified, ann, badNotify, restarts, prs, advs, unts>>
  /\ chk' = CheckGuard'      \* check() runs right behind the handler; if it has nothing to do then, nothing is owed

(* C02: no assumption that the trusted peer is well behaved *)
HdrLists == {<<>>} \cup {<<b>> : b \in Blocks \cup {Unknown}}
            \cup {<<a, b>> : a \in Blocks \cup {Unknown}, b \in Blocks}
AdvMsg(m) ==
  /\ advs < MaxAdv /\ advs' = advs + 1
  /\ ~(chk /\ CheckGuard)
  /\ Handle(m)
  /\ act' = AM("AdvMsg", m, FALSE)
  /\ UNCHANGED <<ptip, tipc, pann, sendhdrs, net, infl, hsDone, notified, ann, badNotify, restarts, prs, dups, unts>>
  /\ chk' = CheckGuard'

(* C12: handlers/block.go on an untrusted connection shares the request state *)
UntrustedBlock(b, f) ==
  /\ unts < MaxUnt /\ unts' = unts + 1
  /\ \E i \in 1..Len(req) : req[i].b = b /\ req[i].f = 0
  /\ IF "stale" \in Fix THEN UNCHANGED <<chain, startH, req, toReq, lastSaved, inSync, pendSync, hdrReq, out>>
     ELSE HandleBlock(b, f)
  /\ act' = AM("UntrustedBlock", BlkMsg(b, f), FALSE)
  /\ UNCHANGED <<chk, ptip, tipc, pann, sendhdrs, net, infl, hsDone, notified, ann, badNotify, restarts, prs, dups, advs>>

(* state/timeouts.go + node.restart(): reconnect with State.Reset() *)
Quiet == out = <<>> /\ net = <<>> /\ infl = None /\ ~CheckGuard /\ ~(req # <<>> /\ Head(req).f # 0)
Restart ==
  /\ (MaxRestart < 0 \/ restarts < MaxRestart)
  /\ Quiet
  /\ \/ hdrReq                                          \* headers request timed out
     \/ \E i \in 1..Len(req) : req[i].f = 0             \* block request timed out
  /\ restarts' = IF MaxRestart < 0 THEN restarts ELSE restarts + 1
  /\ hsDone' = FALSE /\ inSync' = FALSE /\ hdrReq' = FALSE /\ pendSync' = FALSE
  /\ req' = <<>> /\ toReq' = <<>> /\ net' = <<>> /\ out' = <<>> /\ sendhdrs' = FALSE
  /\ pann' = 0
  /\ act' = A0("Restart") /\ chk' = FALSE
  /\ UNCHANGED <<ptip, tipc, chain, startH, lastSaved, infl, notified, ann, badNotify, prs, dups, advs, unts>>

(* The connection is lost (read or write error: node.go:790 monitorIncoming / :701 sendOutgoing -> restart()): Run saves, resets *)
(* the state (state.go Reset) and reconnects; whatever was in flight in either direction is gone.                              *)
Drop ==
  /\ Drops /\ (MaxRestart < 0 \/ restarts < MaxRestart)
  /\ restarts' = IF MaxRestart < 0 THEN restarts ELSE restarts + 1
  /\ infl = None /\ hsDone
  /\ hsDone' = FALSE /\ inSync' = FALSE /\ hdrReq' = FALSE /\ pendSync' = FALSE
  /\ req' = <<>> /\ toReq' = <<>> /\ net' = <<>> /\ out' = <<>> /\ sendhdrs' = FALSE
  /\ pann' = 0
  /\ act' = A0("Drop") /\ chk' = FALSE
  /\ UNCHANGED <<ptip, tipc, chain, startH, lastSaved, infl, notified, ann, badNotify, prs, dups, advs, unts>>

(* Stop (saves everything) and a new process on the same storage: node.go:289 load() *)
ProcRestart ==
  /\ prs < MaxPR /\ prs' = prs + 1
  /\ infl = None
  /\ startH' = IF Start \in Range(chain) THEN (CHOOSE i \in 1..Len(chain) : chain[i] = Start) ELSE -1
  /\ lastSaved' = Tip
  /\ hsDone' = FALSE /\ inSync' = FALSE /\ hdrReq' = FALSE /\ pendSync' = FALSE /\ notified' = FALSE
  /\ req' = <<>> /\ toReq' = <<>> /\ net' = <<>> /\ out' = <<>> /\ sendhdrs' = FALSE /\ pann' = 0
  /\ act' = A0("ProcRestart") /\ chk' = FALSE
  /\ ann' = <<>>
  /\ UNCHANGED <<ptip, tipc, chain, infl, badNotify, restarts, dups, advs, unts>>

Init ==
  /\ ptip \in InitTips /\ tipc = 0 /\ pann = 0 /\ sendhdrs = FALSE
  /\ net = <<>> /\ out = <<>> /\ chain = <<>> /\ startH = -1
  /\ req = <<>> /\ toReq = <<>> /\ lastSaved = 0 /\ infl = None
  /\ inSync = FALSE /\ pendSync = FALSE /\ hdrReq = FALSE /\ hsDone = FALSE /\ notified = FALSE
  /\ ann = <<>> /\ badNotify = FALSE /\ restarts = 0 /\ prs = 0 /\ dups = 0 /\ advs = 0 /\ unts = 0 /\ chk = FALSE /\ act = A0("init")

AdvMsgs == {HdrMsg(hs) : hs \in HdrLists} \cup {BlkMsg(b, f) : b \in Blocks, f \in {1, 2}}
Next ==
  \/ \E t \in Blocks : PeerAdvance(t)
  \/ \E i \in 1..Len(out) : PeerAnswer(i)
  \/ \E i \in 1..Len(net), k \in BOOLEAN : Deliver(i, k)
  \/ Check \/ ProcPop \/ ProcCheck \/ ProcAdd
  \/ \E m \in AdvMsgs : AdvMsg(m)
  \/ \E b \in Blocks, f \in {1, 2} : UntrustedBlock(b, f)
  \/ Restart \/ ProcRestart \/ Drop

Fairness ==
  /\ WF_vars(Check) /\ WF_vars(ProcPop) /\ WF_vars(ProcCheck) /\ WF_vars(ProcAdd)
  /\ \A i \in 1..(2 * N + 4) : WF_vars(PeerAnswer(i))
  /\ \A i \in 1..(2 * N + 4) : WF_vars(Deliver(i, FALSE))
  /\ WF_vars(Restart)

Spec == Init /\ [][Next]_vars /\ Fairness

-----------------------------------------------------------------------------
(* properties, over a state record so that they can be evaluated on recorded implementation states *)
S == [chain |-> chain, startH |-> startH, req |-> req, toReq |-> toReq, lastSaved |-> lastSaved, infl |-> infl,
      inSync |-> inSync, notified |-> notified, ptip |-> ptip]

LinkedP(s) == \A i \in 1..Len(s.chain) : ParX(s.chain[i]) = (IF i = 1 THEN 0 ELSE s.chain[i-1])        \* C02
NoDupP(s) == \A i, j \in 1..Len(s.chain) : s.chain[i] = s.chain[j] => i = j                            \* C02
WindowP(s) == Len(s.req) <= W                                                                          \* C13
\* C02: one handler call changes the chain only above a common prefix (a revert to the fork point) and only by putting blocks that
\* were not in the chain on top of it (several headers in one message before the start block; revert and regrowth in one message)
LCP(a, b) == LET n == IF Len(a) < Len(b) THEN Len(a) ELSE Len(b)
                 ks == {k \in 0..n : SubSeq(a, 1, k) = SubSeq(b, 1, k)}
             IN CHOOSE k \in ks : \A j \in ks : j <= k
GrowsAtTipP(s, t) == \A i \in (LCP(s.chain, t.chain) + 1)..Len(t.chain) : t.chain[i] \notin Range(s.chain)
NotifyP(s, t) == (~s.notified /\ t.notified) =>                                                        \* C01
                        (t.infl = None /\ t.req = <<>> /\ t.toReq = <<>>)
ConvergedP(s) == s.chain = PathTo(s.ptip)                                                              \* C01
OrderedReqP(s) ==                                                                                      \* C13
  LET q == [i \in 1..Len(s.req) |-> s.req[i].b] \o s.toReq IN \A i \in 2..Len(q) : ParX(q[i]) = q[i-1]

Linked == LinkedP(S)
NoDupChain == NoDupP(S)
WindowOK == WindowP(S)
OrderedReq == OrderedReqP(S)
InSyncNotifyOK == ~badNotify
StepProps == [][GrowsAtTipP(S, S') /\ NotifyP(S, S')]_vars
Converged == chain = PChain
Convergence == <>[]Converged
=============================================================================
