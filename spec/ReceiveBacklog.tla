---------------------------- MODULE ReceiveBacklog ----------------------------
(***************************************************************************)
(* C18 with a slow application and a full handler queue: the remote client *)
(* has one message loop for the whole Run (pkg/client/remote_client.go     *)
(* handleMessages : 2142) that takes what the connection reader put into   *)
(* the receive queue (receiveMessages : 1613, capacity 100), applies the   *)
(* accept / id checks and hands the result to the handler queue            *)
(* (addHandlerMessage : 2133, capacity 100).  Both queues outlive          *)
(* connections.  When the application is stuck in a handler call and the   *)
(* handler queue is full, the message loop stops taking messages: what the *)
(* service sends then waits, unexamined, in the receive queue - also       *)
(* across the teardown of its connection and the start of the next one     *)
(* (runConnection : 1450 clears the accepted flag, connect : 1210 makes    *)
(* the new session hash).                                                  *)
(*                                                                         *)
(*   Accept        the service's valid accept for the current connection   *)
(*   Notify(k,id)  "tip" (not gated, no id) | "tx" | "upd"                 *)
(*   Ready(n)      the application declares the next id                    *)
(*   Hold/Release  the application's next handler call blocks / returns    *)
(*   Flood         enough chain tips to fill the handler queue behind the  *)
(*                 blocked call: the message loop is blocked from now on   *)
(*   Teardown      the service closes the connection; the client tears it  *)
(*                 down and waits for its retry delay                      *)
(*   Connect       the retry delay is over: new hash, register, the flags  *)
(*                 of the connection are reset                             *)
(***************************************************************************)
EXTENDS Integers, Sequences, FiniteSets, TLC
CONSTANTS MaxSteps, MaxQ, MaxConn
VARIABLES ep,       \* connections started so far (the session hash belongs to connection ep)
          up,       \* the connection exists
          flag,     \* the client's accepted flag
          nextId,
          held,     \* "no" | "armed" | "in"
          full,     \* the handler queue is full: the message loop is blocked
          hq,       \* examined, queued for the handler
          rq,       \* read from the wire, not examined yet
          deliv,    \* handler calls started, in order
          accs,     \* accepts the service has sent: [e |-> connection, n |-> send number]
          sent, run, steps, act
vars == <<ep, up, flag, nextId, held, full, hq, rq, deliv, accs, sent, run, steps, act>>
A(a, k, kind) == [a |-> a, k |-> k, kind |-> kind]
Item(k, id, n, e) == [k |-> k, id |-> id, n |-> n, e |-> e]     \* e: the connection it was sent on
Init == /\ ep = 1 /\ up = TRUE /\ flag = FALSE /\ nextId = 1 /\ held = "no" /\ full = FALSE /\ hq = <<>> /\ rq = <<>> /\ deliv = <<>>
        /\ accs = {} /\ sent = 0 /\ run = "running" /\ steps = 0 /\ act = A("init", 0, "")
Step == steps < MaxSteps /\ steps' = steps + 1 /\ run = "running"

\* the message loop examines one message in the state s = [flag, nextId, out, run]   (handleMessage : 2157)
Examine(s, m) ==
  IF s.run # "running" THEN s
  ELSE IF m.k = "acc" THEN (IF m.e = ep THEN [s EXCEPT !.flag = TRUE, !.out = Append(@, m)]
                            ELSE [s EXCEPT !.run = "failed"])          \* an accept for another session hash: ErrWrongKey ends Run
  ELSE IF m.k = "tip" THEN [s EXCEPT !.out = Append(@, m)]
  ELSE IF s.flag /\ m.id = s.nextId THEN [s EXCEPT !.nextId = m.id + 1, !.out = Append(@, m)]
  ELSE s
RECURSIVE ExamineAll(_, _)
ExamineAll(s, q) == IF q = <<>> THEN s ELSE ExamineAll(Examine(s, Head(q)), Tail(q))
S0 == [flag |-> flag, nextId |-> nextId, out |-> <<>>, run |-> run]

\* items handed to the handler while its queue is not full
Hand(xs) == IF xs = <<>> THEN UNCHANGED <<deliv, hq, held>>
            ELSE IF held = "no" THEN deliv' = deliv \o xs /\ UNCHANGED <<hq, held>>
            ELSE IF held = "armed" THEN deliv' = Append(deliv, Head(xs)) /\ held' = "in" /\ hq' = hq \o Tail(xs)
            ELSE hq' = hq \o xs /\ UNCHANGED <<deliv, held>>
\* one message arrives from the service
Arrive(m) == IF full THEN rq' = Append(rq, m) /\ UNCHANGED <<flag, nextId, run, deliv, hq, held>>
             ELSE LET s == Examine(S0, m) IN
                  flag' = s.flag /\ nextId' = s.nextId /\ run' = s.run /\ Hand(s.out) /\ UNCHANGED rq

Accept == /\ Step /\ up /\ Len(hq) + Len(rq) < MaxQ /\ ~\E a \in accs : a.e = ep
          /\ sent' = sent + 1 /\ accs' = accs \cup {[e |-> ep, n |-> sent + 1]} /\ Arrive(Item("acc", 0, sent + 1, ep))
          /\ act' = A("Accept", 0, "valid") /\ UNCHANGED <<ep, up, full>>
Notify(kind, id) == /\ Step /\ up /\ Len(hq) + Len(rq) < MaxQ /\ sent' = sent + 1 /\ Arrive(Item(kind, id, sent + 1, ep))
                    /\ act' = A("Notify", id, kind) /\ UNCHANGED <<ep, up, full, accs>>
Ready(n) == /\ Step /\ up /\ flag /\ ~full /\ nextId' = n /\ act' = A("Ready", n, "")
            /\ UNCHANGED <<ep, up, flag, held, full, hq, rq, deliv, accs, sent, run>>
Hold == /\ Step /\ held = "no" /\ held' = "armed" /\ act' = A("Hold", 0, "")
        /\ UNCHANGED <<ep, up, flag, nextId, full, hq, rq, deliv, accs, sent, run>>
Flood == /\ Step /\ up /\ held = "in" /\ ~full /\ full' = TRUE /\ act' = A("Flood", 0, "")
         /\ UNCHANGED <<ep, up, flag, nextId, held, hq, rq, deliv, accs, sent, run>>
\* the blocked call returns: the handler works through its queue, the message loop through the receive queue
Release == /\ Step /\ held # "no" /\ held' = "no" /\ full' = FALSE
           /\ LET s == ExamineAll(S0, rq) IN
                flag' = s.flag /\ nextId' = s.nextId /\ run' = s.run /\ deliv' = deliv \o hq \o s.out
           /\ hq' = <<>> /\ rq' = <<>> /\ act' = A("Release", 0, "") /\ UNCHANGED <<ep, up, accs, sent>>
Teardown == /\ Step /\ up /\ up' = FALSE /\ act' = A("Teardown", 0, "")
            /\ UNCHANGED <<ep, flag, nextId, held, full, hq, rq, deliv, accs, sent, run>>
Connect == /\ Step /\ ~up /\ ep < MaxConn /\ up' = TRUE /\ ep' = ep + 1 /\ flag' = FALSE /\ act' = A("Connect", 0, "")
           /\ UNCHANGED <<nextId, held, full, hq, rq, deliv, accs, sent, run>>
\* The message loop's enqueue times out (addHandlerMessage : 2133 after MessageChannelTimeout): the item in its hands is DROPPED and the
\* loop goes on.  With the application still stuck, every message of the receive queue is examined and dropped the same way.  Before the
\* repair of F43 a dropped tx / update had been counted (nextId' = the id after the last one examined) although it never reached the
\* handlers; since the repair the id is taken back when the hand-over fails, so the following ids are rejected and nextId stays where the
\* handlers are.  An accept examined this way still sets the flag (its notification is lost, the connection is authenticated).
\* Stall is not part of Next: Spec is the client with an application that returns within the time-out; SpecStall adds it (and leaves
\* Ready out, so that the ids counted are 1 .. nextId - 1).
Stall == /\ Step /\ full /\ held = "in"
         /\ LET s == ExamineAll(S0, rq) IN flag' = s.flag /\ run' = s.run
         /\ rq' = <<>> /\ act' = A("Stall", 0, "") /\ UNCHANGED <<ep, up, nextId, held, full, hq, deliv, accs, sent>>
Next == \/ Accept \/ Hold \/ Flood \/ Release \/ Teardown \/ Connect \/ (\E n \in 1..3 : Ready(n))
        \/ \E kind \in {"tip", "tx", "upd"}, id \in 1..3 : Notify(kind, IF kind = "tip" THEN 0 ELSE id)
Spec == Init /\ [][Next]_vars
NextStall == \/ Accept \/ Hold \/ Flood \/ Release \/ Teardown \/ Connect \/ Stall
             \/ \E kind \in {"tip", "tx", "upd"}, id \in 1..3 : Notify(kind, IF kind = "tip" THEN 0 ELSE id)
SpecStall == Init /\ [][NextStall]_vars
-----------------------------------------------------------------------------
\* C18: a transaction or update reaches the handlers only if the service had authenticated itself, before it sent it, on the
\* connection it sent it on
DataAfterAcceptP(d, as) == \A i \in 1..Len(d) : d[i].k \in {"tx", "upd"} => \E a \in as : a.e = d[i].e /\ a.n < d[i].n
DataAfterAccept == DataAfterAcceptP(deliv \o hq, accs)
\* an accept reaches the handlers at most once and only for a connection the service accepted
AcceptOnceP(d, as) == /\ \A i \in 1..Len(d) : d[i].k = "acc" => [e |-> d[i].e, n |-> d[i].n] \in as
                      /\ \A i, j \in 1..Len(d) : d[i].k = "acc" /\ d[j].k = "acc" /\ d[i].n = d[j].n => i = j
AcceptOnce == AcceptOnceP(deliv \o hq, accs)
\* the application sees what the client let through in the order the service sent it (C17 across the two queues)
InOrderP(d) == \A i, j \in 1..Len(d) : i < j => d[i].n < d[j].n
InOrder == InOrderP(deliv \o hq)
\* every id the client has counted reached the handlers (C17: the reported next id is the last delivered id plus one).  Holds for Spec
\* without Ready, and for SpecStall since the repair of F43 (with nextId' = s.nextId in Stall, the code before the repair, TLC finds
\* Accept, Hold, tip, Flood, tx 1, Stall)
CountedAreDeliveredP(d, nx) == \A i \in 1..(nx - 1) : \E j \in 1..Len(d) : d[j].k \in {"tx", "upd"} /\ d[j].id = i
CountedAreDelivered == CountedAreDeliveredP(deliv \o hq, nextId)
\* the flag is set only while the current session's accept has been examined
FlagMeansAccepted == flag => \E i \in 1..Len(deliv \o hq) : (deliv \o hq)[i].k = "acc" /\ (deliv \o hq)[i].e = ep
=============================================================================
