---------------------------- MODULE HandlerQueue ----------------------------
(***************************************************************************)
(* C17 with a slow application: the remote client hands every notification *)
(* to one handler goroutine through a queue (pkg/client/remote_client.go   *)
(* addHandlerMessage / runHandler : 2375).  While a handler call is held   *)
(* by the application, notifications - and the accept notification of a    *)
(* new connection - pile up in that queue; what the application is         *)
(* entitled to: it sees everything in the order the client accepted it,    *)
(* also across a reconnect.                                                *)
(*                                                                         *)
(*   Accept      the service's (valid) accept: queued as a notification    *)
(*   Ready(n)    the application declares the next id it expects           *)
(*   Notify(..)  Tx / TxUpdate with an id, Headers                         *)
(*   Hold        the application's next handler call will not return       *)
(*   Release     it returns: the queue drains                               *)
(*   Drop        the connection is lost, the client reconnects             *)
(***************************************************************************)
EXTENDS Integers, Sequences, FiniteSets, TLC
CONSTANTS MaxSteps, MaxQ
VARIABLES ep, acc, nextId,
          held,     \* "no" | "armed" (the next call blocks) | "in" (a call is blocked)
          hq,       \* queued for the handlers
          deliv,    \* handler calls so far (started), in order
          sent,     \* how many messages the service has sent (every message carries this number)
          steps, act
vars == <<ep, acc, nextId, held, hq, deliv, sent, steps, act>>
A(a, k, kind) == [a |-> a, k |-> k, kind |-> kind]
Item(k, id, n) == [k |-> k, id |-> id, n |-> n]
Init == ep = 1 /\ acc = FALSE /\ nextId = 1 /\ held = "no" /\ hq = <<>> /\ deliv = <<>> /\ sent = 0 /\ steps = 0 /\ act = A("init", 0, "")
Step == steps < MaxSteps /\ steps' = steps + 1

\* one item is handed to the handler queue
Enq(x) == IF held = "no" THEN deliv' = Append(deliv, x) /\ UNCHANGED <<hq, held>>
          ELSE IF held = "armed" THEN deliv' = Append(deliv, x) /\ held' = "in" /\ UNCHANGED hq      \* this call blocks
          ELSE hq' = Append(hq, x) /\ UNCHANGED <<deliv, held>>

Accept == /\ Step /\ ~acc /\ Len(hq) < MaxQ /\ acc' = TRUE /\ sent' = sent + 1 /\ Enq(Item("acc", ep, sent + 1))
          /\ act' = A("Accept", 0, "valid") /\ UNCHANGED <<ep, nextId>>
Ready(n) == /\ Step /\ acc /\ nextId' = n /\ act' = A("Ready", n, "") /\ UNCHANGED <<ep, acc, held, hq, deliv, sent>>
Notify(kind, id) ==
  /\ Step /\ Len(hq) < MaxQ /\ sent' = sent + 1
  /\ IF kind = "hdrs" THEN Enq(Item("hdrs", id, sent + 1)) /\ UNCHANGED nextId
     ELSE IF acc /\ id = nextId THEN Enq(Item(kind, id, sent + 1)) /\ nextId' = id + 1
     ELSE UNCHANGED <<nextId, hq, deliv, held>>
  /\ act' = A("Notify", id, kind) /\ UNCHANGED <<ep, acc>>
Hold == /\ Step /\ held = "no" /\ held' = "armed" /\ act' = A("Hold", 0, "") /\ UNCHANGED <<ep, acc, nextId, hq, deliv, sent>>
Release == /\ Step /\ held # "no" /\ held' = "no" /\ deliv' = deliv \o hq /\ hq' = <<>>
           /\ act' = A("Release", 0, "") /\ UNCHANGED <<ep, acc, nextId, sent>>
Drop == /\ Step /\ ep' = ep + 1 /\ acc' = FALSE /\ act' = A("Drop", 0, "") /\ UNCHANGED <<nextId, held, hq, deliv, sent>>
Next == Accept \/ (\E n \in 1..4 : Ready(n)) \/ (\E kind \in {"tx", "upd", "hdrs"}, id \in 1..5 : Notify(kind, id)) \/ Hold \/ Release \/ Drop
Spec == Init /\ [][Next]_vars
-----------------------------------------------------------------------------
\* the application sees what the client accepted, in the order the service sent it
InOrderP(d) == \A i, j \in 1..Len(d) : i < j => d[i].n < d[j].n
InOrder == InOrderP(deliv \o hq)
=============================================================================
