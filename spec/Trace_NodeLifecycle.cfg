SPECIFICATION TraceSpec
CONSTANTS
  NB = 4
  MaxEpoch = 1000
  MaxTx = 1000
  MaxSteps = 1000
INVARIANTS Done
CHECK_DEADLOCK FALSE
