---- MODULE MC_RemoteClient ----
EXTENDS RemoteClient
Keys2 == {1, 2}
NoFix == {}
AllFix == {"rejectnohash"}
View == <<ep, acc, hs, nextId, calls, sent, order, queue, stale, srv, deliv, run, steps, had, carry>>
SubsFew == {"subscribe_tx"}      \* the exhaustive configurations use one of the ten subscription messages
SubsAll == SubNames
====
