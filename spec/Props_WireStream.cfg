SPECIFICATION PSpec
CONSTANTS
  MaxMsgs = 1000
  Lens <- Lens3
CHECK_DEADLOCK FALSE
