---- MODULE Attack_BlockRequests ----
(* Attack-script derivation: the model with one mutant switched on is searched breadth-first, *)
(* at the code's own constants, over a reduced set of calls; the shortest counterexample to   *)
(* a C13 formula becomes a script that is replayed on the real code in every check run.       *)
EXTENDS MC_BlockRequests
Lh == IF toReq # <<>> THEN Last(toReq) ELSE IF req # <<>> THEN Last(req).b ELSE lastSaved
Children(p) == {b \in Blocks : Par[b] = p}
InWindow == {req[i].b : i \in 1..Len(req)}
ANext == \/ \E b \in Children(Lh) \cup {5} : AddBlockRequest(b)
         \/ \E b \in InWindow \cup {9}, s \in {0, 3} : AddBlock(b, s)
         \/ NextBlock \/ GetNext \/ ClearAll
         \/ \E b \in {3} : ClearAfter(b)
ASpec == Init /\ [][ANext]_vars
====
