---- MODULE Props_RemoteClient ----
(* C16 / C17 / C18 judged on implementation traces: the formulas of RemoteClient on the recorded observations. *)
EXTENDS MC_RemoteClient, Json
Keys3 == {1, 2, 3}
Tr == ndJsonDeserialize("impl.ndjson")
Lines == 1..Len(Tr)
ReqTimeoutMs == 2500      \* the configured request time-out of the harness client
Steps == {i \in Lines : i > 1 /\ Tr[i].act.a # "init" /\ Tr[i].skip = ""}
St(i) == [acc |-> Tr[i].st.acc, hs |-> Tr[i].st.hs, nextId |-> Tr[i].st.nextId, calls |-> [k \in Slots |-> Tr[i].st.calls[k + 1]],
          deliv |-> Tr[i].st.deliv, run |-> Tr[i].st.run, srv |-> Tr[i].st.srv, sent |-> [k \in Slots |-> Tr[i].st.seen[k + 1]]]
CorrelatedL(i) == \A k \in Slots : (St(i).calls[k].st = "done" /\ St(i).calls[k].res = "ok") => St(i).calls[k].rkey = St(i).calls[k].key
GatedL(i) == \A j \in 1..Len(St(i).srv) : St(i).srv[j].t \notin Handshake => St(i).srv[j].hs
F(name, X) == {<<name, i>> : i \in X}
Bad == F("Correlated", {i \in Lines : ~CorrelatedL(i)})
  \cup F("Gated", {i \in Lines : ~GatedL(i)})
  \cup F("RegisterSigned", {i \in Lines : ~Tr[i].st.regok})
  \cup F("AcceptedOnlyIfValid", {i \in Steps : ~AcceptP(St(i-1), St(i), Tr[i].act)})
  \cup F("NotifyInOrder", {i \in Steps : ~NotifyP(St(i-1), St(i), Tr[i].act)})
  \cup F("ReadySetsNext", {i \in Steps : ~ReadyP(St(i-1), St(i), Tr[i].act)})
  \cup F("RespondIsolated", {i \in Steps : ~RespondP(St(i-1), St(i), Tr[i].act)})
  \cup F("Answered", {i \in Steps : ~AnsweredP(St(i-1), St(i), Tr[i].act)})
  \cup F("RejectSurfaces", {i \in Steps : ~RejectSurfacesP(St(i-1), St(i), Tr[i].act)})
  \cup F("TimeoutIsolated", {i \in Steps : ~TimeoutP(St(i-1), St(i), Tr[i].act)})
  \cup F("NotifyAllInOrder", {i \in Steps : ~NotifyOtherP(St(i-1), St(i), Tr[i].act)})
  \cup F("ResumePointSurvives", {i \in Steps : ~DropP(St(i-1), St(i), Tr[i].act)})
  \cup F("FlushedWithHandshake", {i \in Steps : ~FlushP(St(i-1), St(i), Tr[i].act)})
  \cup F("AnsweredOnlyIfWritten", {i \in Lines : ~WrittenP(St(i))})
  \cup F("NothingElseDelivered", {i \in Steps : ~QuietP(St(i-1), St(i), Tr[i].act)})
  \cup F("TimeoutOnTime", {i \in Lines : \E k \in 1..Len(Tr[i].st.lat) : Tr[i].st.lat[k] # -1 /\ (Tr[i].st.lat[k] < ReqTimeoutMs - 400 \/ Tr[i].st.lat[k] > ReqTimeoutMs + 1000)})
  \cup F("RegisterFresh", {i \in Lines : ~Tr[i].st.regnew})
  \cup F("FromDeclaredId", {i \in Steps : ~ReadyRaceP(St(i-1), St(i), Tr[i].act)})
  \cup F("BurstInOrder", {i \in Steps : ~BurstP(St(i-1), St(i), Tr[i].act)})
  \cup F("SubscriptionsDirect", {i \in Steps : ~SubscribeP(St(i-1), St(i), Tr[i].act)})
  \cup F("CarriedNotWritten", {i \in Steps : ~CarriedP(St(i-1), St(i), Tr[i].act)})
  \cup F("CarriedGated", {i \in Steps : ~CarryGatedP(St(i-1), St(i), Tr[i].act)})
  \cup F("NoDataBeforeAccept", {i \in Steps : ~UnacceptedQuietP(St(i-1), St(i), Tr[i].act)})
  \cup F("HandlersAgree", {i \in Lines : ~Tr[i].st.sameh})
  \cup F("NoPanic", {i \in Lines : Len(Tr[i].skip) >= 5 /\ SubSeq(Tr[i].skip, 1, 5) = "PANIC"})
ASSUME JsonSerialize("props_result.json", [lines |-> Len(Tr), bad |-> Bad])
PSpec == Init /\ [][UNCHANGED vars]_vars
====
