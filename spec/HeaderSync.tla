---------------------------- MODULE HeaderSync ----------------------------
(***************************************************************************)
(* Header-only sync before the start block, across block-file roll-overs,  *)
(* with one failing storage write (C10, second sentence).  Headers before  *)
(* the start block are added to the block repository by the headers        *)
(* handler itself (internal/handlers/headers.go checkStartHeight : 294):   *)
(* blocks.Add, then state.SetLastHash.  BlockRepository.Add                *)
(* (internal/storage/blocks.go : 169) writes the finished file when the    *)
(* header to add opens a new file (every R = 1000 headers) and returns     *)
(* that write's error WITHOUT adding the header.  The handler's error is   *)
(* logged by Node.handleMessage : 738 and the connection goes on: the      *)
(* outstanding headers request times out, the node reconnects (save,       *)
(* State.Reset keeps the last hash) and asks again from its last hash.     *)
(*                                                                         *)
(* The peer's chain is 1..ptip (no reorganisation here: ChainSync does     *)
(* that); a header is its height.                                          *)
(***************************************************************************)
EXTENDS Integers, Sequences, TLC
CONSTANTS R, PT, B, MaxSteps
VARIABLES chain,   \* what the repository holds in memory after the genesis header: runs [a, b] of consecutive peer heights, in order
          last,    \* the state's last hash
          saved,   \* number of headers that survive a crash
          req,     \* -1 | the height the outstanding headers request starts from | -2: answered without progress, flag still set
          fault,   \* "armed": the next file write fails | "none"
          hs,      \* the first headers request of this connection has been made (handshake complete)
          ptip, steps, act
vars == <<chain, last, saved, req, fault, hs, ptip, steps, act>>
A(a, t) == [a |-> a, t |-> t]
Init == chain = <<>> /\ last = 0 /\ saved = 0 /\ req = -1 /\ fault = "none" /\ hs = FALSE /\ ptip \in PT /\ steps = 0 /\ act = A("init", 0)
Step == steps < MaxSteps /\ steps' = steps + 1
Tip(c) == IF c = <<>> THEN 0 ELSE c[Len(c)].b
Max(a, b) == IF a > b THEN a ELSE b
Min(a, b) == IF a < b THEN a ELSE b
RECURSIVE Count(_)
Count(c) == IF c = <<>> THEN 0 ELSE (Head(c).b - Head(c).a + 1) + Count(Tail(c))
\* k consecutive headers x .. x+k-1 are appended
AddRun(c, x, k) == IF k = 0 THEN c
                   ELSE IF c # <<>> /\ Tip(c) = x - 1 THEN [c EXCEPT ![Len(c)].b = x + k - 1]
                   ELSE Append(c, [a |-> x, b |-> x + k - 1])
\* the first k headers of c
RECURSIVE Keep(_, _)
Keep(c, k) == IF k <= 0 \/ c = <<>> THEN <<>>
              ELSE LET h == Head(c) n == h.b - h.a + 1 IN
                   IF n <= k THEN <<h>> \o Keep(Tail(c), k - n) ELSE <<[a |-> h.a, b |-> h.a + k - 1]>>

\* the handler takes m headers last+1, last+2, ... in the state s = [chain, last, saved, fault, mod]   (headers.go : 60-118, 294-315):
\* every header connects to the last hash: blocks.Add, then SetLastHash.  Add writes the finished file first when the header opens a
\* new one (storage/blocks.go : 173); if that write fails nothing is added, nothing moves and the handler returns the error.
RECURSIVE TakeAll(_, _)
TakeAll(s, m) ==
  IF m = 0 THEN s
  ELSE LET n == Count(s.chain)
           d == R - 1 - (n % R)          \* headers that fit into the current file
       IN IF d > 0 THEN LET k == Min(d, m) IN
                        TakeAll([s EXCEPT !.chain = AddRun(@, s.last + 1, k), !.last = @ + k, !.mod = TRUE], m - k)
          ELSE IF s.fault = "armed" THEN [s EXCEPT !.fault = "none", !.err = TRUE]
          ELSE TakeAll([s EXCEPT !.saved = Max(@, n), !.chain = AddRun(@, s.last + 1, 1), !.last = @ + 1, !.mod = TRUE], m - 1)

\* the k-th header of c (0 = the genesis header)
RECURSIVE Nth(_, _)
Nth(c, k) == IF k <= 0 \/ c = <<>> THEN 0
             ELSE LET h == Head(c) n == h.b - h.a + 1 IN IF k <= n THEN h.a + k - 1 ELSE Nth(Tail(c), k - n)
\* check() asks for headers when none are requested (node.go : 881, 945).  With no block requests the locator is taken from the
\* REPOSITORY (outgoing.go : 37): its tip for the first request of a connection, one below its tip afterwards
Check == /\ Step /\ req = -1 /\ last < ptip
         /\ req' = Nth(chain, Count(chain) - (IF hs THEN 1 ELSE 0)) /\ hs' = TRUE
         /\ act' = A("Check", 0) /\ UNCHANGED <<chain, last, saved, fault, ptip>>
\* the peer answers with up to B headers after the locator; the handler skips the ones it has (the last hash itself, headers the
\* repository contains) and takes the others
Answer == /\ Step /\ req >= 0
          /\ LET to == Min(req + B, ptip)
                 s == TakeAll([chain |-> chain, last |-> last, saved |-> saved, fault |-> fault, mod |-> FALSE, err |-> FALSE], Max(0, to - last)) IN
               /\ chain' = s.chain /\ last' = s.last /\ saved' = s.saved /\ fault' = s.fault
               /\ req' = IF s.mod /\ ~s.err THEN -1 ELSE -2      \* the error return skips ClearHeadersRequested (headers.go : 285)
          /\ act' = A("Answer", 0) /\ UNCHANGED <<ptip, hs>>
\* the headers request times out: save (may be the failing write), reset (keeps the last hash), reconnect
Timeout == /\ Step /\ req # -1 /\ req' = -1 /\ hs' = FALSE
           /\ IF fault = "armed" THEN fault' = "none" /\ UNCHANGED saved ELSE saved' = Count(chain) /\ UNCHANGED fault
           /\ act' = A("Timeout", 0) /\ UNCHANGED <<chain, last, ptip>>
\* clean restart: save, load
Restart == /\ Step /\ fault = "none" /\ saved' = Count(chain) /\ last' = Tip(chain) /\ req' = -1 /\ hs' = FALSE /\ act' = A("Restart", 0)
           /\ UNCHANGED <<chain, fault, ptip>>
\* crash: what was not written is gone
Crash == /\ Step /\ chain' = Keep(chain, saved) /\ last' = Tip(Keep(chain, saved)) /\ req' = -1 /\ hs' = FALSE /\ fault' = "none" /\ act' = A("Crash", 0)
         /\ UNCHANGED <<saved, ptip>>
Arm == /\ Step /\ fault = "none" /\ req >= 0 /\ fault' = "armed" /\ act' = A("Arm", 0) /\ UNCHANGED <<chain, last, saved, req, hs, ptip>>
Next == Check \/ Answer \/ Timeout \/ Restart \/ Crash \/ Arm
Spec == Init /\ [][Next]_vars
-----------------------------------------------------------------------------
LinkedP(c) == c = <<>> \/ (Len(c) = 1 /\ c[1].a = 1)          \* one run from the genesis header: hash-linked, no gap, no repeat
Linked == LinkedP(chain)
LastIsTip == last = Tip(chain)             \* the state's last hash is the repository's tip whenever a handler has returned
SavedIsPrefix == saved <= Count(chain)
=============================================================================
