SPECIFICATION SimSpec
CONSTANTS
  NCalls = 3
  Keys <- Keys3
  Full = TRUE
  Big = TRUE
  MaxSteps = 14
  Subs <- SubsAll
  MaxNote = 10
  Fix <- NoFix
CHECK_DEADLOCK FALSE
