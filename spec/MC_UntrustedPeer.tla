---- MODULE MC_UntrustedPeer ----
EXTENDS UntrustedPeer
Txs2 == {1, 2}
Txs1 == {1}
Addrs1 == {1}
View == <<ver, hsk, hreq, verified, scored, addrReq, mpReq, stopping, score, known, out, pend, chan, asked, tracked, pc, steps>>
====
