SPECIFICATION PSpec
CONSTANTS
  NT = 2
  NC = 3
  Win = 2
  MaxClock = 1000
  MaxOps = 1000
  Mut = ""
CHECK_DEADLOCK FALSE
