----------------------------- MODULE BlockStore -----------------------------
(***************************************************************************)
(* The header store of spynode: internal/storage/blocks.go                 *)
(* (BlockRepository) and the header queries of internal/spynode/node.go    *)
(* (GetHeaders, BlockHash).  Property C09, and the storage layer of C10.   *)
(*                                                                         *)
(* Two layers:                                                             *)
(*  - the code layer (height, last, hmap, files) transcribes the           *)
(*    repository's arithmetic, with file size K (code: blocksPerKey=1000); *)
(*  - the contract layer (abs, pabs) is the "abstract list of headers" of  *)
(*    the property, driven only by the calls and their reported results.   *)
(* The property says every query answer equals the answer computed from    *)
(* abs.  On implementation traces the answers are the recorded answers of  *)
(* the real repository and abs is recomputed from the recorded calls.      *)
(*                                                                         *)
(* Headers are integers; 0 is genesis; every Add creates a fresh header.   *)
(* Heights of the model are mapped to real heights by R (see MC module):   *)
(* model height q*K+r  <->  real height 1000*q + Rho[r].                   *)
(***************************************************************************)
EXTENDS BlockStoreC

CONSTANTS RmMissingErr, \* TRUE: the back end returns an error when a missing key is removed
          Fixed,        \* set of repaired defects: subset of {"revert", "neg", "load", "range"}
          Mut           \* "" or a mutant name

VARIABLES height, last, hmap, files,      \* code layer
          abs, pabs,                      \* contract layer: the chain, and the chain as last persisted
          nextId, act
cvars == <<height, last, hmap, files>>
vars == <<height, last, hmap, files, abs, pabs, nextId, act>>

FIdx == 0..((MaxId \div K) + 1)

Init == /\ height = 0 /\ last = <<0>> /\ hmap = (0 :> 0) /\ files = [i \in FIdx |-> <<>>]
        /\ abs = <<0>> /\ pabs = <<0>> /\ nextId = 1 /\ act = Act("reset", 0, 0, "")

-----------------------------------------------------------------------------
(* code layer *)
HasFile(fs, i) == i \in FIdx /\ fs[i] # <<>>
SaveTo(fs, h, l) == [fs EXCEPT ![Div(h, K)] = l]                       \* save(): blocks.go:403
NegGuard(h) == "neg" \in Fixed /\ h < 0

\* getHash / getHeader : blocks.go:229, 293   (kind "time" = getTime : blocks.go:264)
GetC(h, kind) ==
  IF h > height THEN (IF kind = "time" THEN NONE ELSE ERR)
  ELSE IF NegGuard(h) THEN ERR
  ELSE IF height - h < Len(last) /\ Mut # "NoCache" THEN last[Len(last) - (height - h)]
  ELSE IF ~HasFile(files, Div(h, K)) THEN (IF kind = "time" THEN NONE ELSE ERR)
  ELSE IF Len(files[Div(h, K)]) # K THEN ERR
  ELSE IF Mod(h, K) < 0 THEN PANIC
  ELSE files[Div(h, K)][(IF Mut = "OffsetPlusOne" THEN (Mod(h, K) + 1) % K ELSE Mod(h, K)) + 1]

(* Add : blocks.go:165 *)
Add ==
  /\ nextId <= MaxId
  /\ LET roll == Len(last) = K
         fs == IF roll /\ Mut # "NoSaveOnRoll" THEN SaveTo(files, height, last) ELSE files
         l0 == IF roll THEN <<>> ELSE last
     IN /\ files' = fs /\ last' = Append(l0, nextId)
  /\ height' = height + 1 /\ hmap' = (nextId :> (height + 1)) @@ hmap
  /\ nextId' = nextId + 1 /\ act' = Act("Add", nextId, 0, "ok")

(* Save : blocks.go:395 *)
Save == /\ files' = SaveTo(files, height, last)
        /\ UNCHANGED <<height, last, hmap, nextId>> /\ act' = Act("Save", 0, 0, "ok")

(* Revert : blocks.go:322 *)
RECURSIVE Prune(_, _, _)
Prune(m, from, to) ==        \* returns [m, ok]
  IF from <= to THEN [m |-> m, ok |-> TRUE]
  ELSE LET x == GetC(from, "hash") IN
       IF x \in {ERR, PANIC} THEN [m |-> m, ok |-> FALSE]
       ELSE Prune([k \in DOMAIN m \ {x} |-> m[k]], from - 1, to)

RECURSIVE RemoveFiles(_, _, _)
RemoveFiles(fs, r, t) ==      \* returns [fs, r, ok]
  IF r < t THEN [fs |-> fs, r |-> r, ok |-> TRUE]
  ELSE LET i == Div(r + K, K) IN
       IF fs[i] = <<>> /\ RmMissingErr THEN [fs |-> fs, r |-> r, ok |-> FALSE]
       ELSE RemoveFiles([fs EXCEPT ![i] = <<>>], r - K, t)

Revert(t) ==
  /\ t >= 0 /\ nextId' = nextId
  /\ IF t > height
     THEN UNCHANGED <<height, last, hmap, files>> /\ act' = Act("Revert", t, 0, "err")
     ELSE LET fixed == "revert" \in Fixed
              fs0 == IF fixed THEN SaveTo(files, height, last) ELSE files    \* repaired: persist the cache first
              p == Prune(hmap, height, IF Mut = "PruneOneLess" THEN t + 1 ELSE t)
              Fail(fs, m) == /\ files' = fs /\ hmap' = (IF fixed THEN hmap ELSE m)
                             /\ UNCHANGED <<height, last>>
                             /\ act' = Act("Revert", t, 0, "err")
          IN IF ~p.ok THEN Fail(fs0, p.m)
             ELSE LET rf == RemoveFiles(fs0, Div(height, K) * K - 1, t) IN
                  IF ~rf.ok THEN Fail(rf.fs, p.m)
                  ELSE LET i == Div(rf.r + K, K)
                           n == t - rf.r
                       IN IF rf.fs[i] = <<>> THEN Fail(rf.fs, p.m)
                          ELSE LET d == rf.fs[i]
                                   d2 == IF n < K /\ Len(d) > n /\ Mut # "NoTruncate" THEN SubSeq(d, 1, n) ELSE d
                               IN /\ files' = [rf.fs EXCEPT ![i] = d2] /\ last' = d2 /\ height' = t
                                  /\ hmap' = p.m
                                  /\ act' = Act("Revert", t, 0, "ok")

(* Load : blocks.go:67 *)
RECURSIVE LoadFrom(_, _, _, _, _)
LoadFrom(n, h, m, l, prev) ==          \* returns [h, m, l, n, ok]
  IF ~HasFile(files, n) THEN [h |-> h, m |-> m, l |-> l, n |-> n, ok |-> TRUE]
  ELSE IF prev # -1 /\ prev # K THEN [h |-> h, m |-> m, l |-> l, n |-> n, ok |-> FALSE]
  ELSE LET hs == files[n]
           m2 == [x \in Range0(hs) |-> h + Pos(hs, x)] @@ m
           h2 == IF n = 0 THEN Len(hs) - 1 ELSE h + Len(hs)
       IN LoadFrom(n + 1, h2, m2, hs, Len(hs))

Load ==
  /\ UNCHANGED <<files, nextId>>
  /\ LET r == LoadFrom(0, -1, <<>>, last, -1) IN
     IF r.n = 0
     THEN /\ last' = Append(IF "load" \in Fixed THEN <<>> ELSE last, 0)       \* as written: the cache is not cleared
          /\ height' = 0 /\ hmap' = (0 :> 0) /\ act' = Act("Load", 0, 0, "ok")
     ELSE /\ last' = r.l /\ height' = r.h /\ hmap' = r.m
          /\ act' = Act("Load", 0, 0, IF r.ok THEN "ok" ELSE "err")

GhostNext == abs' = Ghost(abs, pabs, act').a /\ pabs' = Ghost(abs, pabs, act').p
Next == (Add \/ Save \/ Load \/ \E t \in 0..MaxH : Revert(t)) /\ GhostNext
Spec == Init /\ [][Next]_vars

-----------------------------------------------------------------------------
(* node.go:1344 GetHeaders(height, maxCount), 1376 BlockHash ; blocks.go:283 Header(-1 = tip) *)
HeaderC(i) == IF i = -1 THEN GetC(height, "hash") ELSE GetC(i, "hash")
RECURSIVE GHLoop(_, _, _)
GHLoop(i, upper, acc) ==
  IF i > upper THEN [hs |-> acc, err |-> FALSE]
  ELSE LET x == HeaderC(i) IN
       IF x = PANIC THEN [hs |-> <<PANIC>>, err |-> TRUE]
       ELSE IF x = ERR
       THEN IF i > height THEN (IF "range" \in Fixed THEN [hs |-> acc, err |-> FALSE] ELSE [hs |-> <<>>, err |-> FALSE])
            ELSE [hs |-> <<>>, err |-> TRUE]
       ELSE GHLoop(i + 1, upper, Append(acc, x))
GH(hq, n) ==            \* only meaningful with the identity height map (model checking)
  LET fixed == "range" \in Fixed
      start == IF hq = -1 THEN (IF fixed THEN (IF height + 1 > n THEN height - n + 1 ELSE 0)
                                         ELSE (IF height > n THEN height - n ELSE 0)) ELSE hq
      r == GHLoop(start, IF fixed THEN start + n - 1 ELSE start + n, <<>>)
  IN [cnt |-> Len(r.hs), first |-> IF r.hs = <<>> THEN NONE ELSE r.hs[1], err |-> r.err, linked |-> TRUE]

\* The observation: what the public queries answer in the current state (code layer).
HeightOfC(x) == IF x \in DOMAIN hmap THEN hmap[x] ELSE ERR
ObsC == [h   |-> height,
         tip |-> last[Len(last)],
         hs  |-> [q \in 1..(MaxH + 2) |-> GetC(q - 1, "hash")],        \* Hash(0..MaxH+1)
         hd  |-> [q \in 1..(MaxH + 2) |-> GetC(q - 1, "hash")],        \* Header(0..MaxH+1)
         ts  |-> [q \in 1..(MaxH + 2) |-> GetC(q - 1, "time")],        \* Time(0..MaxH+1)
         neg |-> <<GetC(-1, "hash"), GetC(-2, "hash"), GetC(-2, "hash"), GetC(-1, "time"), GetC(-2, "time")>>,
                                                                        \* Hash(-1), Hash(-2), Header(-2), Time(-1), Time(-2)
         hdtip |-> HeaderC(-1),                                         \* Header(-1)
         bhtip |-> GetC(height, "hash"),                                \* node.BlockHash(-1)
         ids |-> [x \in 1..MaxId |-> HeightOfC(x)],
         gh  |-> [k \in 1..NProbe |-> GH(ProbeQ(k), ProbeN(k))]]

-----------------------------------------------------------------------------
(* C10: crash points.  Every individual storage mutation an operation performs, in the order the code issues them;  *)
(* after any prefix the surviving files must load (Load on the files alone) to a chain that is a prefix of the      *)
(* abstract chain before or after the operation.                                                                   *)
RECURSIVE LoadFiles(_, _, _, _)
LoadFiles(fs, n, acc, prev) ==       \* [ok, chain] : what Load reconstructs from the files fs
  IF ~(n \in FIdx) \/ fs[n] = <<>> THEN [ok |-> TRUE, chain |-> IF n = 0 THEN <<0>> ELSE acc]
  ELSE IF prev # -1 /\ prev # K THEN [ok |-> FALSE, chain |-> acc]
  ELSE LoadFiles(fs, n + 1, acc \o fs[n], Len(fs[n]))
IsPrefix(a, b) == Len(a) <= Len(b) /\ SubSeq(b, 1, Len(a)) = a

\* snapshots of the files after each storage mutation of Revert(t), in order (repaired code: the cache is saved first)
RECURSIVE RemoveSnaps(_, _, _, _)
RemoveSnaps(fs, r, t, acc) ==
  IF r < t THEN [fs |-> fs, r |-> r, acc |-> acc]
  ELSE LET i == Div(r + K, K)  fs2 == [fs EXCEPT ![i] = <<>>] IN RemoveSnaps(fs2, r - K, t, Append(acc, fs2))
RevertSnaps(t) ==
  LET fs0 == SaveTo(files, height, last)
      rm == RemoveSnaps(fs0, Div(height, K) * K - 1, t, <<fs0>>)
      i == Div(rm.r + K, K)
      n == t - rm.r
      d == rm.fs[i]
      d2 == IF n < K /\ Len(d) > n THEN SubSeq(d, 1, n) ELSE d
  IN Append(rm.acc, [rm.fs EXCEPT ![i] = d2])
CrashOK(fs) == LET r == LoadFiles(fs, 0, <<>>, -1) IN r.ok /\ IsPrefix(r.chain, abs)
CrashSafe ==
  /\ CrashOK(files)                                              \* now
  /\ CrashOK(SaveTo(files, height, last))                        \* after the single write of Save / roll-over
  /\ \A t \in 0..height : \A k \in 1..Len(RevertSnaps(t)) : CrashOK(RevertSnaps(t)[k])

QueryOK == AnswersP(ObsC, abs)
NoPanic == NoCrashP(ObsC)
NegOK == NegP(ObsC)
RangeOK == RangeP(ObsC, abs)
\* "a revert that fails leaves the store unchanged" is QueryOK in the state after a failed Revert
\* (abs is unchanged by a failed revert); "save followed by load reproduces the same chain" is
\* QueryOK after Load (abs' = pabs, and pabs = abs after Save).
=============================================================================
