SPECIFICATION Spec
CONSTANTS
  N = 6
  Par <- ParSmall
  W = 3
  MaxPend = 2
  Sizes <- SizesSmall
  Mut = ""
VIEW View
INVARIANTS Window Bytes ChainOrder UnfilledZero
PROPERTIES StepProps
CHECK_DEADLOCK FALSE
