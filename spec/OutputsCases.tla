---- MODULE OutputsCases ----
(***************************************************************************)
(* C16, last clause: RemoteClient.GetOutputs (pkg/client/remote_client.go  *)
(* : 663) as a declarative specification, enumerated by TLC into cases     *)
(* with their expected result.  The service knows transactions 1 and 2     *)
(* (three outputs each, output i of transaction t has value 100 t + i and  *)
(* a locking script naming <<t, i>>) and rejects a request for             *)
(* transaction 3.  An outputs lookup returns, per requested outpoint and   *)
(* in order, that outpoint's value and script, or an error when any        *)
(* outpoint names an unknown transaction or an index out of range.         *)
(***************************************************************************)
EXTENDS Integers, Sequences, FiniteSets, TLC, Json, SequencesExt
CONSTANT MaxLen
Known == {1, 2}
Txs == {1, 2, 3}
NOut == 3
Idx == {0, 2, 3, 2147483647}
Outpoints == Txs \X Idx
Lists == UNION {[1..k -> Outpoints] : k \in 0..MaxLen}
Bad(o) == o[1] \notin Known \/ o[2] >= NOut
Expected(l) == IF \E i \in 1..Len(l) : Bad(l[i]) THEN [err |-> TRUE, outs |-> <<>>]
               ELSE [err |-> FALSE, outs |-> [i \in 1..Len(l) |-> [t |-> l[i][1], i |-> l[i][2], value |-> 100 * l[i][1] + l[i][2]]]]
JCase(l) == [ops |-> [i \in 1..Len(l) |-> [t |-> l[i][1], i |-> l[i][2]]], expect |-> Expected(l)]
Cases == {JCase(l) : l \in Lists}
ASSUME LET cs == SetToSeq(Cases) IN JsonSerialize("outputs_cases.json", cs)
VARIABLE x
Init == x = 0
Next == UNCHANGED x
Spec == Init /\ [][Next]_x
====
