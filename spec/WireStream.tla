---------------------------- MODULE WireStream ----------------------------
(***************************************************************************)
(* The client wire protocol as a byte stream (pkg/client/messages.go:18-48 *)
(* framing; :225-1872 the Serialize / Deserialize pairs; models.go the     *)
(* type table; storage/tx.go the stored transaction record).  Properties   *)
(* C15 and C20.                                                            *)
(*                                                                         *)
(* A writer appends messages to a stream; a reader consumes them.  A       *)
(* message is identified here by its type code and a value class (which    *)
(* boundary values its fields take: see the harness generator); its length *)
(* in bytes is whatever the real encoder produced (bound from the trace).  *)
(*   Write(t, c, n)   the encoder appended message (t, c): n bytes         *)
(*   Read             the decoder reads the next message from the stream   *)
(*   Cut(k)           a fresh decoder is given every strict prefix of the  *)
(*                    encoding of the k-th message                         *)
(*   Hostile(k, lie)  a fresh decoder is given the encoding of the k-th    *)
(*                    message with one position overwritten by a count     *)
(*                    that claims `lie` elements (C20)                     *)
(***************************************************************************)
EXTENDS Integers, Sequences, FiniteSets, TLC

CONSTANTS MaxMsgs, Lens        \* Lens: the lengths the model tries (the real lengths come from the trace)

\* the type table of the protocol (models.go:17-190, messages.go:138-221); code 0 is the stored transaction record
TypeTable == <<
  [code |-> 1, name |-> "register"], [code |-> 11, name |-> "subscribe_push_data"], [code |-> 12, name |-> "unsubscribe_push_data"],
  [code |-> 13, name |-> "subscribe_tx"], [code |-> 14, name |-> "unsubscribe_tx"], [code |-> 15, name |-> "subscribe_outputs"],
  [code |-> 16, name |-> "unsubscribe_outputs"], [code |-> 17, name |-> "subscribe_headers"], [code |-> 18, name |-> "unsubscribe_headers"],
  [code |-> 19, name |-> "subscribe_contracts"], [code |-> 20, name |-> "unsubscribe_contracts"], [code |-> 30, name |-> "ready"],
  [code |-> 41, name |-> "get_chain_tip"], [code |-> 42, name |-> "get_headers"], [code |-> 43, name |-> "send_tx"], [code |-> 44, name |-> "get_tx"],
  [code |-> 45, name |-> "get_header"], [code |-> 46, name |-> "get_fee_quotes"], [code |-> 47, name |-> "post_merkle_proofs"],
  [code |-> 48, name |-> "send_expanded_tx"], [code |-> 49, name |-> "save_txs"], [code |-> 51, name |-> "reprocess_tx"],
  [code |-> 52, name |-> "mark_header_invalid"], [code |-> 53, name |-> "mark_header_not_invalid"], [code |-> 101, name |-> "accept_register"],
  [code |-> 110, name |-> "base_tx"], [code |-> 111, name |-> "tx"], [code |-> 112, name |-> "tx_update"], [code |-> 121, name |-> "in_sync"],
  [code |-> 122, name |-> "chain_tip"], [code |-> 123, name |-> "headers"], [code |-> 124, name |-> "header"], [code |-> 125, name |-> "fee_quotes"],
  [code |-> 200, name |-> "accept"], [code |-> 201, name |-> "reject"], [code |-> 301, name |-> "ping"], [code |-> 302, name |-> "pong"] >>
Codes == {TypeTable[i].code : i \in 1..Len(TypeTable)}
Names == {TypeTable[i].name : i \in 1..Len(TypeTable)}
ASSUME Len(TypeTable) = 37 /\ Cardinality(Codes) = 37 /\ Cardinality(Names) = 37         \* codes and names map one-to-one
Types == Codes \cup {0}
Classes == {"zero", "one", "many", "wide", "max"}
Lies == {"w3", "w5", "w9", "w9max",       \* a count of 65535, 2^32-1, 2^63, 2^64-1 in its canonical varint width
         "w5p27", "w9p59"}                 \* 2^27 and 2^59: counts whose product with an element size of 32 wraps at 2^32 / 2^64

VARIABLES w,       \* what was written: sequence of [t, c, n]
          r,       \* number of messages read
          pos,     \* bytes consumed by the reader
          act
vars == <<w, r, pos, act>>
A(a, t, c, n, res) == [a |-> a, t |-> t, c |-> c, n |-> n, res |-> res]

Init == w = <<>> /\ r = 0 /\ pos = 0 /\ act = A("init", 0, "", 0, "")
Write(t, c, n) == /\ Len(w) < MaxMsgs /\ w' = Append(w, [t |-> t, c |-> c, n |-> n])
                  /\ act' = A("Write", t, c, n, "ok") /\ UNCHANGED <<r, pos>>
\* the decoder returns exactly the message written and consumes exactly its bytes
Read == /\ r < Len(w) /\ r' = r + 1 /\ pos' = pos + w[r + 1].n
        /\ act' = A("Read", w[r + 1].t, w[r + 1].c, w[r + 1].n, "ok") /\ UNCHANGED w
\* every strict prefix fails to decode with an error (res = "error" for all of them)
Cut(k) == /\ k \in 1..Len(w) /\ act' = A("Cut", w[k].t, w[k].c, k, "error") /\ UNCHANGED <<w, r, pos>>
\* hostile bytes: the decoder terminates with a value or an error
Hostile(k, lie) == /\ k \in 1..Len(w) /\ \E res \in {"ok", "error"} : act' = A("Hostile", w[k].t, lie, k, res) /\ UNCHANGED <<w, r, pos>>
Next == (\E t \in Types, c \in Classes, n \in Lens : Write(t, c, n)) \/ Read \/ (\E k \in 1..MaxMsgs : Cut(k))
        \/ (\E k \in 1..MaxMsgs, lie \in Lies : Hostile(k, lie))
Spec == Init /\ [][Next]_vars

RECURSIVE SumN(_, _)
SumN(s, k) == IF k = 0 THEN 0 ELSE s[k].n + SumN(s, k - 1)
Framing == r <= Len(w) /\ pos = SumN(w, r)                    \* the reader is exactly at a message boundary
Clean == act.res \in {"", "ok", "error"}                      \* never a panic, never killed
PrefixFails == act.a = "Cut" => act.res = "error"
=============================================================================
