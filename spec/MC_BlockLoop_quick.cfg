SPECIFICATION Spec
CONSTANTS
  N = 6
  W = 3
  MaxBatch = 4
  MaxSteps = 22
VIEW View
INVARIANTS WireOnce WireOrder Window
CHECK_DEADLOCK FALSE
