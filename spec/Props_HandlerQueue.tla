---- MODULE Props_HandlerQueue ----
(* C17 with a slow application, judged on what the real handler saw: the send numbers carried by the notifications *)
EXTENDS MC_HandlerQueue, Json
Tr == ndJsonDeserialize("impl.ndjson")
Lines == 1..Len(Tr)
F(name, X) == {<<name, i>> : i \in X}
Bad == F("HandledInSendOrder", {i \in Lines : ~InOrderP(Tr[i].st.deliv)})
  \cup F("NoPanic", {i \in Lines : Len(Tr[i].skip) >= 5 /\ SubSeq(Tr[i].skip, 1, 5) = "PANIC"})
ASSUME JsonSerialize("props_result.json", [lines |-> Len(Tr), bad |-> Bad])
PSpec == Init /\ [][UNCHANGED vars]_vars
====
