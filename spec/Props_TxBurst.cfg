SPECIFICATION PSpec
CHECK_DEADLOCK FALSE
