SPECIFICATION Spec
CONSTANTS
  MaxLen = 3
  MaxWord = 3
CHECK_DEADLOCK FALSE
