---- MODULE Trace_HeaderSync ----
EXTENDS MC_HeaderSync, Json
Tr == ndJsonDeserialize("impl.ndjson")
VARIABLES l, rej
tvars == <<vars, l, rej>>
Same(i) == LET s == Tr[i].st IN
  /\ chain' = [j \in 1..Len(s.chain) |-> [a |-> s.chain[j].a, b |-> s.chain[j].b]]
  /\ last' = s.last /\ saved' = s.saved /\ req' = s.req /\ fault' = s.fault /\ hs' = s.hs /\ ptip' = s.ptip
Step1(e) == CASE e.a = "Check" -> Check [] e.a = "Answer" -> Answer [] e.a = "Timeout" -> Timeout [] e.a = "Restart" -> Restart
              [] e.a = "Crash" -> Crash [] e.a = "Arm" -> Arm [] OTHER -> FALSE
TMatch == /\ l < Len(Tr) /\ Tr[l+1].act.a \notin {"init", "final"} /\ Tr[l+1].skip = ""
          /\ Step1(Tr[l+1].act) /\ Same(l+1) /\ l' = l + 1 /\ UNCHANGED rej
\* the closing line of a scenario is the driver's completion (sync to quiescence), judged by Props only
TFinal == /\ l < Len(Tr) /\ Tr[l+1].act.a = "final" /\ l' = l + 1 /\ UNCHANGED <<vars, rej>>
TStart(i) == /\ chain' = <<>> /\ last' = 0 /\ saved' = 0 /\ req' = -1 /\ fault' = "none" /\ hs' = FALSE /\ ptip' = Tr[i].st.ptip /\ steps' = 0
             /\ act' = A("init", 0) /\ l' = i
Begin == l < Len(Tr) /\ Tr[l+1].act.a = "init" /\ TStart(l+1) /\ UNCHANGED rej
NextInit(i) == IF \E j \in i..Len(Tr) : Tr[j].act.a = "init"
               THEN CHOOSE j \in i..Len(Tr) : Tr[j].act.a = "init" /\ \A k \in i..(j-1) : Tr[k].act.a # "init" ELSE 0
Resync == /\ l < Len(Tr) /\ Tr[l+1].act.a \notin {"init", "final"} /\ ~ENABLED TMatch /\ rej' = Append(rej, l + 1)
          /\ LET j == NextInit(l + 1) IN IF j = 0 THEN l' = Len(Tr) /\ UNCHANGED vars ELSE TStart(j)
TraceSpec == Init /\ l = 0 /\ rej = <<>> /\ [][Begin \/ TMatch \/ TFinal \/ Resync]_tvars
Done == (l = Len(Tr)) => JsonSerialize("trace_result.json", [lines |-> Len(Tr), rej |-> rej])
====
