SPECIFICATION TraceSpec
CONSTANTS
  N = 16
  W = 10
  MaxBatch = 8
  MaxSteps = 100000
INVARIANTS Done
CHECK_DEADLOCK FALSE
