SPECIFICATION Spec
CONSTANTS
  N = 7
  Par <- Par7
  Start = 2
  W = 2
  Batch = 2
  AnnMax = 8
  MaxTip = 1
  MaxRestart = 0
  MaxPR = 0
  Drops = FALSE
  MaxDup = 0
  MaxAdv = 0
  Calm = FALSE
  Fifo = TRUE
  MaxUnt = 0
  InitTips <- Tips134
  Fix <- CodeFix
  Mut = ""
VIEW View
INVARIANTS Linked NoDupChain WindowOK OrderedReq InSyncNotifyOK
PROPERTIES StepProps
CHECK_DEADLOCK FALSE
