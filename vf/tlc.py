"""Running TLC (model checking, simulation, trace validation) and parsing its output."""
import glob
import os
import re
import shutil
import subprocess
import tempfile
import time

from . import tlaval

VERIF = os.path.dirname(os.path.dirname(os.path.abspath(__file__)))
SPEC = os.path.join(VERIF, 'spec')
JAR = '/opt/veriftools/tla/tla2tools.jar:/opt/veriftools/tla/CommunityModules-deps.jar'


class TLCResult:
    def __init__(self):
        self.ok = False            # finished without error
        self.violated = None       # name of violated invariant / property, or None
        self.kind = None           # 'invariant' | 'action' | 'temporal' | 'deadlock' | 'postcondition' | 'error'
        self.generated = 0
        self.distinct = 0
        self.depth = 0
        self.trace = []            # counterexample: list of {'label':..., 'state': {...}}
        self.stdout = ''
        self.wall = 0.0
        self.printed = []          # values printed with Print/PrintT
        self.rc = 0
        self.timed_out = False
        self.coverage_zero = []


def scratch(prefix='vf-'):
    d = tempfile.mkdtemp(prefix=prefix)
    return d


def stage(modules_dir=SPEC, extra_files=None):
    """Copy the spec directory into a scratch dir (TLC litters its cwd)."""
    d = scratch()
    for f in glob.glob(os.path.join(modules_dir, '*.tla')) + glob.glob(os.path.join(modules_dir, '*.cfg')):
        shutil.copy(f, d)
    for src, name in (extra_files or {}).items():
        shutil.copy(src, os.path.join(d, name))
    return d


_re_stats = re.compile(r'(\d+) states generated, (\d+) distinct states found')
_re_depth = re.compile(r'The depth of the complete state graph search is (\d+)')
_re_inv = re.compile(r'Error: Invariant (\w+) is violated')
_re_act = re.compile(r'Error: Action property (\w+) is violated')
_re_state = re.compile(r'^State (\d+): <?(.*?)>?$', re.M)


def _parse_trace(out):
    tr = []
    ms = list(_re_state.finditer(out))
    for k, m in enumerate(ms):
        end = ms[k + 1].start() if k + 1 < len(ms) else len(out)
        body = out[m.end():end]
        # the body ends at the first blank line
        body = body.split('\n\n')[0]
        label = m.group(2).split(' line ')[0].strip()
        try:
            tr.append({'label': label, 'state': tlaval.parse_state(body)})
        except Exception:
            break
    return tr


def run(workdir, module, cfg, workers=8, timeout=600, simulate=None, depth=None, seed=None,
        extra=None, deadlock=False, heap=None, dfs=False, coverage=False):
    """Run TLC in workdir on module.tla with cfg. simulate = 'file=..,num=N' string or None."""
    meta = tempfile.mkdtemp(prefix='vf-meta-')
    cmd = ['java', '-XX:+UseParallelGC']
    if heap:
        cmd.append('-Xmx%s' % heap)
    cmd.append('-Xss64m')
    if dfs:
        cmd.append('-Dtlc2.tool.queue.IStateQueue=StateDeque')
    cmd += ['-cp', JAR, 'tlc2.TLC', '-metadir', meta, '-config', cfg, '-workers', str(workers)]
    if not deadlock:
        cmd.append('-deadlock')
    if simulate is not None:
        cmd += ['-simulate', simulate]
    if depth is not None:
        cmd += ['-depth', str(depth)]
    if seed is not None:
        cmd += ['-seed', str(seed)]
    if coverage:
        cmd += ['-coverage', '1']
    cmd += list(extra or [])
    cmd.append(module)
    r = TLCResult()
    t0 = time.time()
    try:
        p = subprocess.run(cmd, cwd=workdir, stdout=subprocess.PIPE, stderr=subprocess.STDOUT,
                           timeout=timeout, text=True, errors='replace')
        r.stdout = p.stdout
        r.rc = p.returncode
    except subprocess.TimeoutExpired as e:
        r.stdout = (e.stdout or b'').decode('utf-8', 'replace') if isinstance(e.stdout, bytes) else (e.stdout or '')
        r.timed_out = True
        r.rc = -1
    r.wall = time.time() - t0
    shutil.rmtree(meta, ignore_errors=True)
    out = r.stdout
    ms = _re_stats.findall(out)
    if ms:
        r.generated, r.distinct = int(ms[-1][0]), int(ms[-1][1])
    m = _re_depth.search(out)
    if m:
        r.depth = int(m.group(1))
    for line in out.splitlines():
        if line.startswith('<<') or line.startswith('"'):
            r.printed.append(line)
    if coverage:
        for m in re.finditer(r'^<(\w+) line .*?>: (\d+):(\d+)$', out, re.M):
            if m.group(2) == '0' and m.group(3) == '0':
                r.coverage_zero.append(m.group(1))
    m = _re_inv.search(out)
    if m:
        r.violated, r.kind = m.group(1), 'invariant'
    else:
        m = _re_act.search(out)
        if m:
            r.violated, r.kind = m.group(1), 'action'
        elif 'Temporal properties were violated' in out or re.search(r'Temporal property (\w+) was violated', out):
            mm = re.search(r'Temporal property (\w+) was violated', out)
            r.violated, r.kind = (mm.group(1) if mm else 'temporal'), 'temporal'
        elif 'Deadlock reached' in out:
            r.violated, r.kind = 'deadlock', 'deadlock'
        elif re.search(r'Postcondition|postcondition', out) and 'violated' in out:
            r.violated, r.kind = 'postcondition', 'postcondition'
        elif 'Error:' in out and not r.timed_out:
            r.violated, r.kind = 'error', 'error'
    if r.violated and r.kind in ('invariant', 'action', 'temporal', 'deadlock'):
        r.trace = _parse_trace(out)
    r.ok = (r.violated is None) and not r.timed_out and (
        'Model checking completed. No error has been found.' in out or simulate is not None
        or 'Finished in' in out)
    return r


_re_simstate = re.compile(r'^STATE_(\d+) ==\s*$', re.M)


def parse_sim_file(path):
    """One behaviour written by `-simulate file=`: list of state dicts."""
    txt = open(path).read()
    states = []
    parts = re.split(r'^STATE_\d+ ==', txt, flags=re.M)[1:]
    for p in parts:
        body = p.split('\n\n')[0]
        states.append(tlaval.parse_state(body))
    return states


def simulate(workdir, module, cfg, num, depth, seed, timeout=600, prefix='b'):
    """Returns (result, list of behaviours); each behaviour = list of state dicts."""
    outdir = os.path.join(workdir, 'sim')
    os.makedirs(outdir, exist_ok=True)
    for f in glob.glob(os.path.join(outdir, '*')):
        os.remove(f)
    r = run(workdir, module, cfg, workers=1, timeout=timeout,
            simulate='file=%s,num=%d' % (os.path.join(outdir, prefix), num), depth=depth, seed=seed)
    behs = []
    for f in sorted(glob.glob(os.path.join(outdir, prefix + '*'))):
        try:
            behs.append(parse_sim_file(f))
        except Exception as e:  # a truncated file (time-out) is skipped
            pass
    return r, behs
