"""Common check driver: tiers, seeds, verdicts, known findings, evidence."""
import argparse
import hashlib
import json
import os
import shutil
import sys
import time

VERIF = os.path.dirname(os.path.dirname(os.path.abspath(__file__)))
FINDINGS = os.path.join(VERIF, 'known_findings.txt')


def load_findings():
    out = []
    if os.path.exists(FINDINGS):
        for line in open(FINDINGS):
            line = line.strip()
            if line.startswith('known:'):
                f = json.loads(line[len('known:'):])
                f['status'] = 'known'
                out.append(f)
            elif line.startswith('fixed:'):
                m = line.split()
                out.append({'status': 'fixed', 'property': m[1].split('=')[1], 'commit': m[2], 'what': ' '.join(m[3:])})
    return out


class Check:
    """One run of one property's check."""

    def __init__(self, prop, level, argv=None):
        ap = argparse.ArgumentParser()
        ap.add_argument('--tier', default=os.environ.get('VERIF_TIER', 'quick'))
        ap.add_argument('--replay', default=None)
        ap.add_argument('--keep', action='store_true', help='keep the scratch directory')
        a = ap.parse_args(argv)
        self.prop = prop
        self.level = level
        self.tier = a.tier if a.tier in ('quick', 'thorough') else 'quick'
        self.replay = a.replay
        self.keep = a.keep
        try:
            self.seed = int(os.environ.get('VERIF_SEED', '1'))
        except ValueError:
            self.seed = 1
        self.t0 = time.time()
        self.violations = []      # dicts: formula, detail, replay (object), finding
        self.notes = []
        self.assumptions = []
        self.cov = {}
        self.workdirs = []
        self.findings = [f for f in load_findings() if self.prop in (f.get('property') or '').split(',')]

    # ---- bookkeeping -------------------------------------------------------------------------
    def log(self, *a):
        print('[%s %6.1fs]' % (self.prop, time.time() - self.t0), *a, flush=True)

    def scratch(self, d):
        self.workdirs.append(d)
        return d

    def infra(self, msg):
        """Infrastructure failure: neither a pass nor a violation."""
        self.log('INFRASTRUCTURE FAILURE:', msg)
        self._cleanup()
        sys.exit(2)

    def _cleanup(self):
        if not self.keep:
            for d in self.workdirs:
                shutil.rmtree(d, ignore_errors=True)

    # ---- verdicts ----------------------------------------------------------------------------
    def attribute(self, formula, ctx):
        """Known finding (status 'known') whose formula and `when` predicate match, else None."""
        for f in self.findings:
            if f.get('status') != 'known':
                continue
            if formula not in f.get('formulas', [f.get('formula')]):
                continue
            cond = f.get('when')
            if cond:
                try:
                    if not eval(cond, {'__builtins__': {'len': len, 'any': any, 'all': all, 'set': set,
                                                        'min': min, 'max': max, 'sorted': sorted,
                                                        'isinstance': isinstance, 'str': str, 'int': int,
                                                        'list': list, 'dict': dict, 'abs': abs}},
                                dict(ctx)):
                        continue
                except Exception as e:
                    self.log('finding %s: predicate failed to evaluate (%s): not attributed' % (f['id'], e))
                    continue
            return f
        return None

    def violation(self, formula, detail, replay, ctx=None):
        """Record that `formula` is false on a trace of the real code."""
        f = self.attribute(formula, ctx or {})
        self.violations.append({'formula': formula, 'detail': detail, 'replay': replay, 'finding': f})

    def finish(self, coverage, assumptions=None, extra=None):
        known = {}
        new = []
        for v in self.violations:
            if v['finding'] is not None:
                known.setdefault(v['finding']['id'], []).append(v)
            else:
                new.append(v)
        for fid, vs in sorted(known.items()):
            f = vs[0]['finding']
            print('KNOWN-FINDING: property=%s %s %s (%d occurrence(s) in this run; formula %s)' % (
                self.prop, fid, f.get('what', ''), len(vs), vs[0]['formula']), flush=True)
        rc = 0
        if new:
            rc = 1
            os.makedirs(os.path.join(VERIF, 'replays'), exist_ok=True)
            seen = set()
            for k, v in enumerate(new):
                key = (v['formula'], json.dumps(v['replay'], sort_keys=True)[:2000])
                if key in seen:
                    continue
                seen.add(key)
                if len(seen) > 10:
                    break
                h = hashlib.sha1(json.dumps(v['replay'], sort_keys=True).encode()).hexdigest()[:10]
                path = os.path.join(VERIF, 'replays', '%s-%s-%s.json' % (self.prop, v['formula'], h))
                with open(path, 'w') as fp:
                    json.dump({'property': self.prop, 'formula': v['formula'], 'detail': v['detail'],
                               'replay': v['replay']}, fp, indent=1)
                print('VIOLATION property=%s replay=%s' % (self.prop, path), flush=True)
                self.log('  formula %s is false on the real code: %s' % (v['formula'], v['detail']))
        cov = dict(coverage)
        cov.setdefault('known_findings_seen', sorted(known))
        cov.setdefault('notes', self.notes)
        ev = {
            'property_id': self.prop,
            'tier': self.tier,
            'seed': self.seed,
            'level': self.level,
            'coverage': cov,
            'assumptions': assumptions or self.assumptions,
            'wall_s': round(time.time() - self.t0, 2),
            'violations': len(new),
        }
        if extra:
            ev.update(extra)
        if self.replay is None and not os.environ.get('VERIF_NO_EVIDENCE'):
            os.makedirs(os.path.join(VERIF, 'evidence'), exist_ok=True)
            with open(os.path.join(VERIF, 'evidence', '%s.json' % self.prop), 'w') as fp:
                json.dump(ev, fp, indent=1, sort_keys=True)
        self.log('done: %d new violation(s), %d known finding(s), %.1fs' % (len(new), len(known), time.time() - self.t0))
        self._cleanup()
        sys.exit(rc)


def script_hash(steps):
    return hashlib.sha1(json.dumps(steps, sort_keys=True).encode()).hexdigest()[:12]


def parse_printed(result, tag):
    """Find the <<"TAG", ...>> tuple TLC printed and return it parsed (plain JSON)."""
    from . import tlaval
    out = result.stdout
    key = '<<"%s"' % tag
    i = out.rfind(key)
    if i < 0:
        return None
    # the value may span several lines; parse from i
    try:
        p = tlaval._P(out[i:])
        return tlaval.plain(p.val())
    except Exception:
        return None
