"""Pipeline steps shared by the checks: model -> generate -> replay on the real code -> judge."""
import glob
import json
import os
import shutil

from . import core, gobuild, tlaval, tlc


def model_check(chk, module, cfg, workers=8, timeout=600, heap=None, subst=None, coverage=False):
    """Exhaustive TLC run of MC_<module> with cfg. Returns the TLCResult."""
    d = chk.scratch(tlc.stage())
    if subst:
        p = os.path.join(d, cfg)
        s = open(p).read()
        for a, b in subst.items():
            s = s.replace(a, b)
        open(p, 'w').write(s)
    r = tlc.run(d, 'MC_' + module if not module.startswith(('MC_', 'Sim_', 'Attack_')) else module, cfg,
                workers=workers, timeout=timeout, heap=heap, coverage=coverage)
    chk.log('model %s/%s: %d generated, %d distinct, depth %d, %.1fs%s' % (
        module, cfg, r.generated, r.distinct, r.depth, r.wall,
        '' if r.ok else ' -> %s %s%s' % (r.kind, r.violated, ' (timed out)' if r.timed_out else '')))
    return r


def sim_scripts(chk, module, cfg, num, depth, seed, timeout=600, actvar='act', prefix='sim', stepfn=None, subst=None):
    """tlc -simulate on Sim_<module>; every behaviour becomes a script (sequence of `act` records)."""
    d = chk.scratch(tlc.stage())
    if subst:
        p = os.path.join(d, cfg)
        c = open(p).read()
        for a, b in subst.items():
            c = c.replace(a, b)
        open(p, 'w').write(c)
    r, behs = tlc.simulate(d, 'Sim_' + module, cfg, num=num, depth=depth, seed=seed, timeout=timeout)
    scripts = []
    seen = set()
    for k, b in enumerate(behs):
        steps = []
        for s in b[1:]:
            st = tlaval.plain(s[actvar])
            if stepfn:
                st = dict(st)
                st.update(stepfn(s))
            steps.append(st)
        h = core.script_hash(steps)
        if h in seen or not steps:
            continue
        seen.add(h)
        scripts.append({'id': '%s-%d-%d' % (prefix, seed, k), 'steps': steps,
                        'init': {k2: tlaval.plain(v) for k2, v in b[0].items() if k2 != actvar}})
    chk.log('generate %s/%s seed %d: %d behaviours (%d distinct), %d steps, %.1fs' % (
        module, cfg, seed, len(behs), len(scripts), sum(len(s['steps']) for s in scripts), r.wall))
    if not scripts:
        chk.infra('simulation produced no behaviours:\n' + r.stdout[-1500:])
    return scripts


def attack_scripts(prop, module):
    out = []
    for f in sorted(glob.glob(os.path.join(tlc.SPEC, 'attacks', prop, '%s-*.json' % module))):
        a = json.load(open(f))
        e = dict(a)
        e['attack'] = a.get('mutant') or a.get('target')
        out.append(e)
    return out


def counterexample_script(r, actvar='act'):
    return {'id': 'model-cex-%s' % r.violated, 'steps': [tlaval.plain(s['state'][actvar]) for s in r.trace[1:]]}


_BUILT = {}


def build(chk, pkg, race=False):
    key = (pkg, race)
    if key not in _BUILT:
        d = chk.scratch(tlc.scratch('vf-bin-'))
        try:
            binp, t = gobuild.build(pkg, d, race=race)
        except gobuild.BuildError as e:
            chk.infra(str(e))
        chk.log('built harness for %s from %s in %.1fs' % (pkg, gobuild.REPO, t))
        _BUILT[key] = binp
    return _BUILT[key]


def replay(chk, pkg, test, payload, timeout=900, env=None, race=False):
    """Run the in-package replay driver on the real code. Returns (trace lines, harness output)."""
    binp = build(chk, pkg, race=race)
    d = chk.scratch(tlc.scratch('vf-run-'))
    sp = os.path.join(d, 'scripts.json')
    tp = os.path.join(d, 'impl.ndjson')
    json.dump(payload, open(sp, 'w'))
    e = {'VERIF_SCRIPTS': sp, 'VERIF_TRACE': tp, 'VERIF_SEED': str(chk.seed)}
    e.update(env or {})
    rc, out = gobuild.run_test(binp, test, e, timeout=timeout, cwd=d)
    if rc != 0 or not os.path.exists(tp):
        chk.infra('replay driver %s failed (rc %s):\n%s' % (test, rc, (out[:5000] + "\n ... \n" + out[-800:])))
    lines = [json.loads(x) for x in open(tp) if x.strip()]
    return lines, out, tp


def judge(chk, module, tracefile, cfg=None, timeout=900, extra_files=None):
    """Props_<module>: the property formulas evaluated by TLC on the recorded implementation states.
    Returns the list of [formula, line] pairs that are false."""
    files = {tracefile: 'impl.ndjson'}
    files.update(extra_files or {})
    d = chk.scratch(tlc.stage(extra_files=files))
    r = tlc.run(d, 'Props_' + module, cfg or ('Props_%s.cfg' % module), workers=1, timeout=timeout, heap='8g')
    res = _result(d, 'props_result.json')
    if res is None:
        chk.infra('Props_%s did not finish:\n%s' % (module, r.std(out[:5000] + "\n ... \n" + out[-800:])))
    chk.log('judge Props_%s: %d lines, %d false formula instances, %.1fs' % (module, res['lines'], len(res['bad']), r.wall))
    return res['lines'], res['bad']


def conform(chk, module, tracefile, cfg=None, timeout=900, extra_files=None):
    """Trace_<module>: strict trace validation. Returns (lines, rejected line numbers)."""
    files = {tracefile: 'impl.ndjson'}
    files.update(extra_files or {})
    d = chk.scratch(tlc.stage(extra_files=files))
    r = tlc.run(d, 'Trace_' + module, cfg or ('Trace_%s.cfg' % module), workers=1, timeout=timeout, heap='8g')
    res = _result(d, 'trace_result.json')
    if res is None:
        chk.infra('Trace_%s did not reach the end of the trace:\n%s' % (module, r.std(out[:5000] + "\n ... \n" + out[-800:])))
    chk.log('conform Trace_%s: %d lines, %d rejected, %d states, %.1fs' % (module, res['lines'], len(res['rej']), r.distinct, r.wall))
    return res['lines'], res['rej']


def _result(d, name):
    p = os.path.join(d, name)
    if not os.path.exists(p):
        return None
    try:
        return json.load(open(p))
    except Exception:
        return None


def replay_parallel(chk, pkg, test, base, scripts, nproc=8, timeout=1800, env=None, key='scripts'):
    """Split the scripts over nproc harness processes. Returns (lines, tracefile)."""
    from concurrent.futures import ThreadPoolExecutor
    binp = build(chk, pkg)
    d = chk.scratch(tlc.scratch('vf-run-'))
    nproc = max(1, min(nproc, len(scripts)))
    chunks = [scripts[i::nproc] for i in range(nproc)]

    def one(i):
        sp = os.path.join(d, 'scripts%d.json' % i)
        tp = os.path.join(d, 'impl%d.ndjson' % i)
        pl = dict(base)
        pl[key] = chunks[i]
        json.dump(pl, open(sp, 'w'))
        e = {'VERIF_SCRIPTS': sp, 'VERIF_TRACE': tp, 'VERIF_SEED': str(chk.seed)}
        e.update(env or {})
        rc, out = gobuild.run_test(binp, test, e, timeout=timeout, cwd=d)
        return rc, out, tp

    with ThreadPoolExecutor(nproc) as ex:
        res = list(ex.map(one, range(nproc)))
    lines = []
    tracefile = os.path.join(d, 'impl.ndjson')
    with open(tracefile, 'w') as f:
        for rc, out, tp in res:
            if rc != 0 or not os.path.exists(tp):
                chk.infra('replay driver %s failed (rc %s):\n%s' % (test, rc, (out[:5000] + "\n ... \n" + out[-800:])))
            for x in open(tp):
                if x.strip():
                    f.write(x)
                    lines.append(json.loads(x))
    return lines, tracefile


def tlc_lines_parallel(chk, module_file, cfg, lines, result_name, nproc=8, timeout=1800, subst=None, groupkey='tr'):
    """Run a trace module (Trace_X / Props_X) on the lines split at trace boundaries over nproc TLC processes.
    Returns a list of (global line numbers list, result dict) per chunk, in order."""
    from concurrent.futures import ThreadPoolExecutor
    order = []
    idx = {}
    for i, ln in enumerate(lines, 1):
        k = ln.get(groupkey)
        if k not in idx:
            idx[k] = []
            order.append(k)
        idx[k].append(i)
    nproc = max(1, min(nproc, len(order)))
    chunks = [[] for _ in range(nproc)]
    for j, k in enumerate(order):
        chunks[j % nproc] += idx[k]

    def one(c):
        d = chk.scratch(tlc.stage())
        with open(os.path.join(d, 'impl.ndjson'), 'w') as f:
            for i in chunks[c]:
                f.write(json.dumps(lines[i - 1]) + '\n')
        if subst:
            pth = os.path.join(d, cfg)
            t = open(pth).read()
            for a, b in subst.items():
                t = t.replace(a, b)
            open(pth, 'w').write(t)
        r = tlc.run(d, module_file, cfg, workers=1, timeout=timeout, heap='4g')
        res = _result(d, result_name)
        return r, res

    with ThreadPoolExecutor(nproc) as ex:
        res = list(ex.map(one, range(nproc)))
    out = []
    for c, (r, rs) in enumerate(res):
        if rs is None:
            i = r.stdout.find('Error:')
            chk.infra('%s did not finish:\n%s' % (module_file, r.stdout[i:i + 1500] if i >= 0 else r.std(out[:5000] + "\n ... \n" + out[-800:])))
        out.append((chunks[c], rs, r))
    return out


def judge_parallel(chk, module, lines, nproc=8, timeout=1800):
    bad = []
    res = tlc_lines_parallel(chk, 'Props_' + module, 'Props_%s.cfg' % module, lines, 'props_result.json', nproc, timeout)
    for sel, rs, r in res:
        if rs['lines'] != len(sel):
            chk.infra('Props_%s read %d of %d lines' % (module, rs['lines'], len(sel)))
        bad += [[f, sel[j - 1]] for f, j in rs['bad']]
    chk.log('judge Props_%s: %d lines in %d TLC runs, %d false formula instances, %.1fs' % (
        module, len(lines), len(res), len(bad), max(r.wall for _, _, r in res)))
    return bad


def conform_parallel(chk, module, lines, nproc=8, timeout=1800, subst=None):
    rej = []
    res = tlc_lines_parallel(chk, 'Trace_' + module, 'Trace_%s.cfg' % module, lines, 'trace_result.json', nproc, timeout, subst)
    for sel, rs, r in res:
        if rs['lines'] != len(sel):
            chk.infra('Trace_%s read %d of %d lines' % (module, rs['lines'], len(sel)))
        rej += [sel[j - 1] for j in rs['rej']]
    chk.log('conform Trace_%s: %d lines in %d TLC runs, %d rejected, %.1fs' % (
        module, len(lines), len(res), len(rej), max(r.wall for _, _, r in res)))
    return rej


def by_trace(lines):
    """Group 1-based line numbers by trace id ('tr' field)."""
    groups = {}
    for i, ln in enumerate(lines, 1):
        groups.setdefault(ln.get('tr'), []).append(i)
    return groups
