"""Building the real code of /repo together with the in-package harness (go test -overlay)."""
import glob
import json
import os
import subprocess
import tempfile
import time

VERIF = os.path.dirname(os.path.dirname(os.path.abspath(__file__)))
REPO = os.environ.get('VERIF_REPO', '/repo')
HARNESS = os.path.join(VERIF, 'harness')

# harness directory name -> package directory inside the repository
PKGS = {
    'state': 'internal/state',
    'storage': 'internal/storage',
    'handlers': 'internal/handlers',
    'spynode': 'internal/spynode',
    'client': 'pkg/client',
}


def goenv():
    e = dict(os.environ)
    e.update({'GOFLAGS': '-mod=mod', 'GOPROXY': 'off', 'GOSUMDB': 'off', 'GOTOOLCHAIN': 'local',
              'CGO_ENABLED': '0'})
    return e


def overlay(target):
    """Overlay: non-test accessor files of every harness package + all files of the target package."""
    rep = {}
    for name, rel in PKGS.items():
        for f in sorted(glob.glob(os.path.join(HARNESS, name, '*.go'))):
            base = os.path.basename(f)
            is_test = base.endswith('_test.go')
            if is_test and name != target:
                continue
            rep[os.path.join(REPO, rel, 'zz_verif_' + base)] = f
    return {'Replace': rep}


class BuildError(Exception):
    pass


def build(target, outdir, race=False, tags='verif'):
    """Compile the test binary of package `target` (a key of PKGS) from /repo's working tree."""
    ov = os.path.join(outdir, 'overlay_%s.json' % target)
    with open(ov, 'w') as f:
        json.dump(overlay(target), f)
    binp = os.path.join(outdir, 'harness_%s%s.bin' % (target, '_race' if race else ''))
    cmd = ['go', 'test', '-c', '-vet=off', '-tags', tags, '-overlay', ov, '-o', binp]
    env = goenv()
    if race:
        cmd.append('-race')
        env['CGO_ENABLED'] = '1'
    cmd.append('./' + PKGS[target] + '/')
    t0 = time.time()
    p = subprocess.run(cmd, cwd=REPO, env=env, stdout=subprocess.PIPE, stderr=subprocess.STDOUT, text=True)
    if p.returncode != 0 or not os.path.exists(binp):
        raise BuildError('go build of harness for %s failed:\n%s' % (target, p.stdout))
    return binp, time.time() - t0


def run_test(binp, test, env_extra=None, timeout=600, cwd=None):
    """Run one harness entry point. Returns (rc, output)."""
    env = goenv()
    env.update(env_extra or {})
    cmd = [binp, '-test.run', '^%s$' % test, '-test.timeout', '%ds' % (timeout + 30), '-test.v']
    try:
        p = subprocess.run(cmd, cwd=cwd or os.path.dirname(binp), env=env, stdout=subprocess.PIPE,
                           stderr=subprocess.STDOUT, text=True, errors='replace', timeout=timeout)
        return p.returncode, p.stdout
    except subprocess.TimeoutExpired as e:
        out = e.stdout.decode('utf-8', 'replace') if isinstance(e.stdout, bytes) else (e.stdout or '')
        return -9, out + '\n[harness timed out]'
