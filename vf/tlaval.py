"""Parser for TLA+ values as printed by TLC (states, simulation files, counterexamples)."""
import re

_ident = re.compile(r'[A-Za-z_][A-Za-z_0-9]*')
_int = re.compile(r'-?\d+')


class _P:
    def __init__(s, t):
        s.t = t
        s.i = 0

    def ws(s):
        while s.i < len(s.t) and s.t[s.i].isspace():
            s.i += 1

    def peek(s, lit):
        s.ws()
        return s.t.startswith(lit, s.i)

    def eat(s, lit):
        s.ws()
        if not s.t.startswith(lit, s.i):
            raise ValueError("expected %r at %r" % (lit, s.t[s.i:s.i + 40]))
        s.i += len(lit)

    def val(s):
        v = s.atom()
        # function literal  a :> b @@ c :> d
        if s.peek(':>'):
            s.eat(':>')
            r = {'#fn': [[v, s.atom()]]}
            while s.peek('@@'):
                s.eat('@@')
                k = s.atom()
                s.eat(':>')
                r['#fn'].append([k, s.atom()])
            return r
        return v

    def atom(s):
        s.ws()
        c = s.t[s.i]
        if s.peek('<<'):
            s.eat('<<')
            r = []
            while not s.peek('>>'):
                r.append(s.val())
                if s.peek(','):
                    s.eat(',')
            s.eat('>>')
            return r
        if c == '(':
            s.eat('(')
            v = s.val()
            s.eat(')')
            return v
        if c == '[':
            s.eat('[')
            r = {}
            while not s.peek(']'):
                s.ws()
                m = _ident.match(s.t, s.i)
                k = m.group(0)
                s.i += len(k)
                s.eat('|->')
                r[k] = s.val()
                if s.peek(','):
                    s.eat(',')
            s.eat(']')
            return r
        if c == '{':
            s.eat('{')
            r = []
            while not s.peek('}'):
                r.append(s.val())
                if s.peek(','):
                    s.eat(',')
            s.eat('}')
            return {'#set': r}
        if c == '"':
            j = s.i + 1
            out = []
            while s.t[j] != '"':
                if s.t[j] == '\\':
                    j += 1
                out.append(s.t[j])
                j += 1
            s.i = j + 1
            return ''.join(out)
        m = _int.match(s.t, s.i)
        if m:
            s.i += len(m.group(0))
            return int(m.group(0))
        if s.t.startswith('TRUE', s.i):
            s.i += 4
            return True
        if s.t.startswith('FALSE', s.i):
            s.i += 5
            return False
        m = _ident.match(s.t, s.i)
        if m:  # model value
            s.i += len(m.group(0))
            return m.group(0)
        raise ValueError("cannot parse value at %r" % s.t[s.i:s.i + 40])


def parse(text):
    return _P(text.strip()).val()


def plain(v):
    """Turn parsed values into plain JSON: sets -> sorted lists, functions -> dicts/lists."""
    import json
    if isinstance(v, dict):
        if '#set' in v:
            items = [plain(x) for x in v['#set']]
            return sorted(items, key=lambda x: json.dumps(x, sort_keys=True))
        if '#fn' in v:
            pairs = [(plain(k), plain(x)) for k, x in v['#fn']]
            if all(isinstance(k, int) for k, _ in pairs):
                ks = sorted(k for k, _ in pairs)
                if ks == list(range(1, len(ks) + 1)):
                    d = dict(pairs)
                    return [d[k] for k in ks]
            return {str(k): x for k, x in pairs}
        return {k: plain(x) for k, x in v.items()}
    if isinstance(v, list):
        return [plain(x) for x in v]
    return v


_state_var = re.compile(r'^/\\ (\w+) = ', re.M)


def parse_state(body):
    """body: text '/\\ a = ...\n/\\ b = ...' -> dict"""
    st = {}
    ms = list(_state_var.finditer(body))
    for k, m in enumerate(ms):
        end = ms[k + 1].start() if k + 1 < len(ms) else len(body)
        st[m.group(1)] = parse(body[m.end():end])
    return st
