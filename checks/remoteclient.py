"""Shared driver for the properties decided on spec/RemoteClient.tla (C16, C17, C18).

model    : TLC on MC_RemoteClient (as-is model: invariants + step properties; repaired model: + RejectProps).
generate : tlc -simulate of Sim_RemoteClient for both connection types, plus directed scenarios.
replay   : harness/client/remote_test.go runs the real RemoteClient.Run() with all its goroutines against a scripted
           loop-back service; after every step (synchronised on an observable effect and a marker message that has
           passed through the client's routing and handler goroutines) the observations are logged.
judge    : Props_RemoteClient (property formulas on every recorded state / step).
conform  : Trace_RemoteClient (every recorded step must be the specification's step) -> drift report.
"""
import json
import os

from vf import core, pipeline, tlaval, tlc

CTYPES = {'full': (1, {}), 'control': (2, {'Full = TRUE': 'Full = FALSE'})}

DIRECTED = [
    # queued requests, then the accept fails / the application stops: nothing may be written (F33)
    ('queued-then-badsig', 1, [('Call', 0, 'GetTx', 1), ('Call', 1, 'SendTx', 2), ('Call', 2, 'GetHeaders', 3), ('Accept', 0, 'badsig', 0)]),
    ('queued-then-wrongkey', 1, [('Call', 0, 'GetHeader', 1), ('Call', 1, 'ReprocessTx', 2), ('Accept', 0, 'wrongkey', 0)]),
    ('queued-then-stop', 1, [('Call', 0, 'GetTx', 1), ('Call', 1, 'MarkInvalid', 2), ('Stop', 0, '', 0)]),
    ('queued-drop-otherhash', 1, [('Call', 0, 'GetTx', 1), ('Call', 1, 'SendTx', 2), ('Drop', 0, '', 0), ('Accept', 0, 'otherhash', 0)]),
    ('queued-drop-stop', 2, [('Call', 0, 'GetTx', 1), ('Call', 1, 'FeeQuotes', 2), ('Drop', 0, '', 0), ('Stop', 0, '', 0)]),
    # the genuine accept of the first connection replayed on the second one (its session key belongs to the first connection's hash)
    ('replayed-accept', 1, [('Accept', 0, 'valid', 0), ('Ready', 1, '', 0), ('Drop', 0, '', 0), ('Call', 0, 'GetTx', 1), ('Accept', 0, 'replay', 0)]),
    ('replayed-accept-control', 2, [('Call', 0, 'GetTx', 1), ('Accept', 0, 'valid', 0), ('Drop', 0, '', 0), ('Call', 1, 'SendTx', 2), ('Accept', 0, 'replay', 0)]),
    # subscriptions are written at once, ahead of requests queued for the handshake, on every connection state
    ('subscriptions', 1, [('Subscribe', 0, 'subscribe_push_data', 0), ('Call', 0, 'GetTx', 1), ('Subscribe', 0, 'subscribe_tx', 0), ('Accept', 0, 'valid', 0),
                          ('Subscribe', 0, 'subscribe_outputs', 0), ('Subscribe', 0, 'subscribe_headers', 0), ('Ready', 1, '', 0), ('Subscribe', 0, 'subscribe_contracts', 0),
                          ('Call', 1, 'GetHeader', 2), ('Subscribe', 0, 'unsubscribe_push_data', 0), ('Subscribe', 0, 'unsubscribe_tx', 0), ('Drop', 0, '', 0),
                          ('Subscribe', 0, 'unsubscribe_outputs', 0), ('Subscribe', 0, 'unsubscribe_headers', 0), ('Subscribe', 0, 'unsubscribe_contracts', 0)]),
    ('accepted-queued-counts', 1, [('Accept', 0, 'valid', 0), ('Drop', 0, '', 0), ('Call', 0, 'GetTx', 1), ('Accept', 0, 'counts', 0)]),
    # every kind answered in reverse order of issue, then answered again (late duplicates)
    ('all-kinds-reverse', 1, [('Accept', 0, 'valid', 0), ('Ready', 1, '', 0), ('Call', 0, 'GetTx', 1), ('Call', 1, 'GetHeader', 1), ('Call', 2, 'GetHeaders', 1),
                              ('Respond', 2, 'ok', 0), ('Respond', 1, 'ok', 0), ('Respond', 0, 'ok', 0), ('Respond', 1, 'ok', 0),
                              ('Call', 0, 'SendTx', 2), ('Call', 1, 'ReprocessTx', 2), ('Call', 2, 'MarkInvalid', 2),
                              ('Respond', 2, 'reject', 0), ('Respond', 0, 'ok', 0), ('Respond', 1, 'reject', 0),
                              ('Call', 0, 'MarkNotInvalid', 3), ('Call', 1, 'FeeQuotes', 3), ('Respond', 1, 'ok', 0), ('Respond', 0, 'wrongkey', 0), ('Respond', 0, 'ok', 0)]),
    # same kind, different keys, answers crossed
    ('same-kind-crossed', 1, [('Accept', 0, 'valid', 0), ('Ready', 0, '', 0), ('Call', 0, 'GetTx', 1), ('Call', 1, 'GetTx', 2), ('Call', 2, 'GetTx', 3),
                              ('Respond', 1, 'ok', 0), ('Respond', 2, 'reject', 0), ('Respond', 0, 'ok', 0)]),
    # resume point: deliver 1..2, drop, redeclare ready with the reported id, repeated and skipped ids
    ('resume', 1, [('Accept', 0, 'valid', 0), ('Ready', 1, '', 0), ('Notify', 1, 'tx', 0), ('Notify', 2, 'upd', 0), ('Notify', 2, 'tx', 0), ('Notify', 4, 'tx', 0),
                   ('Drop', 0, '', 0), ('Notify', 3, 'tx', 0), ('Accept', 0, 'valid', 0), ('Ready', 3, '', 0), ('Notify', 2, 'tx', 0), ('Notify', 3, 'upd', 0),
                   ('Notify', 4, 'tx', 0), ('Notify', 3, 'insync', 0), ('Notify', 5, 'hdrs', 0)]),
    # the application declares ready before the accept: nothing reaches the handlers until a valid accept, a forged one still ends Run
    ('early-ready', 1, [('Ready', 1, '', 0), ('Notify', 1, 'tx', 0), ('Notify', 1, 'upd', 0), ('Burst', 7, '', 0), ('Call', 0, 'GetTx', 1), ('Accept', 0, 'valid', 0),
                        ('Notify', 1, 'tx', 0), ('Notify', 2, 'upd', 0), ('Respond', 0, 'ok', 0)]),
    ('early-ready-forged', 1, [('Call', 0, 'GetTx', 1), ('Ready', 2, '', 0), ('Notify', 2, 'tx', 0), ('Accept', 0, 'badsig', 0)]),
    ('early-ready-after-drop', 1, [('Accept', 0, 'valid', 0), ('Ready', 1, '', 0), ('Notify', 1, 'tx', 0), ('Drop', 0, '', 0), ('Ready', 2, '', 0), ('Notify', 2, 'tx', 0),
                                   ('Notify', 2, 'upd', 0), ('Accept', 0, 'valid', 0), ('Notify', 2, 'tx', 0)]),
    # calls of different kinds about the same block / the same transaction at the same time: every answer goes to its own kind
    ('same-block-across-kinds', 1, [('Accept', 0, 'valid', 0), ('Ready', 1, '', 0), ('Call', 0, 'MarkInvalid', 1), ('Call', 1, 'MarkNotInvalid', 1), ('Call', 2, 'GetHeader', 1),
                                    ('Respond', 1, 'reject', 0), ('Respond', 2, 'ok', 0), ('Respond', 0, 'ok', 0),
                                    ('Call', 0, 'MarkNotInvalid', 2), ('Call', 1, 'MarkInvalid', 2), ('Call', 2, 'GetHeader', 2),
                                    ('Respond', 1, 'reject', 0), ('Respond', 2, 'reject', 0), ('Respond', 0, 'reject', 0)]),
    ('same-tx-across-kinds', 1, [('Accept', 0, 'valid', 0), ('Ready', 1, '', 0), ('Call', 0, 'GetTx', 2), ('Call', 1, 'SendTx', 2), ('Call', 2, 'ReprocessTx', 2),
                                 ('Respond', 2, 'reject', 0), ('Respond', 1, 'ok', 0), ('Respond', 0, 'ok', 0),
                                 ('Call', 0, 'ReprocessTx', 3), ('Call', 1, 'GetTx', 3), ('Call', 2, 'SendTx', 3),
                                 ('Respond', 2, 'reject', 0), ('Respond', 1, 'reject', 0), ('Respond', 0, 'ok', 0)]),
    # gaps and repeats in the id sequence, for both kinds: only the expected id is delivered, whatever kind carries it
    ('gaps', 1, [('Accept', 0, 'valid', 0), ('Ready', 1, '', 0), ('Notify', 1, 'tx', 0), ('Notify', 3, 'upd', 0), ('Notify', 3, 'tx', 0), ('Notify', 2, 'upd', 0),
                 ('Notify', 5, 'upd', 0), ('Notify', 4, 'tx', 0), ('Notify', 1, 'upd', 0), ('Notify', 3, 'tx', 0), ('Notify', 4, 'upd', 0), ('Notify', 6, 'tx', 0),
                 ('Notify', 5, 'tx', 0), ('Drop', 0, '', 0), ('Accept', 0, 'valid', 0), ('Ready', 6, '', 0), ('Notify', 8, 'upd', 0), ('Notify', 6, 'upd', 0)]),
    ('gaps-control', 2, [('Accept', 0, 'valid', 0), ('Notify', 2, 'upd', 0), ('Notify', 1, 'upd', 0), ('Notify', 3, 'upd', 0), ('Notify', 2, 'tx', 0), ('Notify', 4, 'upd', 0)]),
    # bursts: headers + tx + update + in-sync in one write, before the accept, after it, after a re-declared Ready and after a reconnect
    ('bursts', 1, [('Burst', 7, '', 0), ('Accept', 0, 'valid', 0), ('Burst', 7, '', 0), ('Ready', 1, '', 0), ('Burst', 7, '', 0), ('Burst', 7, '', 0), ('Notify', 5, 'tx', 0),
                   ('Drop', 0, '', 0), ('Accept', 0, 'valid', 0), ('Ready', 5, '', 0), ('Burst', 7, '', 0)]),
    # the service streams the first tx right behind the ready message (before Ready has returned in the client)
    ('ready-race', 1, [('Accept', 0, 'valid', 0), ('ReadyRace', 3, '', 0), ('Notify', 4, 'tx', 0), ('Notify', 5, 'upd', 0), ('Drop', 0, '', 0), ('Accept', 0, 'valid', 0),
                       ('ReadyRace', 2, '', 0), ('Notify', 3, 'tx', 0)]),
    # a time-out does not disturb the other pending call; the late answer is dropped
    ('timeout-isolated', 1, [('Accept', 0, 'valid', 0), ('Ready', 1, '', 0), ('Call', 0, 'GetTx', 1), ('Call', 1, 'GetHeader', 2), ('Respond', 1, 'ok', 0),
                             ('Timeout', 0, '', 0), ('Respond', 0, 'ok', 0), ('Call', 0, 'GetTx', 1), ('Respond', 0, 'ok', 0)]),
    ('timeout-then-retry', 1, [('Accept', 0, 'valid', 0), ('Ready', 1, '', 0), ('Call', 0, 'GetTx', 1), ('Call', 1, 'GetHeaders', 2), ('Call', 2, 'SendTx', 3),
                               ('Timeout', 0, '', 0), ('Call', 0, 'GetTx', 1), ('Call', 1, 'GetHeaders', 2), ('Call', 2, 'SendTx', 3),
                               ('Respond', 0, 'ok', 0), ('Respond', 1, 'ok', 0), ('Respond', 2, 'ok', 0)]),
    # a call abandoned before the handshake: its request still goes out, the answer is absorbed, a later call is served
    ('abandoned', 1, [('Call', 0, 'GetTx', 1), ('Timeout', 0, '', 0), ('Accept', 0, 'valid', 0), ('Ready', 1, '', 0), ('Call', 1, 'GetTx', 1),
                      ('RespondStale', 0, 'GetTx', 1), ('Respond', 1, 'ok', 0)]),
    # a request whose write fails is carried over to the next connection: written there after the handshake, ahead of the queue, once
    ('carried-over-control', 2, [('Accept', 0, 'valid', 0), ('Call', 0, 'GetTx', 1), ('Respond', 0, 'ok', 0), ('CallBig', 1, 'SendTx', 2), ('Drop', 0, '', 0),
                                 ('Call', 2, 'GetHeader', 3), ('Subscribe', 0, 'subscribe_tx', 0), ('Accept', 0, 'valid', 0), ('Respond', 1, 'ok', 0), ('Respond', 2, 'ok', 0)]),
    ('carried-over-full', 1, [('Accept', 0, 'valid', 0), ('Ready', 1, '', 0), ('CallBig', 0, 'SendTx', 1), ('Drop', 0, '', 0), ('Notify', 5, 'hdrs', 0), ('Accept', 0, 'valid', 0),
                              ('Call', 1, 'GetTx', 2), ('Notify', 6, 'hdrs', 0), ('Ready', 1, '', 0), ('Respond', 1, 'ok', 0), ('Respond', 0, 'ok', 0)]),
    ('carried-over-twice', 1, [('Accept', 0, 'valid', 0), ('Ready', 1, '', 0), ('CallBig', 2, 'SendTx', 3), ('Drop', 0, '', 0), ('Drop', 0, '', 0), ('Accept', 0, 'valid', 0),
                               ('Drop', 0, '', 0), ('Accept', 0, 'valid', 0), ('ReadyRace', 2, '', 0), ('Respond', 2, 'reject', 0)]),
    ('carried-over-then-forged', 2, [('Accept', 0, 'valid', 0), ('CallBig', 0, 'SendTx', 1), ('Drop', 0, '', 0), ('Accept', 0, 'badsig', 0)]),
]


KINDS = ['GetTx', 'GetHeader', 'GetHeaders', 'ReprocessTx', 'MarkInvalid', 'MarkNotInvalid', 'SendTx']
for _k in KINDS:
    # two concurrent calls of one kind with different keys: answers crossed, rejects crossed, a late duplicate, an answer for another key
    DIRECTED.append(('crossed-' + _k, 1, [('Accept', 0, 'valid', 0), ('Ready', 1, '', 0), ('Call', 0, _k, 1), ('Call', 1, _k, 2), ('Call', 2, _k, 3),
                                          ('Respond', 1, 'ok', 0), ('Respond', 0, 'wrongkey', 0), ('Respond', 2, 'reject', 0), ('Respond', 1, 'ok', 0),
                                          ('Respond', 0, 'ok', 0)]))


def directed():
    out = []
    for name, ct, steps in DIRECTED:
        out.append({'id': 'directed-' + name, 'ctype': ct, 'directed': True,
                    'steps': [{'a': a, 'k': k, 'kind': kind, 'key': key} for a, k, kind, key in steps]})
    return out


def model(chk, thorough):
    """Exhaustive runs: the model as the code is (invariants, step properties), and with the reject routing repaired."""
    res = []
    if os.environ.get('VERIF_SKIP_MODEL'):
        return res          # self-test of the code-side machinery (tools/mutate.py): the model does not depend on the code
    sub = {'MaxSteps = 5': 'MaxSteps = 6'} if thorough else {}
    for name, extra in (('as-is full', {}), ('as-is control', {'Full = TRUE': 'Full = FALSE'}),
                        ('repaired full', {'Fix <- NoFix': 'Fix <- AllFix', 'PROPERTIES StepProps': 'PROPERTIES StepProps RejectProps'})):
        s = dict(sub)
        s.update(extra)
        r = pipeline.model_check(chk, 'RemoteClient', 'MC_RemoteClient_quick.cfg', workers=14, timeout=2400, heap='24g', subst=s)
        if not r.ok:
            if r.trace:
                chk.log('model (%s) counterexample: %s' % (name, [tlaval.plain(x['state'].get('act')) for x in r.trace]))
            chk.infra('model checking (%s) did not pass: %s %s\n%s' % (name, r.kind, r.violated, r.stdout[-1500:]))
        res.append(r)
    return res


def gen(chk, thorough):
    scripts = []
    n = 4 if thorough else 1
    for ctname, (ct, sub) in CTYPES.items():
        for k in range(n):
            ss = pipeline.sim_scripts(chk, 'RemoteClient', 'Sim_RemoteClient.cfg', num=120 if ctname == 'full' else 60, depth=15,
                                      seed=chk.seed * 100 + k, prefix='sim-' + ctname, subst=sub)
            for s in ss:
                scripts.append({'id': s['id'], 'ctype': ct, 'steps': s['steps']})
            # the notification stream: successful handshakes, one call slot, ids around the expected one
            nsub = dict(sub)
            nsub.update({'SPECIFICATION SimSpec': 'SPECIFICATION NoteSpec', 'NCalls = 3': 'NCalls = 1', 'Keys <- Keys3': 'Keys <- Keys1',
                         'MaxSteps = 14': 'MaxSteps = 20', 'MaxNote = 10': 'MaxNote = 14'})
            ss = pipeline.sim_scripts(chk, 'RemoteClient', 'Sim_RemoteClient.cfg', num=50, depth=21, seed=chk.seed * 100 + 50 + k,
                                      prefix='note-' + ctname, subst=nsub)
            for s in ss:
                scripts.append({'id': s['id'], 'ctype': ct, 'steps': s['steps']})
    return scripts + directed()


def run(chk, scripts, formulas):
    by_ct = {1: [], 2: []}
    for s in scripts:
        by_ct[s['ctype']].append(s)
    ids = {s['id']: s for s in scripts}
    bad_all, rej_all, all_lines = [], [], {}
    for ct, ss in by_ct.items():
        if not ss:
            continue
        sub = {} if ct == 1 else {'Full = TRUE': 'Full = FALSE'}
        lines, tracefile = pipeline.replay_parallel(chk, 'client', 'TestVerifReplayRemoteClient', {'ncalls': 3},
                                                    [{'id': s['id'], 'ctype': s['ctype'], 'steps': s['steps']} for s in ss], nproc=4)
        chk.log('replayed %d scenarios (connection type %d) on the real client: %d trace lines' % (len(ss), ct, len(lines)))
        res = pipeline.tlc_lines_parallel(chk, 'Props_RemoteClient', 'Props_RemoteClient.cfg', lines, 'props_result.json', 6, 1800, sub)
        for sel, rs, r in res:
            bad_all += [(ct, f, sel[j - 1]) for f, j in rs['bad']]
        res = pipeline.tlc_lines_parallel(chk, 'Trace_RemoteClient', 'Trace_RemoteClient.cfg', lines, 'trace_result.json', 6, 1800, sub)
        for sel, rs, r in res:
            rej_all += [(ct, sel[j - 1]) for j in rs['rej']]
        all_lines[ct] = lines
    seen = set()
    for ct, f, l in sorted(bad_all, key=lambda x: (x[0], x[2])):
        if f not in formulas:
            continue
        lines = all_lines[ct]
        ln = lines[l - 1]
        if (ln['tr'], f) in seen:
            continue
        seen.add((ln['tr'], f))
        idx = [k for k, x in enumerate(lines) if x['tr'] == ln['tr']]
        i = idx.index(l - 1)
        st = ln['st']
        prev = lines[l - 2]['st'] if i > 0 else st
        sc = ids.get(ln['tr'], {})
        chk.violation(f, 'scenario %s (connection type %d) step %d %s%s: accepted=%s handshake=%s nextId=%s calls=%s service received=%s handlers received=%s run=%s' % (
            ln['tr'], ct, i, json.dumps(ln['act']), (' [' + ln['skip'] + ']') if ln['skip'] else '', st['acc'], st['hs'], st['nextId'],
            [(c['st'], c['kind'], c['key'], c['res'], c['rkey']) for c in st['calls']], [(m['t'], m['key'], m['hs']) for m in st['srv']],
            [(d['kind'], d['id']) for d in st['deliv']], st['run']),
            {'script': {'id': ln['tr'], 'ctype': ct, 'steps': sc.get('steps', [])[:i]}},
            {'line': ln, 'prev': prev, 'trace': [lines[k] for k in idx], 'i': i})
    drift = sorted({all_lines[ct][l - 1]['tr'] for ct, l in rej_all})
    skips = sum(1 for ct in all_lines for ln in all_lines[ct] if ln.get('skip'))
    if drift or skips:
        chk.notes.append('conformance drift: %d rejected lines (scenarios %s), %d scripted steps not enabled on the real code' % (len(rej_all), drift[:5], skips))
        chk.log('DRIFT: Trace_RemoteClient rejected %d recorded steps (scenarios %s); %d scripted steps were not enabled' % (len(rej_all), drift[:5], skips))
        for ct, l in rej_all[:3]:
            ls = all_lines[ct]
            chk.log('  rejected: scenario %s act %s skip=%r\n      before %s\n      after  %s' % (
                ls[l - 1]['tr'], json.dumps(ls[l - 1]['act']), ls[l - 1].get('skip'), json.dumps(ls[l - 2]['st']), json.dumps(ls[l - 1]['st'])))
    ntr = sum(len({ln['tr'] for ln in all_lines[ct]}) for ct in all_lines)
    nlines = sum(len(all_lines[ct]) for ct in all_lines)
    return {'traces': ntr, 'lines': nlines, 'drift': drift, 'rejected': len(rej_all), 'skips': skips,
            'false_instances': len([1 for _, f, _ in bad_all if f in formulas]), 'all_lines': all_lines}


def has(s, *acts):
    return all(any(x['a'] == a for x in s['steps']) for a in acts)


def standard(chk, formulas, nontrivial, rule, assumptions, extra_cov=None, extra=None):
    thorough = chk.tier == 'thorough'
    ms = model(chk, thorough)
    if chk.replay:
        scripts = [json.load(open(chk.replay))['replay']['script']]
    else:
        scripts = gen(chk, thorough)
    out = run(chk, scripts, formulas)
    cov = {
        'states': sum(r.distinct for r in ms), 'transitions': sum(r.generated for r in ms),
        'traces_validated_against_impl': out['traces'] - len(out['drift']),
        'evaluations': len(scripts),
        'distinct_nontrivial': len({core.script_hash(s['steps']) for s in scripts if nontrivial(s)}),
        'rule': rule,
        'samples': [{'id': s['id'], 'steps': [[x['a'], x['k'], x['kind'], x['key']] for x in s['steps']]} for s in scripts[:2] + scripts[-1:]],
        'trace_lines': out['lines'], 'conformance_rejections': out['rejected'], 'false_formula_instances': out['false_instances'],
        'checker_cmd': 'tlc MC_RemoteClient / Props_RemoteClient / Trace_RemoteClient', 'exhaustive': False,
    }
    cov.update(extra_cov or {})
    if extra and not chk.replay:
        cov.update(extra(chk, thorough))
    chk.finish(cov, assumptions=assumptions)
