"""C12 -- untrusted peers cannot alter the chain, vouch for transactions or stall syncing (chain part: ChainSync;
transaction part: TxPipeline; the untrusted connection itself: UntrustedPeer)."""
import json

from vf import core, pipeline
from . import chainsync as cs

FORMULAS = {'NoPanic', 'Linked', 'NoDupChain', 'GrowsAtTip', 'Inverse', 'Convergence'}


def main(argv):
    chk = core.Check('C12', 'model_checking', argv)
    thorough = chk.tier == 'thorough'
    sub = {'Fix <- CodeFix': 'Fix <- AllFix', 'MaxUnt = 0': 'MaxUnt = 2'}
    live = {'MaxRestart = 0': 'MaxRestart <- Unb', 'Calm = FALSE': 'Calm = TRUE', 'MaxTip = 1': 'MaxTip = 2',
            'MaxUnt = 0': 'MaxUnt = 2'}
    models = [('safety-untrusted-repaired', cs.model(chk, 'invariants with untrusted block messages, known findings repaired', sub)),
              ('liveness-untrusted-as-is', cs.model(chk, 'Convergence with untrusted block messages, calm environment, code as it is', live, live=True))]
    scripts = []
    for name, r in models:
        if r.violated:
            scripts.append(cs.cex_script(r, name))
    if chk.replay:
        rp = json.load(open(chk.replay))['replay']['script']
        scripts = [] if (rp.get('module') == 'UntrustedPeer' or 'uni' in rp) else [rp]
    else:
        for a in pipeline.attack_scripts('C12', 'ChainSync'):
            scripts.append(dict(a, **{'complete': True, 'adv': False, 'env': 'attack', 'tree': a.get('tree', 'Par7'), 'ptip': a.get('ptip', 4)}))
        k = 4 if thorough else 1
        seed = chk.seed * 100
        scripts += cs.gen(chk, 'untrusted', 'Par7', 350 * k, 80, seed + 21)
        scripts += cs.gen(chk, 'untrusted', 'Par14', 60 * k, 130, seed + 22)
    res = cs.run(chk, scripts, FORMULAS, models) if scripts else {'traces': 0, 'drift': [], 'lines': 0, 'rejected': 0, 'skips': 0, 'false_instances': 0, 'bad_traces': set()}
    for name, r in models:
        if r.violated and ('model-cex-%s' % name) not in res['bad_traces']:
            chk.infra('new unreproduced model counterexample: %s (%s)' % (name, r.violated))
    # vouching: transactions of untrusted connections (plain and extended messages, inventories) never make a tx trusted or safe
    TPF = {'TrustWarranted', 'ItemTrust', 'SafeOnlyWarranted', 'UnverifiedIgnored', 'NoError', 'NoPanic'}
    if chk.replay and 'uni' in rp:
        from . import txpipeline as tp
        tp.run(chk, [{'id': rp['id'], 'uni': rp['uni'], 'race': False, 'steps': rp['steps']}], TPF)
    if not chk.replay:
        from . import txpipeline as tp
        allsrc = {'Sources <- Src5': 'Sources <- SrcAll'}     # incl. an untrusted connection that has not been verified ("NU" / "NX")
        tsims = (tp.gen(chk, 'U4', 160 if thorough else 50, 45, chk.seed * 100 + 23, extra=allsrc)
                 + tp.gen(chk, 'U3', 160 if thorough else 50, 40, chk.seed * 100 + 24, extra=allsrc))
        tres = tp.run(chk, tsims, TPF)
        chk.notes.append('vouching batch: %d TxPipeline histories, %d lines' % (len(tsims), tres['lines']))
    # the untrusted connection itself: handshake, verification against the stored chain, gating, scoring, broadcast (UntrustedPeer)
    up = None
    if chk.replay:
        if rp.get('module') == 'UntrustedPeer':
            from . import untrustedpeer as upm
            up = upm.run(chk, [{'id': rp['id'], 'steps': rp['steps']}])
    else:
        from . import untrustedpeer as upm
        models += [('untrusted-connection', r) for r in upm.model(chk, thorough)]
        up = upm.run(chk, upm.gen(chk, thorough))
        chk.notes.append('untrusted connection batch: %d scenarios on the real read loop, %d lines, %d verified, %d refused' % (
            up['traces'], up['lines'], up['verified'], up['failed']))
    nu = sum(1 for s in scripts for x in s['steps'] if x['a'] == 'UntrustedBlock')
    chk.finish({
        'states': sum(r.distinct for _, r in models), 'transitions': sum(r.generated for _, r in models),
        'traces_validated_against_impl': res['traces'] - len(res['drift']),
        'evaluations': len(scripts),
        'distinct_nontrivial': len({core.script_hash(s['steps']) for s in scripts if any(x['a'] == 'UntrustedBlock' for x in s['steps'])}),
        'rule': 'scripts = TLC simulation behaviours of ChainSync in which an untrusted connection delivers block messages (matching or '
                'non-matching body) for outstanding requests through the real untrusted message handlers, interleaved with a well-behaved '
                'trusted peer; every run is driven to quiescence and must converge; non-trivial = contains an untrusted block message',
        'samples': [{'id': s['id'], 'ptip': s['ptip'], 'actions': [x['a'] for x in s['steps']][:40]} for s in scripts[:2] + scripts[-1:]],
        'trace_lines': res['lines'], 'untrusted_block_messages': nu, 'conformance_rejections': res['rejected'],
        'steps_not_enabled': res['skips'], 'false_formula_instances': res['false_instances'],
        'models': [{'name': n, 'states': r.distinct, 'result': 'ok' if r.ok else r.violated} for n, r in models],
        'checker_cmd': 'tlc MC_ChainSync / Props_ChainSync / Trace_ChainSync', 'exhaustive': False,
    }, assumptions=[
        'this check covers the chain part of C12 (block messages of untrusted connections); headers/inv/tx of untrusted connections: see DESIGN.md',
    ])
