"""Growth beyond the listed properties: specification modules that are bound to the code like the others but decide no listed
property.  ./check EXTRAS runs them; what they find is printed as OBSERVATION lines (never VIOLATION; exit 0 unless the
machinery itself fails) and described in DESIGN.md section 9.

BlockRefeed : Node.RefeedBlocksFromHeight / the refeeder branch of processBlocks / handlers.BlockRefeeder.
"""
import json

from vf import core, pipeline, tlaval


def block_refeed(chk):
    asis = pipeline.model_check(chk, 'BlockRefeed', 'MC_BlockRefeed_quick.cfg', workers=8, timeout=600)
    fixed = pipeline.model_check(chk, 'BlockRefeed', 'MC_BlockRefeed_quick.cfg', workers=8, timeout=600, subst={'Fix <- NoFix': 'Fix <- AllFix'})
    if not fixed.ok:
        chk.infra('the repaired BlockRefeed model does not pass: %s %s' % (fixed.kind, fixed.violated))
    scripts = []
    if asis.violated and asis.trace:
        scripts.append({'id': 'model-cex-' + asis.violated, 'steps': [tlaval.plain(s['state']['act']) for s in asis.trace[1:]]})
    ss = pipeline.sim_scripts(chk, 'BlockRefeed', 'Sim_BlockRefeed.cfg', num=60, depth=22, seed=chk.seed * 100 + 41, prefix='br')
    scripts += [{'id': s['id'], 'steps': s['steps']} for s in ss]
    lines, _ = pipeline.replay_parallel(chk, 'spynode', 'TestVerifReplayBlockRefeed', {'h': 4 if False else 3}, scripts[:1], nproc=1) if scripts and scripts[0]['id'].startswith('model-cex') else ([], None)
    sims = [s for s in scripts if not s['id'].startswith('model-cex')]
    lines2, _ = pipeline.replay_parallel(chk, 'spynode', 'TestVerifReplayBlockRefeed', {'h': 4}, sims, nproc=14)
    chk.log('replayed %d refeed scenarios on the real block processor loop: %d trace lines' % (len(scripts), len(lines) + len(lines2)))
    out = {}
    for name, ls, sub in (('cex', lines, {'H = 4': 'H = 3'}), ('sim', lines2, {})):
        if not ls:
            continue
        bad, rej = [], []
        for sel, rs, r in pipeline.tlc_lines_parallel(chk, 'Props_BlockRefeed', 'Props_BlockRefeed.cfg', ls, 'props_result.json', 4, 900, sub):
            bad += [(f, sel[j - 1]) for f, j in rs['bad']]
        for sel, rs, r in pipeline.tlc_lines_parallel(chk, 'Trace_BlockRefeed', 'Trace_BlockRefeed.cfg', ls, 'trace_result.json', 4, 900, sub):
            rej += [sel[j - 1] for j in rs['rej']]
        out[name] = (ls, bad, rej)
    nbad = 0
    for name, (ls, bad, rej) in out.items():
        seen = set()
        for f, l in sorted(bad, key=lambda x: x[1]):
            ln = ls[l - 1]
            if (ln['tr'], f) in seen:
                continue
            seen.add((ln['tr'], f))
            nbad += 1
            if nbad <= 3:
                print('OBSERVATION: module=BlockRefeed formula=%s scenario %s after %s: provided (height, block)=%s' % (
                    f, ln['tr'], json.dumps(ln['act']), ln['st']['provided']), flush=True)
        if rej:
            chk.log('DRIFT: Trace_BlockRefeed rejected %d of %d recorded steps (%s)' % (len(rej), len(ls), name))
            for l in rej[:3]:
                chk.log('  rejected: scenario %s act %s skip=%r\n      before %s\n      after  %s' % (
                    ls[l - 1]['tr'], json.dumps(ls[l - 1]['act']), ls[l - 1].get('skip'), json.dumps(ls[l - 2]['st']), json.dumps(ls[l - 1]['st'])))
    chk.log('BlockRefeed: as-is model %s (%d states), repaired model ok (%d states); %d scenarios with a false formula on the real code' % (
        asis.violated or 'ok', asis.distinct, fixed.distinct, nbad))
    return {'model_as_is': asis.violated or 'ok', 'model_repaired': 'ok', 'scenarios': len(scripts), 'scenarios_false': nbad,
            'lines': len(lines) + len(lines2)}


def main(argv):
    chk = core.Check('EXTRAS', 'model_checking', argv)
    try:
        res = {'BlockRefeed': block_refeed(chk)}
        chk.log(json.dumps(res))
    finally:
        chk._cleanup()
