"""C18 -- the remote client authenticates the server and gates traffic on the handshake."""
from vf import core
from . import remoteclient as rc

FORMULAS = {'Gated', 'RegisterSigned', 'RegisterFresh', 'AcceptedOnlyIfValid', 'FlushedWithHandshake', 'SubscriptionsDirect', 'AnsweredOnlyIfWritten', 'CarriedNotWritten', 'CarriedGated', 'NoDataBeforeAccept', 'NoPanic'}


def main(argv):
    chk = core.Check('C18', 'model_checking', argv)
    rc.standard(chk, FORMULAS,
                lambda s: rc.has(s, 'Accept', 'Call') and s['steps'][0]['a'] != 'Accept',
                'scenarios = TLC simulation behaviours of RemoteClient (valid accept and 4 forged variants: wrong key, key for another hash, '
                'signature by another key, counts altered after signing; calls issued before / between / after accept and ready; drops; both '
                'connection types) + directed scenarios (queued requests followed by a failed accept or a stop); non-trivial = a call issued '
                'before the accept',
                ['the forged accepts are the four named variants, not arbitrary byte strings (C20 covers decoding)',
                 'the connection shutdown is slowed by 5 ms at the verif hook conn.teardown so that goroutines woken by it run before the socket closes'])
