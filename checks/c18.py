"""C18 -- the remote client authenticates the server and gates traffic on the handshake."""
from vf import core
from . import remoteclient as rc

FORMULAS = {'DataAfterAccept', 'AcceptOnce', 'Gated', 'RegisterSigned', 'RegisterFresh', 'AcceptedOnlyIfValid', 'FlushedWithHandshake', 'SubscriptionsDirect', 'AnsweredOnlyIfWritten', 'CarriedNotWritten', 'CarriedGated', 'NoDataBeforeAccept', 'NoPanic'}


RB_DIRECTED = [
    # the accept of connection 1 waits behind a full handler queue, is examined in the retry window; connection 2 must start unaccepted
    ('old-accept-in-retry-window', [('Hold', 0, ''), ('Notify', 0, 'tip'), ('Flood', 0, ''), ('Accept', 0, 'valid'), ('Teardown', 0, ''), ('Release', 0, ''),
                                    ('Connect', 0, ''), ('Notify', 1, 'tx'), ('Notify', 1, 'upd'), ('Accept', 0, 'valid'), ('Notify', 1, 'tx')]),
    # ... or is examined only after the next connection has made its own session hash: Run fails, nothing is delivered
    ('old-accept-after-connect', [('Hold', 0, ''), ('Notify', 0, 'tip'), ('Flood', 0, ''), ('Accept', 0, 'valid'), ('Teardown', 0, ''), ('Connect', 0, ''),
                                  ('Release', 0, '')]),
    # data of connection 1 and unaccepted data of connection 2 wait in the receive queue together
    ('data-behind-backlog', [('Accept', 0, 'valid'), ('Hold', 0, ''), ('Notify', 1, 'tx'), ('Flood', 0, ''), ('Notify', 2, 'tx'), ('Teardown', 0, ''),
                             ('Connect', 0, ''), ('Notify', 2, 'upd'), ('Release', 0, ''), ('Accept', 0, 'valid'), ('Notify', 2, 'tx')]),
    ('backlog-drains-before-teardown', [('Accept', 0, 'valid'), ('Hold', 0, ''), ('Notify', 0, 'tip'), ('Flood', 0, ''), ('Notify', 1, 'tx'), ('Notify', 2, 'upd'),
                                        ('Release', 0, ''), ('Teardown', 0, ''), ('Connect', 0, ''), ('Notify', 3, 'tx'), ('Accept', 0, 'valid'), ('Notify', 3, 'tx')]),
    ('two-teardowns-behind-one-backlog', [('Hold', 0, ''), ('Notify', 0, 'tip'), ('Flood', 0, ''), ('Teardown', 0, ''), ('Connect', 0, ''), ('Accept', 0, 'valid'),
                                          ('Notify', 1, 'tx'), ('Teardown', 0, ''), ('Release', 0, ''), ('Connect', 0, ''), ('Notify', 2, 'tx'), ('Accept', 0, 'valid'),
                                          ('Notify', 2, 'tx')]),
]


def receive_backlog(chk, thorough):
    """C18 behind a full handler queue (spec/ReceiveBacklog.tla): the application is stuck in a handler call, the service floods the
    client until its message loop is blocked; accepts and data then wait unexamined in the receive queue across a teardown and the next
    connection.  Data must reach the handlers only if the service had accepted, before sending it, the connection it sent it on."""
    import json
    import os
    from vf import pipeline
    m = None
    if not os.environ.get('VERIF_SKIP_MODEL'):
        m = pipeline.model_check(chk, 'ReceiveBacklog', 'MC_ReceiveBacklog_quick.cfg', workers=12, timeout=1500, heap='16g',
                                 subst={'MaxSteps = 8': 'MaxSteps = 10'} if thorough else None)
        if not m.ok:
            chk.infra('model checking ReceiveBacklog did not pass: %s %s' % (m.kind, m.violated))
    scripts = []
    for k in range(3 if thorough else 1):
        ss = pipeline.sim_scripts(chk, 'ReceiveBacklog', 'Sim_ReceiveBacklog.cfg', num=48, depth=17, seed=chk.seed * 100 + 83 + k, prefix='rb')
        scripts += [{'id': s['id'], 'steps': s['steps']} for s in ss]
    scripts += [{'id': 'directed-' + n, 'steps': [{'a': a, 'k': k2, 'kind': kind} for a, k2, kind in st]} for n, st in RB_DIRECTED]
    lines, _ = pipeline.replay_parallel(chk, 'client', 'TestVerifReplayReceiveBacklog', {}, scripts, nproc=14)
    chk.log('replayed %d full-handler-queue scenarios on the real client: %d trace lines' % (len(scripts), len(lines)))
    bad, rej = [], []
    for sel, rs, r in pipeline.tlc_lines_parallel(chk, 'Props_ReceiveBacklog', 'Props_ReceiveBacklog.cfg', lines, 'props_result.json', 4, 900):
        bad += [(f, sel[j - 1]) for f, j in rs['bad']]
    for sel, rs, r in pipeline.tlc_lines_parallel(chk, 'Trace_ReceiveBacklog', 'Trace_ReceiveBacklog.cfg', lines, 'trace_result.json', 4, 900):
        rej += [sel[j - 1] for j in rs['rej']]
    ids = {s['id']: s for s in scripts}
    seen = set()
    for f, l in sorted(bad, key=lambda x: x[1]):
        ln = lines[l - 1]
        if (ln['tr'], f) in seen:
            continue
        seen.add((ln['tr'], f))
        idx = [k for k, x in enumerate(lines) if x['tr'] == ln['tr']]
        i = idx.index(l - 1)
        if f not in FORMULAS:      # BacklogInOrder is C17's statement: noted here, decided there
            chk.notes.append('ReceiveBacklog: %s false in scenario %s step %d' % (f, ln['tr'], i))
            chk.log('NOTE: %s false in scenario %s step %d (not a C18 formula)' % (f, ln['tr'], i))
            continue
        chk.violation(f, 'full-handler-queue scenario %s step %d %s: the handlers saw (kind, id, send number, connection) %s; the service accepted (connection, send number) %s; '
                      'flag=%s connection %s up=%s' % (ln['tr'], i, json.dumps(ln['act']), [(d['k'], d['id'], d['n'], d['e']) for d in ln['st']['deliv']],
                                                       [(a['e'], a['n']) for a in ln['st']['accs']], ln['st']['flag'], ln['st']['ep'], ln['st']['up']),
                      {'script': {'id': ln['tr'], 'module': 'ReceiveBacklog', 'steps': ids[ln['tr']]['steps'][:i]}}, {'line': ln})
    drift = sorted({lines[l - 1]['tr'] for l in rej})
    if drift:
        chk.notes.append('ReceiveBacklog conformance drift: %d rejected lines (scenarios %s)' % (len(rej), drift[:5]))
        chk.log('DRIFT: Trace_ReceiveBacklog rejected %d recorded steps (scenarios %s)' % (len(rej), drift[:5]))
        l = rej[0]
        chk.log('  rejected: %s skip=%r\n     before %s\n     after  %s' % (lines[l - 1]['act'], lines[l - 1]['skip'], json.dumps(lines[l - 2]['st']), json.dumps(lines[l - 1]['st'])))
    blocked = sum(1 for s in scripts if any(x['a'] == 'Flood' for x in s['steps']) and any(x['a'] == 'Teardown' for x in s['steps']))
    return {'full_handler_queue_batch': {'scenarios': len(scripts), 'with_flood_and_teardown': blocked, 'lines': len(lines), 'rejected': len(rej),
                                         'false_instances': len([1 for f, _ in bad if f in FORMULAS]), 'model_states': m.distinct if m else 0}}


def main(argv):
    chk = core.Check('C18', 'model_checking', argv)
    if chk.replay:
        import json
        rp = json.load(open(chk.replay))['replay'].get('script', {})
        if rp.get('module') == 'ReceiveBacklog':
            from vf import pipeline
            lines, _ = pipeline.replay_parallel(chk, 'client', 'TestVerifReplayReceiveBacklog', {}, [{'id': rp['id'], 'steps': rp['steps']}], nproc=1)
            for sel, rs, r in pipeline.tlc_lines_parallel(chk, 'Props_ReceiveBacklog', 'Props_ReceiveBacklog.cfg', lines, 'props_result.json', 1, 600):
                for f, j in rs['bad']:
                    chk.violation(f, 'full-handler-queue scenario %s: %s' % (rp['id'], lines[sel[j - 1] - 1]['st']['deliv']), {'script': rp}, {})
            chk.finish({'states': 0, 'transitions': 0, 'traces_validated_against_impl': 1, 'evaluations': 1, 'distinct_nontrivial': 1,
                        'rule': 'replay of one full-handler-queue scenario', 'samples': [rp], 'checker_cmd': 'tlc Props_ReceiveBacklog', 'exhaustive': False})
            return
    rc.standard(chk, FORMULAS,
                lambda s: rc.has(s, 'Accept', 'Call') and s['steps'][0]['a'] != 'Accept',
                'scenarios = TLC simulation behaviours of RemoteClient (valid accept and 4 forged variants: wrong key, key for another hash, '
                'signature by another key, counts altered after signing; calls issued before / between / after accept and ready; drops; both '
                'connection types) + directed scenarios (queued requests followed by a failed accept or a stop); non-trivial = a call issued '
                'before the accept',
                ['the forged accepts are the four named variants, not arbitrary byte strings (C20 covers decoding)',
                 'the connection shutdown is slowed by 5 ms at the verif hook conn.teardown so that goroutines woken by it run before the socket closes'],
                extra=receive_backlog)
