"""C02 -- the stored chain stays hash-linked and grows only at its tip for any peer input."""
from vf import core, pipeline
from . import chainsync as cs

FORMULAS = {'NoPanic', 'Linked', 'NoDupChain', 'GrowsAtTip', 'Inverse', 'AnnouncedContiguous'}


def main(argv):
    chk = core.Check('C02', 'model_checking', argv)
    thorough = chk.tier == 'thorough'
    # safety under adversarial input from the trusted connection (any headers list incl. an unknown header, any block
    # message with a good or bad body), known findings repaired; then the same with the code as it is, FIFO, no races
    adv = {'Fix <- CodeFix': 'Fix <- AllFix', 'MaxAdv = 0': 'MaxAdv = 1'}
    if thorough:
        adv.update({'MaxAdv = 1': 'MaxAdv = 2'})      # (2.8 M distinct states; with two tip changes and reordering on top TLC did not finish in 40 min)
    models = [('safety-adversarial-repaired', cs.model(chk, 'invariants, adversarial trusted input, known findings repaired', adv,
                                                      timeout=3000 if thorough else 600, heap='28g' if thorough else '16g'))]
    scripts = []
    for name, r in models:
        if r.violated:
            scripts.append(cs.cex_script(r, name))
    if chk.replay:
        import json
        scripts = [json.load(open(chk.replay))['replay']['script']]
    else:
        for a in pipeline.attack_scripts('C02', 'ChainSync'):
            scripts.append(dict(a, **{'complete': True, 'adv': True, 'env': 'attack', 'tree': a.get('tree', 'Par7'), 'ptip': a.get('ptip', 4)}))
        k = 4 if thorough else 1
        seed = chk.seed * 100
        scripts += cs.gen(chk, 'adversarial', 'Par7', 300 * k, 70, seed + 11)
        scripts += cs.gen(chk, 'racy', 'Par7', 150 * k, 80, seed + 12)
        scripts += cs.gen(chk, 'reorder', 'Par7', 100 * k, 80, seed + 13)
        scripts += cs.gen(chk, 'adversarial', 'Par14', 50 * k, 120, seed + 14)
        scripts += cs.gen(chk, 'adversarial', 'Par7s4', 120 * k, 60, seed + 16)     # headers before the start block are stored without blocks
        scripts += cs.gen(chk, 'reorder', 'Par7s4', 60 * k, 60, seed + 17)
    res = cs.run(chk, scripts, FORMULAS, models)
    # the two views (height -> hash, hash -> height) across 1000-header file boundaries: store-level batch at real scale
    if not chk.replay:
        from . import c09
        st = c09.gen_store_scripts(chk, 60 if thorough else 20, 28, chk.seed * 1000 + 15)
        slines, sgroups, sbad, srej, sids = c09.replay_and_judge(chk, st)
        seen = set()
        for f, l in sorted(sbad, key=lambda x: x[1]):
            ln = slines[l - 1]
            if f != 'QueryOK' or ln['tr'] in seen:
                continue
            seen.add(ln['tr'])
            o = ln['obs']
            first = sgroups[ln['tr']][0]
            chk.violation('Inverse', 'store scenario %s step %d: after %s(%s) -> %s the height->hash and hash->height views disagree with the chain: h=%s tip=%s hash[..]=%s height-of[..]=%s' % (
                ln['tr'], l - first, ln['a'], ln['t'], ln['rs'], o['h'], o['tip'], o['hs'], o['ids']),
                {'store_script': {'id': ln['tr'], 'rmok': bool(sids[ln['tr']].get('rmok')), 'steps': sids[ln['tr']]['steps'][:l - first]}}, {'line': ln})
        chk.notes.append('store-level batch: %d scenarios, %d lines at real scale' % (len(st), len(slines)))
    for name, r in models:
        if r.violated and ('model-cex-%s' % name) not in res['bad_traces']:
            chk.infra('new unreproduced model counterexample: %s (%s)' % (name, r.violated))
    nadv = sum(1 for s in scripts for x in s['steps'] if x['a'] == 'AdvMsg')
    chk.finish({
        'states': sum(r.distinct for _, r in models), 'transitions': sum(r.generated for _, r in models),
        'traces_validated_against_impl': res['traces'] - len(res['drift']),
        'evaluations': len(scripts),
        'distinct_nontrivial': len({core.script_hash(s['steps']) for s in scripts if s.get('adv') or cs.nontrivial_reorg(s)}),
        'rule': 'scripts = TLC simulation behaviours of ChainSync with adversarial input from the trusted connection (any list of <=2 headers '
                'from the tree plus an unknown header, any block with matching or non-matching body, requested or not), racy and reordering '
                'environments; the chain projection re-queries Hash(h) for every height and Height/Contains for every block after every step; '
                'non-trivial = contains an adversarial message or a best-chain change',
        'samples': [{'id': s['id'], 'ptip': s['ptip'], 'actions': [[x['a'], x['m']['hs'] if x['m']['t'] == 'hdr' else [x['m']['b'], x['m']['f']]] if x['a'] in ('AdvMsg', 'Deliver') else x['a'] for x in s['steps']][:40]} for s in scripts[:2] + scripts[-1:]],
        'trace_lines': res['lines'], 'adversarial_messages': nadv, 'conformance_rejections': res['rejected'],
        'steps_not_enabled': res['skips'], 'false_formula_instances': res['false_instances'],
        'models': [{'name': n, 'states': r.distinct, 'result': 'ok' if r.ok else r.violated} for n, r in models],
        'checker_cmd': 'tlc MC_ChainSync / Props_ChainSync / Trace_ChainSync', 'exhaustive': False,
    }, assumptions=[
        'adversarial headers lists have at most two headers (model) drawn from the block tree plus one header with an unknown parent',
        'handlers are atomic per message; the processor is stepped at three points',
    ])
