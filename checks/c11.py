"""C11 -- transaction tracking survives a clean restart."""
from . import txpipeline as tp
FORMULAS = {'RestartKeeps', 'AtMostOnceNew', 'SafeOnce', 'StoredCopy', 'BlockDelivers', 'NoError', 'NoPanic'}
def main(argv):
    tp.standard('C11', FORMULAS,
                'scripts = TLC simulation behaviours of TxPipeline with a clean stop/start on the same storage at a quiescent point (unconfirmed set '
                'with every flag combination reached by the preceding steps), followed by re-announcements, the checker and confirmations; '
                'non-trivial = a restart happens after a transaction was delivered',
                lambda s: tp.has(s, 'Restart', 'ConsumeB'), argv)
