"""C20 -- decoding hostile bytes fails cleanly.

model    : the Hostile action of WireStream (the decoder answers with a value or an error; invariant Clean), checked with the C15 model.
generate : spec/WireCases.tla enumerates (type, value class, lie) and (stored record kind, lie); the harness overwrites every position of the
           valid encoding with the lie (tail kept / tail cut).
replay   : harness/storage/wire_test.go decodes every input in child processes with a 3 GiB address space; panics are recovered and
           counted, the allocation of every decode is measured, a killed child is attributed to the input it was decoding.
judge    : Props_WireHostile.
"""
import json
import os

from vf import core, gobuild, pipeline, tlc

FORMULAS = {'NoPanic', 'Terminates', 'AllocBounded'}


def main(argv):
    chk = core.Check('C20', 'model_checking', argv)
    ms = []
    if not os.environ.get('VERIF_SKIP_MODEL'):
        r = pipeline.model_check(chk, 'WireStream', 'MC_WireStream_quick.cfg', workers=12, timeout=1800, heap='16g')
        if not r.ok:
            chk.infra('model checking did not pass: %s %s\n%s' % (r.kind, r.violated, r.stdout[-1500:]))
        ms.append(r)
    d = chk.scratch(tlc.stage())
    r = tlc.run(d, 'WireCases', 'WireCases.cfg', workers=1, timeout=600)
    p = os.path.join(d, 'wire_cases.json')
    if not os.path.exists(p):
        chk.infra('WireCases enumeration failed:\n' + r.stdout[-2000:])
    cases = json.load(open(p))
    if chk.replay:
        cases = [json.load(open(chk.replay))['replay']['case']]
    chk.log('enumerate WireCases: %d cases' % len(cases))
    binp = pipeline.build(chk, 'storage')
    from concurrent.futures import ThreadPoolExecutor
    nproc = 8
    w = chk.scratch(tlc.scratch('vf-run-'))
    chunks = [cases[i::nproc] for i in range(nproc)]

    def one(k):
        sp, tp = os.path.join(w, 'c%d.json' % k), os.path.join(w, 'h%d.ndjson' % k)
        json.dump(chunks[k], open(sp, 'w'))
        rc, out = gobuild.run_test(binp, 'TestVerifWireHostile$', {'VERIF_SCRIPTS': sp, 'VERIF_TRACE': tp}, timeout=3000, cwd=w)
        return rc, out, tp
    with ThreadPoolExecutor(nproc) as ex:
        res = list(ex.map(one, range(nproc)))
    lines = []
    for rc, out, tp in res:
        if rc != 0 or not os.path.exists(tp):
            chk.infra('hostile driver failed:\n' + out[-2000:])
        lines += [json.loads(x) for x in open(tp) if x.strip()]
    for k, ln in enumerate(lines):
        ln['tr'] = k % 4
    ninputs = sum(ln['inputs'] for ln in lines)
    chk.log('decoded %d hostile inputs of %d cases in child processes (address space 3 GiB)' % (ninputs, len(cases)))
    done = {(ln['case']['t'], ln['case']['c'], ln['case']['lie'], ln['case']['rec']) for ln in lines}
    missing = [c for c in cases if (c['t'], c['c'], c['lie'], c['rec']) not in done]
    if missing:
        chk.infra('%d cases produced no result (first: %s)' % (len(missing), missing[0]))
    out = pipeline.tlc_lines_parallel(chk, 'Props_WireHostile', 'Props_WireHostile.cfg', lines, 'props_result.json', 4, 1800)
    nbad = 0
    seen = set()
    for sel, rs, rr in out:
        for f, j in rs['bad']:
            ln = lines[sel[j - 1] - 1]
            nbad += 1
            key = (f, ln['case']['t'], ln['case']['rec'])
            if key in seen:
                continue
            seen.add(key)
            chk.violation(f, 'hostile input for %s (value class %s, lie %s): %s; largest allocation of one decode %d bytes (valid encoding %d bytes): %s' % (
                ('stored record ' + ln['case']['rec']) if ln['case']['rec'] else 'message type %d' % ln['case']['t'], ln['case']['c'], ln['case']['lie'], ln['worst'],
                ln['alloc'], ln['len'], ln['detail'][:400]), {'case': ln['case']}, {'line': ln})
    chk.finish({
        'states': sum(r.distinct for r in ms), 'transitions': sum(r.generated for r in ms), 'traces_validated_against_impl': len(lines) - nbad,
        'evaluations': ninputs, 'distinct_nontrivial': len(cases),
        'rule': 'cases = (38 types x 2 value classes x 4 lies) + (4 stored record kinds x 6 lies) enumerated by TLC from spec/WireCases.tla; inputs = the lie written over '
                'every position of the valid encoding (positions 200..len-100 of long encodings: every 13th), with the tail kept and with the tail cut; non-trivial = every case',
        'samples': cases[:2] + cases[-1:], 'cases': len(cases), 'inputs_decoded': ninputs, 'bad_cases': nbad,
        'outcomes': {k: sum(1 for ln in lines if ln['worst'] == k) for k in ('ok', 'error', 'panic', 'alloc', 'killed')},
        'checker_cmd': 'tlc WireCases / Props_WireHostile', 'exhaustive': False,
    }, assumptions=[
        'out of proportion = one decode allocates more than 1 MiB + 256 bytes per input byte (Go runtime TotalAlloc delta)',
        'random strings behind valid type codes are not generated; the inputs are single-position mutations of valid encodings',
        'after three inputs of one case have killed the child the rest of that case is not decoded',
    ])
