"""C03 -- relevant transactions are delivered completely and exactly once."""
from . import txpipeline as tp
FORMULAS = {'AtMostOnceNew', 'NoIrrelevant', 'Complete', 'SpentOutputs', 'BlockDelivers', 'NoError', 'NoPanic'}
def main(argv):
    tp.standard('C03', FORMULAS,
                'scripts = TLC simulation behaviours of TxPipeline (tx messages from the trusted and an untrusted connection, local submission, '
                'inventories, duplicates, blocks, restart, racing consumer) replayed on the real node; non-trivial = a transaction arrives from '
                'two sources or arrives and is confirmed in a block',
                lambda s: sum(1 for x in s['steps'] if x['a'] == 'Arrive') >= 2 and tp.has(s, 'ConsumeB'), argv)
