"""Driver for spec/UntrustedPeer.tla: one untrusted connection from the connect to the stop (part of C12, and the peer-score and
broadcast rules beyond the list).

model    : TLC on MC_UntrustedPeer (invariants Gated / Order / ScoreBound, step properties).
generate : tlc -simulate of Sim_UntrustedPeer plus directed scenarios.
replay   : harness/spynode/untrustedpeer_test.go runs the real UntrustedNode.monitorIncoming over an in-memory connection; the loop
           is parked at its two named points so that every specification step is one piece of the loop.
judge    : Props_UntrustedPeer;  conform : Trace_UntrustedPeer.
"""
import json
import os

from vf import core, pipeline, tlaval

FORMULAS = {'UntrustedGated', 'VerifiedByHeaders', 'BadHeadersEnd', 'ScoreRule', 'HandshakeOrder', 'BroadcastFlushed', 'BroadcastDelivered', 'VerifiedClearsRequest', 'AddrHarmless',
            'ChainUntouched', 'Unvouched', 'StoppedQuiet', 'NoPanic'}

H, DELTA = 12, 6


def _m(t, x=0):
    return {'t': t, 'x': x}


def _h(first, linked=True, n=3):
    return _m('headers', {'first': first, 'linked': linked, 'n': n})


C, R = (lambda: {'a': 'Check', 'm': _m('', 0)}), (lambda m: {'a': 'Recv', 'm': m})
B = lambda t: {'a': 'Broadcast', 'm': _m('tx', t)}

DIRECTED = [
    # everything an unverified peer can send before and after the version message: nothing is requested, nothing is accepted
    ('unverified-ignored', [C(), R(_m('inv', 1)), C(), R(_m('tx', 1)), C(), R(_m('version')), C(), R(_m('inv', 2)), C(), R(_m('tx', 2)), C(),
                            R(_m('addr', 1)), C(), R(_m('ping')), C(), R(_m('block')), C(), R(_m('unknown')), B(1), C()]),
    # the life of a good peer: version, headers near the tip, score once, getaddr / mempool once, inventories, transactions, broadcast
    ('good-peer', [C(), R(_m('version')), C(), R(_h(H - DELTA, True, 3)), C(), R(_m('inv', 1)), C(), R(_m('inv', 1)), C(), R(_m('tx', 1)),
                   B(2), C(), R(_h(-1, True, 1)), C(), R(_m('inv', 2)), C(), R(_m('ping')), C()]),
    ('broadcast-before-ready', [B(1), C(), R(_m('version')), B(2), C(), R(_h(H, True, 1)), C()]),
    # boundary of "near the tip": H-Delta-1 is accepted, H-Delta-2 is not
    ('boundary-accepted', [C(), R(_m('version')), C(), R(_h(H - DELTA - 1, True, 3)), C()]),
    ('boundary-refused', [C(), R(_m('version')), C(), R(_h(H - DELTA - 2, True, 3))]),
    ('unknown-header', [C(), R(_m('version')), C(), R(_h(-1, True, 3))]),
    ('unlinked-headers', [C(), R(_m('version')), C(), R(_h(H - 1, False, 3))]),
    ('no-headers', [C(), R(_m('version')), C(), R(_h(H, True, 0))]),
    ('headers-before-version', [C(), R(_h(H - 1, True, 3)), C(), R(_m('version')), C(), R(_m('tx', 1))]),
    ('garbage', [C(), R(_m('version')), C(), R(_m('garbage'))]),
    ('handshake-expires', [C(), {'a': 'Expire', 'm': _m('', 0)}]),
    ('headers-expire', [C(), R(_m('version')), C(), {'a': 'Expire', 'm': _m('', 0)}]),
    ('stopped', [C(), R(_m('version')), C(), R(_h(H, True, 1)), C(), {'a': 'Stop', 'm': _m('', 0)}]),
]


def model(chk, thorough):
    if os.environ.get('VERIF_SKIP_MODEL'):
        return []
    sub = {'MaxSteps = 9': 'MaxSteps = 13', 'Txs <- Txs1': 'Txs <- Txs2'} if thorough else {}
    r = pipeline.model_check(chk, 'UntrustedPeer', 'MC_UntrustedPeer_quick.cfg', workers=12, timeout=2400, heap='16g', subst=sub)
    if not r.ok:
        if r.trace:
            chk.log('model counterexample: %s' % [tlaval.plain(x['state'].get('act')) for x in r.trace])
        chk.infra('model checking UntrustedPeer did not pass: %s %s\n%s' % (r.kind, r.violated, r.stdout[-1500:]))
    return [r]


def gen(chk, thorough):
    n = 4 if thorough else 1
    scripts = []
    for k in range(n):
        ss = pipeline.sim_scripts(chk, 'UntrustedPeer', 'Sim_UntrustedPeer.cfg', num=150, depth=25, seed=chk.seed * 100 + 31 + k, prefix='up')
        scripts += [{'id': s['id'], 'steps': s['steps']} for s in ss]
    scripts += [{'id': 'directed-' + name, 'steps': steps} for name, steps in DIRECTED]
    return scripts


def run(chk, scripts, formulas=FORMULAS):
    lines, _ = pipeline.replay_parallel(chk, 'spynode', 'TestVerifReplayUntrustedPeer', {'h': H}, scripts, nproc=8)
    chk.log('replayed %d untrusted-connection scenarios on the real read loop: %d trace lines' % (len(scripts), len(lines)))
    bad, rej = [], []
    for sel, rs, r in pipeline.tlc_lines_parallel(chk, 'Props_UntrustedPeer', 'Props_UntrustedPeer.cfg', lines, 'props_result.json', 4, 1800):
        bad += [(f, sel[j - 1]) for f, j in rs['bad']]
    for sel, rs, r in pipeline.tlc_lines_parallel(chk, 'Trace_UntrustedPeer', 'Trace_UntrustedPeer.cfg', lines, 'trace_result.json', 4, 1800):
        rej += [sel[j - 1] for j in rs['rej']]
    ids = {s['id']: s for s in scripts}
    seen = set()
    for f, l in sorted(bad, key=lambda x: x[1]):
        if f not in formulas:
            continue
        ln = lines[l - 1]
        if (ln['tr'], f) in seen:
            continue
        seen.add((ln['tr'], f))
        idx = [k for k, x in enumerate(lines) if x['tr'] == ln['tr']]
        i = idx.index(l - 1)
        st = ln['st']
        chk.violation(f, 'untrusted connection scenario %s step %d %s%s: version=%s verified=%s scored=%s stopping=%s score=%s queued for the peer=%s '
                         'tx channel=%s pending=%s repository height=%s' % (
                             ln['tr'], i, json.dumps(ln['act']), (' [' + ln['skip'] + ']') if ln['skip'] else '', st['ver'], st['verified'], st['scored'],
                             st['stopping'], st['score'], [(o['t'], o['x']) for o in st['out']], st['chan'], st['pend'], st['height']),
                      {'script': {'id': ln['tr'], 'module': 'UntrustedPeer', 'steps': ids.get(ln['tr'], {}).get('steps', [])[:i]}},
                      {'line': ln, 'trace': [lines[k] for k in idx], 'i': i})
    drift = sorted({lines[l - 1]['tr'] for l in rej})
    skips = sum(1 for ln in lines if ln.get('skip'))
    if drift or skips:
        chk.notes.append('UntrustedPeer conformance drift: %d rejected lines (scenarios %s), %d scripted steps not enabled' % (len(rej), drift[:5], skips))
        chk.log('DRIFT: Trace_UntrustedPeer rejected %d recorded steps (scenarios %s); %d scripted steps were not enabled' % (len(rej), drift[:5], skips))
        for l in rej[:3]:
            chk.log('  rejected: scenario %s act %s skip=%r\n      before %s\n      after  %s' % (
                lines[l - 1]['tr'], json.dumps(lines[l - 1]['act']), lines[l - 1].get('skip'), json.dumps(lines[l - 2]['st']), json.dumps(lines[l - 1]['st'])))
    return {'traces': len({ln['tr'] for ln in lines}), 'lines': len(lines), 'drift': drift, 'rejected': len(rej), 'skips': skips,
            'false_instances': len([1 for f, _ in bad if f in formulas]),
            'verified': len({ln['tr'] for ln in lines if ln['st']['verified']}), 'failed': len({ln['tr'] for ln in lines if ln['st']['score'] < 0})}


def main(argv):
    """stand-alone: python3 -m checks.untrustedpeer (not a registered property; C12 calls run())"""
    chk = core.Check('C12', 'model_checking', argv)
    ms = model(chk, chk.tier == 'thorough')
    res = run(chk, gen(chk, chk.tier == 'thorough'))
    chk.log('UntrustedPeer: %s' % {k: v for k, v in res.items()})
