"""C10 -- a crash at any storage write leaves a chain store the node can resume from (fault enumeration driven by the model).

model  : MC_BlockStore_crash.cfg -- TLC checks CrashSafe on spec/BlockStore.tla: in every reachable state, after any prefix of the
         storage mutations of Save / roll-over / Revert (save, remove files top-down, truncate), the surviving files load to a
         prefix of the abstract chain.
code   : (1) store level, real scale: BlockStore scenarios (TLC-simulated, both back ends, 4 height maps) are replayed on the real
             BlockRepository with a recording storage; for EVERY prefix of the recorded mutations a new repository is loaded on the
             surviving image and its chain compared with the chain before/after the interrupted call.
         (2) node level: ChainSync scenarios (sync, extension, reorganisation, time-out reconnect, clean restart; TLC-simulated and
             a fixed family over all reorg shapes of the 7-block tree) run on a recording storage; for every prefix of the mutations
             a new node is started on the image (real load()), must load, hold a hash-linked chain on one branch, and converge to the
             peer again; and for every operation index j the scenario is re-run with the j-th storage operation failing, after which
             either the chain in memory is consistent or a restart recovers a consistent chain.
"""
import json
from vf import core, pipeline, tlaval, tlc
from . import chainsync as cs
from . import signatures as sig

CHAIN_FORMULAS = {'LoadOK', 'Linked', 'NoDupChain', 'Inverse', 'Convergence', 'NoPanic'}
RHOS = {'RhoReal': [0, 1, 500, 999], 'RhoV1': [0, 2, 998, 999], 'RhoV2': [0, 1, 2, 999], 'RhoV3': [0, 997, 998, 999]}
C = {'a': 'Complete'}


def family():
    """deterministic node-level scenarios over the 7-block tree: initial tip, later tips, restart kind"""
    out = []
    k = 0
    for t1, t2 in [(4, 7), (3, 7), (1, 4), (3, 4), (2, 7), (4, 6), (1, 7)]:
        for rk in ('ProcRestart', 'Restart'):
            steps = [C, {'a': 'PeerAdvance', 't': t2}, C, {'a': rk}, C]
            out.append({'id': 'fam-%d' % k, 'ptip': t1, 'steps': steps, 'faults': True, 'stride': 1})
            k += 1
    return out


HS_DIRECTED = [
    # the write that finishes the first block file fails; the request times out, the node asks again from its last hash
    ('rollover-write-fails', 2050, ['Check', 'Answer', 'Check', 'Arm', 'Answer', 'Timeout', 'Check', 'Answer', 'Check', 'Answer', 'Restart']),
    ('rollover-write-fails-then-crash', 2050, ['Check', 'Answer', 'Check', 'Arm', 'Answer', 'Crash', 'Check', 'Answer', 'Check', 'Answer']),
    ('second-rollover-fails', 2050, ['Check', 'Answer', 'Check', 'Answer', 'Check', 'Arm', 'Answer', 'Timeout', 'Check', 'Answer', 'Timeout', 'Crash']),
    ('save-at-reconnect-fails', 1700, ['Check', 'Answer', 'Check', 'Arm', 'Timeout', 'Check', 'Answer', 'Crash', 'Check', 'Answer']),
    ('crash-after-each-batch', 2050, ['Check', 'Answer', 'Crash', 'Check', 'Answer', 'Check', 'Answer', 'Crash', 'Check', 'Answer', 'Timeout', 'Crash']),
    ('fault-at-the-exact-boundary', 1001, ['Check', 'Answer', 'Check', 'Arm', 'Answer', 'Timeout', 'Check', 'Answer', 'Restart']),
]


def header_sync(chk, thorough):
    """spec/HeaderSync.tla: header-only sync before the start block across block-file roll-overs (1000 headers per file, real scale),
    one failing write (the roll-over write inside BlockRepository.Add, or the save of a reconnect), crashes and clean restarts."""
    import os
    m = None
    if not os.environ.get('VERIF_SKIP_MODEL'):
        m = pipeline.model_check(chk, 'HeaderSync', 'MC_HeaderSync_quick.cfg', workers=8, timeout=900,
                                 subst={'MaxSteps = 26': 'MaxSteps = 40', 'R = 3': 'R = 4'} if thorough else None)
        if not m.ok:
            chk.infra('model checking HeaderSync did not pass: %s %s' % (m.kind, m.violated))
    scripts = []
    for k in range(3 if thorough else 1):
        for s in pipeline.sim_scripts(chk, 'HeaderSync', 'Sim_HeaderSync.cfg', num=40, depth=19, seed=chk.seed * 100 + 57 + k, prefix='hs'):
            scripts.append({'id': s['id'], 'ptip': s['init']['ptip'], 'steps': [{'a': x['a'], 't': x['t']} for x in s['steps']]})
    scripts += [{'id': 'directed-' + n, 'ptip': pt, 'steps': [{'a': a, 't': 0} for a in st]} for n, pt, st in HS_DIRECTED]
    lines, _ = pipeline.replay_parallel(chk, 'spynode', 'TestVerifReplayHeaderSync', {'n': 2050, 'batch': 700}, scripts, nproc=14, timeout=1200)
    lines = [l for l in lines if l['skip'] != 'not enabled']
    nfault = sum(1 for l in lines if l['act']['a'] == 'Arm')
    ncrash = sum(1 for l in lines if l['act']['a'] in ('Crash', 'Restart'))
    chk.log('header-only sync: %d scenarios on the real headers handler / BlockRepository at 1000 headers per file, %d armed write faults, %d crashes / restarts, %d lines' % (
        len(scripts), nfault, ncrash, len(lines)))
    bad, rej = [], []
    for sel, rs, r in pipeline.tlc_lines_parallel(chk, 'Props_HeaderSync', 'Props_HeaderSync.cfg', lines, 'props_result.json', 4, 900):
        bad += [(f, sel[j - 1]) for f, j in rs['bad']]
    for sel, rs, r in pipeline.tlc_lines_parallel(chk, 'Trace_HeaderSync', 'Trace_HeaderSync.cfg', lines, 'trace_result.json', 4, 900):
        rej += [sel[j - 1] for j in rs['rej']]
    ids = {s['id']: s for s in scripts}
    seen = set()
    nbad = 0
    for f, l in sorted(bad, key=lambda x: x[1]):
        ln = lines[l - 1]
        if ln['tr'] in seen:
            continue
        sc = ids[ln['tr']]
        if f == 'Convergence' and any(x['a'] == 'Arm' for x in sc['steps']):
            # the property demands a consistent chain after a failed operation, not progress: noted only
            chk.notes.append('HeaderSync: scenario %s (with a failed write) did not reach the peer tip by the end' % ln['tr'])
            continue
        seen.add(ln['tr'])
        nbad += 1
        idx = [k for k, x in enumerate(lines) if x['tr'] == ln['tr']]
        i = idx.index(l - 1)
        chk.violation(f, 'header-only sync scenario %s (peer tip %d) step %d %s: repository holds runs %s, state last hash = header %s, a new node loads %s %s' % (
            ln['tr'], sc['ptip'], i, ln['act']['a'], [(r['a'], r['b']) for r in ln['st']['chain']], ln['st']['last'],
            [(r['a'], r['b']) for r in ln['st']['schain']], ln['st']['sload']),
            {'script': {'id': ln['tr'], 'module': 'HeaderSync', 'ptip': sc['ptip'], 'steps': sc['steps']}}, {'line': ln})
    drift = sorted({lines[l - 1]['tr'] for l in rej})
    if drift:
        chk.notes.append('HeaderSync conformance drift: %d rejected lines (scenarios %s)' % (len(rej), drift[:5]))
        chk.log('DRIFT: Trace_HeaderSync rejected %d recorded steps (scenarios %s)' % (len(rej), drift[:5]))
        l = rej[0]
        chk.log('  rejected: %s skip=%r\n     before %s\n     after  %s' % (lines[l - 1]['act'], lines[l - 1]['skip'], json.dumps(lines[l - 2]['st']), json.dumps(lines[l - 1]['st'])))
    return {'scenarios': len(scripts), 'faults': nfault, 'crashes': ncrash, 'lines': len(lines), 'rejected': len(rej), 'false_instances': nbad,
            'model_states': m.distinct if m else 0}


def main(argv):
    chk = core.Check('C10', 'fault_enumeration', argv)
    thorough = chk.tier == 'thorough'
    if chk.replay:
        rp = json.load(open(chk.replay))['replay'].get('script', {})
        if rp.get('module') == 'HeaderSync':
            lines, _ = pipeline.replay_parallel(chk, 'spynode', 'TestVerifReplayHeaderSync', {'n': 2050, 'batch': 700}, [{'id': rp['id'], 'ptip': rp['ptip'], 'steps': rp['steps']}], nproc=1)
            lines = [l for l in lines if l['skip'] != 'not enabled']
            for sel, rs, r in pipeline.tlc_lines_parallel(chk, 'Props_HeaderSync', 'Props_HeaderSync.cfg', lines, 'props_result.json', 1, 600):
                for f, j in rs['bad']:
                    chk.violation(f, 'header-only sync scenario %s: %s' % (rp['id'], lines[sel[j - 1] - 1]['st']), {'script': rp}, {})
            chk.finish({'states': 0, 'transitions': 0, 'evaluations': 1, 'distinct_nontrivial': 1, 'rule': 'replay of one header-only sync scenario',
                        'samples': [rp], 'exhaustive': False})
            return
    m = pipeline.model_check(chk, 'BlockStore', 'MC_BlockStore_crash.cfg', workers=12, timeout=900,
                             subst={'MaxId = 8': 'MaxId = 10', 'MaxH = 8': 'MaxH = 10'} if thorough else None)
    if not m.ok:
        chk.infra('the model violates CrashSafe or did not finish: %s\n%s' % (m.violated, m.stdout[-1500:]))

    # (1) store level
    def stepfn(s):
        return {'mh': len(tlaval.plain(s['abs'])) - 1}
    bs = []
    names = sorted(RHOS)
    for rmok in (False, True):
        ss = pipeline.sim_scripts(chk, 'BlockStore', 'Sim_BlockStore.cfg', num=(160 if thorough else 36), depth=28, seed=chk.seed * 1000 + 70 + rmok,
                                  stepfn=stepfn, prefix='bs-rmok' if rmok else 'bs-rmerr',
                                  subst={'RmMissingErr = TRUE': 'RmMissingErr = FALSE'} if rmok else None)
        for i, s in enumerate(ss):
            bs.append({'id': s['id'], 'rmok': rmok, 'rho': RHOS[names[i % 4]], 'crash': True, 'steps': s['steps']})
    lines, _ = pipeline.replay_parallel(chk, 'spynode', 'TestVerifReplayBlockStore', {'k': 4, 'rtop': 1000, 'rho': RHOS['RhoReal'], 'maxh': 13, 'maxid': 14}, bs, nproc=14)
    crash = [l for l in lines if l.get('a') == 'crash']
    chk.log('store level: %d scenarios on the real BlockRepository, %d crash points (every prefix of %d recorded mutations)' % (
        len(bs), len(crash), sum(1 for l in crash if l['k'] == l['of'] and True) and sum(l['of'] for l in crash if l['k'] == l['of'])))
    res = pipeline.tlc_lines_parallel(chk, 'Props_Crash', 'Props_Crash.cfg', crash, 'props_result.json', 1, 900)
    bsids = {s['id']: s for s in bs}
    for sel, rs, r in res:
        for f, j in rs['bad']:
            ln = crash[sel[j - 1] - 1]
            s = bsids[ln['tr']]
            chk.violation('CrashSafe', 'store scenario %s: crash after mutation %d of %d: %s (loaded height %d); calls %s' % (
                ln['tr'], ln['k'], ln['of'], ln['why'], ln['h'], [(x['a'], x['t']) for x in s['steps']]),
                {'script': s, 'crash_after': ln['k']}, {'line': ln})

    # (2) node level
    scen = family()
    if not thorough:
        scen = [s for i, s in enumerate(scen) if i % 3 == chk.seed % 3]
    sims = cs.gen(chk, 'racy', 'Par7', 40 if thorough else 10, 60, chk.seed * 100 + 31)
    for s in sims:
        scen.append({'id': s['id'], 'ptip': s['ptip'], 'steps': s['steps'] + [C, {'a': 'ProcRestart'}, C], 'faults': False, 'stride': 1})
    t = cs.TREES['Par7']
    clines, _ = pipeline.replay_parallel(chk, 'spynode', 'TestVerifCrashChainSync', {'par': t['par'], 'start': t['start'], 'batch': t['batch']}, scen, nproc=14, timeout=2400)
    # the same tree with the start block at height 4: three headers are stored without blocks, reorganisations among them go through
    # the header handler's revert path and append the new branch directly
    scen4 = []
    for k, (t1, t2) in enumerate([(3, 7), (3, 6), (1, 7), (4, 7), (3, 4)]):
        for rk in ('ProcRestart', 'Restart'):
            scen4.append({'id': 'fam4-%d-%s' % (k, rk[0]), 'ptip': t1, 'steps': [C, {'a': 'PeerAdvance', 't': t2}, C, {'a': rk}, C], 'faults': True, 'stride': 1})
    if not thorough:
        scen4 = scen4[chk.seed % 2::2]
    t4 = cs.TREES['Par7s4']
    clines4, _ = pipeline.replay_parallel(chk, 'spynode', 'TestVerifCrashChainSync', {'par': t4['par'], 'start': t4['start'], 'batch': t4['batch']}, scen4, nproc=14, timeout=2400)
    res4 = pipeline.tlc_lines_parallel(chk, 'Props_ChainSync', 'Props_ChainSync.cfg', clines4, 'props_result.json', 8, 2400, cs.tree_subst('Par7s4'))
    scen += scen4
    trs = {}
    for i, l in enumerate(clines + clines4):
        trs.setdefault(l['tr'], []).append(i)
    ncrash = sum(1 for k in trs if '#crash' in k)
    nfault = sum(1 for k in trs if k.endswith('r') and '#fault' in k)
    chk.log('node level: %d scenarios, %d crash images restarted and driven to quiescence, %d single-operation faults, %d trace lines' % (
        len(scen), ncrash, nfault, len(clines)))
    res = pipeline.tlc_lines_parallel(chk, 'Props_ChainSync', 'Props_ChainSync.cfg', clines, 'props_result.json', 8, 2400)
    bad = {}
    for sel, rs, r in res:
        for f, j in rs['bad']:
            l = sel[j - 1] - 1
            bad.setdefault(clines[l]['tr'], []).append((f, l))
    off = len(clines)
    for sel, rs, r in res4:
        for f, j in rs['bad']:
            l = off + sel[j - 1] - 1
            bad.setdefault(clines4[l - off]['tr'], []).append((f, l))
    clines = clines + clines4
    scen_ids = {s['id']: s for s in scen}
    for tr, fl in sorted(bad.items()):
        base = tr.split('#')[0]
        fl = [(f, l) for f, l in fl if f in CHAIN_FORMULAS or f == 'Quiescent']
        if not fl or '#' not in tr:
            continue          # the recorded base run itself is judged by C01/C02
        if '#fault' in tr and tr.endswith('m'):
            continue          # handled with its restart trace
        if '#fault' in tr:
            # a fault: violation only if the chain in memory was inconsistent too
            mtr = tr[:-1] + 'm'
            mem_bad = [f for f, l in bad.get(mtr, []) if f in ('Linked', 'NoDupChain', 'Inverse', 'NoPanic') and l == trs[mtr][-1]]
            rec_bad = [f for f, l in fl if f in ('LoadOK', 'Linked', 'NoDupChain', 'Inverse', 'NoPanic')]
            if not (mem_bad and rec_bad):
                if not [f for f, l in fl if f in ('Convergence', 'Quiescent')]:
                    continue
                # recovered consistently but does not converge afterwards: judged like a crash image
            f, l = fl[0]
        else:
            f, l = fl[0]
        if f == 'Quiescent':
            f = 'Convergence'
        ln = clines[l]
        idx = trs[tr]
        trace = [clines[k] for k in idx]
        chk.violation(f, '%s: %s; chain=%s ptip=%s inSync=%s lastSaved=%s' % (
            tr, ln['skip'] or ('after ' + ln['act']['a']), ln['st']['chain'], ln['st']['ptip'], ln['st']['inSync'], ln['st']['lastSaved']),
            {'scenario': scen_ids.get(base), 'point': tr.split('#')[1]},
            {'trace': trace, 'i': idx.index(l), 'par': t['par'], 'sig': sig, 'line': ln, 'env': 'crash'})
    hs = header_sync(chk, thorough)
    nmut = sum(l['of'] for l in crash if l['k'] == l['of'])
    chk.finish({
        'header_only_sync': hs,
        'evaluations': len(crash) + ncrash + nfault + hs['faults'] + hs['crashes'],
        'distinct_nontrivial': len({(l['tr'], l['k']) for l in crash if 0 < l['k'] < l['of']}) + ncrash + nfault,
        'rule': 'one evaluation = one crash point (a strict prefix of the storage mutations recorded while replaying a scenario, materialised as a '
                'storage image and loaded by fresh real code) or one injected single-operation storage error; non-trivial = the prefix is '
                'neither empty nor complete (store level) / every restarted image and fault (node level)',
        'samples': [{'store_scenario': bs[0]['id'], 'calls': [[x['a'], x['t']] for x in bs[0]['steps']]},
                    {'node_scenario': scen[0]['id'], 'ptip': scen[0]['ptip'], 'steps': [x['a'] for x in scen[0]['steps']]}],
        'states': m.distinct, 'transitions': m.generated,
        'store_scenarios': len(bs), 'store_crash_points': len(crash), 'store_mutations': nmut,
        'node_scenarios': len(scen), 'node_crash_images': ncrash, 'node_faults': nfault, 'trace_lines': len(clines),
        'exhaustive': True,
        'explanation': 'exhaustive over the crash points and fault positions of the explored scenarios, not over all scenarios',
    }, assumptions=[
        'a crash loses everything but the storage contents after the last completed mutation (no torn writes)',
        'storage back end: MockStorage behind a recording / fault-injecting wrapper',
        'node-level scenarios use the 7-block tree (single block file); file-boundary crash points are covered at store level with real 1000-header files and, '
        'for the header-only sync before the start block, by the HeaderSync scenarios (2050 headers, crash / restart after any step, the next write failing once)',
    ])
