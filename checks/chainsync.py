"""Shared driver for the properties decided on spec/ChainSync.tla (C01, C02, C12 chain part, C13 handler part).

model    : TLC on MC_ChainSync (configurations given by the caller: safety with the repair switches of the known
           findings on; liveness of the as-is model in the calm environment).
generate : tlc -simulate of Sim_ChainSync in several environments (calm / racy FIFO / reordering+duplicates /
           adversarial trusted input / untrusted blocks), two trees (7 blocks; 14 blocks for the 10-block window),
           plus attack scripts and every counterexample TLC finds.
replay   : harness/spynode/chainsync_test.go steps the real handlers, check(), NextBlock()/ProcessBlock() (parked at
           the IsMerkleRootValid gate) in the scripted order, the harness plays peer and network, then drives the
           system to quiescence (time-outs included) and logs the projected state after every step.
judge    : Props_ChainSync (property formulas on every recorded state/step/final state).
conform  : Trace_ChainSync (every recorded step must be the specification's step) -> drift report.
"""
import json
import os
import re

from vf import core, pipeline, tlaval, tlc
from . import signatures as sig

TREES = {
    'Par7': {'par': [0, 1, 2, 3, 2, 5, 6], 'n': 7, 'start': 2, 'batch': 2, 'tips': 'Tips134'},
    'Par7s1': {'par': [0, 1, 2, 3, 2, 5, 6], 'n': 7, 'start': 1, 'batch': 2, 'tips': 'Tips124'},
    'Par7s4': {'par': [0, 1, 2, 3, 2, 5, 6], 'n': 7, 'start': 4, 'batch': 2, 'tips': 'Tips4'},     # three headers before the start block
    'Par14': {'par': [0, 1, 2, 3, 4, 5, 6, 7, 8, 9, 10, 11, 9, 13], 'n': 14, 'start': 1, 'batch': 12, 'tips': 'Tips14'},
    'Par15': {'par': [0, 1, 2, 3, 4, 5, 6, 7, 8, 9, 10, 11, 11, 13, 14], 'n': 15, 'start': 1, 'batch': 12, 'tips': 'Tips15'},
}

ENVS = {
    # name: substitutions on Sim_ChainSync.cfg (defaults: racy FIFO, MaxTip 3, MaxRestart 2, MaxPR 1, MaxDup 2)
    'calm': {'Calm = FALSE': 'Calm = TRUE', 'MaxDup = 2': 'MaxDup = 0'},
    'racy': {'MaxDup = 2': 'MaxDup = 0'},
    'reorder': {'Fifo = TRUE': 'Fifo = FALSE'},
    'adversarial': {'MaxAdv = 0': 'MaxAdv = 4', 'MaxDup = 2': 'MaxDup = 1'},
    'untrusted': {'MaxUnt = 0': 'MaxUnt = 3', 'MaxDup = 2': 'MaxDup = 0'},
}


def tree_subst(tree):
    t = TREES[tree]
    if tree == 'Par7':
        return {}
    if tree == 'Par7s1':
        return {'Start = 2': 'Start = 1', 'InitTips <- Tips134': 'InitTips <- Tips124'}
    if tree == 'Par7s4':
        return {'Start = 2': 'Start = 4', 'InitTips <- Tips134': 'InitTips <- Tips4'}
    return {'N = 7': 'N = %d' % t['n'], 'Par <- Par7': 'Par <- %s' % tree, 'Start = 2': 'Start = %d' % t['start'],
            'Batch = 2': 'Batch = %d' % t['batch'], 'InitTips <- Tips134': 'InitTips <- %s' % t['tips']}


def gen(chk, env, tree, num, depth, seed):
    sub = dict(ENVS[env])
    sub.update(tree_subst(tree))
    ss = pipeline.sim_scripts(chk, 'ChainSync', 'Sim_ChainSync.cfg', num=num, depth=depth, seed=seed,
                              prefix='%s-%s' % (env, tree), subst=sub)
    out = []
    for s in ss:
        adv = any(x['a'] == 'AdvMsg' for x in s['steps'])
        out.append({'id': s['id'], 'ptip': s['init']['ptip'], 'steps': s['steps'], 'complete': True, 'adv': adv,
                    'env': env, 'tree': tree})
    return out


def cex_script(r, name, tree='Par7'):
    steps = [tlaval.plain(s['state']['act']) for s in r.trace[1:] if 'act' in s['state']]
    return {'id': 'model-cex-%s' % name, 'ptip': tlaval.plain(r.trace[0]['state']['ptip']), 'steps': steps,
            'complete': True, 'adv': any(x['a'] == 'AdvMsg' for x in steps), 'env': 'model', 'tree': tree}


def model(chk, name, subst, live=False, workers=12, timeout=900, heap='16g'):
    """One exhaustive TLC run of MC_ChainSync; returns the result."""
    d = chk.scratch(tlc.stage())
    cfg = open(os.path.join(d, 'MC_ChainSync_quick.cfg')).read()
    for a, b in subst.items():
        if a not in cfg:
            chk.infra('model config substitution %r does not apply' % a)
        cfg = cfg.replace(a, b)
    if live:
        cfg = re.sub(r'INVARIANTS.*\n', '', cfg).replace('PROPERTIES StepProps', 'PROPERTIES Convergence').replace('VIEW View\n', '')
    open(os.path.join(d, 'x.cfg'), 'w').write(cfg)
    r = tlc.run(d, 'MC_ChainSync', 'x.cfg', workers=workers, timeout=timeout, heap=heap)
    chk.log('model %s: %d generated, %d distinct, depth %d, %.1fs -> %s' % (
        name, r.generated, r.distinct, r.depth, r.wall, 'ok' if r.ok else '%s %s' % (r.kind, r.violated)))
    if not r.ok and not r.trace:
        chk.infra('model run %s failed:\n%s' % (name, r.stdout[-2500:]))
    return r


def run(chk, scripts, formulas, models):
    """Replay scripts on the real code, judge `formulas`, conformance; returns evidence coverage pieces."""
    by_tree = {}
    for s in scripts:
        by_tree.setdefault(s['tree'], []).append(s)
    ids = {s['id']: s for s in scripts}
    all_lines = {}
    bad_all = []
    rej_all = []
    for tree, ss in by_tree.items():
        t = TREES[tree]
        base = {'par': t['par'], 'start': t['start'], 'batch': t['batch']}
        sl = [{'id': s['id'], 'ptip': s['ptip'], 'steps': s['steps'], 'complete': s.get('complete', True), 'adv': s.get('adv', False)}
              for s in ss]
        lines, tracefile = pipeline.replay_parallel(chk, 'spynode', 'TestVerifReplayChainSync', base, sl, nproc=8)
        chk.log('replayed %d scripts (%s) on the real node: %d trace lines' % (len(ss), tree, len(lines)))
        sub = tree_subst(tree)
        res = pipeline.tlc_lines_parallel(chk, 'Props_ChainSync', 'Props_ChainSync.cfg', lines, 'props_result.json', 6, 1800, sub)
        bad = []
        for sel, rs, r in res:
            bad += [[f, sel[j - 1]] for f, j in rs['bad']]
        res = pipeline.tlc_lines_parallel(chk, 'Trace_ChainSync', 'Trace_ChainSync.cfg', lines, 'trace_result.json', 6, 1800, sub)
        rej = []
        for sel, rs, r in res:
            rej += [sel[j - 1] for j in rs['rej']]
        chk.log('judge+conform (%s): %d false formula instances, %d rejected lines' % (tree, len(bad), len(rej)))
        all_lines[tree] = lines
        bad_all += [(tree, f, l) for f, l in bad]
        rej_all += [(tree, l) for l in rej]

    # verdicts
    seen = set()
    bad_traces = set()
    for tree, f, l in sorted(bad_all, key=lambda x: (x[0], x[2])):
        lines = all_lines[tree]
        ln = lines[l - 1]
        if f == 'Quiescent':
            f = 'Convergence'      # the system never came to rest within the step bound: no convergence
        if f not in formulas:
            continue
        bad_traces.add(ln['tr'])
        if (ln['tr'], f) in seen:
            continue
        seen.add((ln['tr'], f))
        idx = [k for k, x in enumerate(lines) if x['tr'] == ln['tr']]
        trace = [lines[k] for k in idx]
        i = idx.index(l - 1)
        sc = ids.get(ln['tr'], {})
        st = ln['st']
        chk.violation(f,
                      'trace %s (%s environment, %s) line %d after %s: chain=%s req=%s toReq=%s lastSaved=%s infl=%s inSync=%s notified=%s ptip=%s pann=%s' % (
                          ln['tr'], sc.get('env'), tree, i, ln['act']['a'], st['chain'], st['req'], st['toReq'], st['lastSaved'],
                          st['infl'], st['inSync'], st['notified'], st['ptip'], st['pann']),
                      {'script': {k: sc.get(k) for k in ('id', 'ptip', 'steps', 'complete', 'adv', 'env', 'tree')},
                       'actions': [x['act']['a'] for x in trace[:i + 1]]},
                      {'trace': trace, 'i': i, 'par': TREES[tree]['par'], 'sig': sig, 'line': ln, 'env': sc.get('env')})
    drift = sorted({all_lines[t][l - 1]['tr'] for t, l in rej_all})
    skips = sum(1 for t in all_lines for ln in all_lines[t] if ln.get('skip'))
    if drift or skips:
        chk.notes.append('conformance drift: %d rejected lines (traces %s), %d scripted steps not enabled on the real code' % (
            len(rej_all), drift[:5], skips))
        chk.log('DRIFT: Trace_ChainSync rejected %d recorded steps (traces %s); %d scripted steps were not enabled' % (
            len(rej_all), drift[:5], skips))
        for t, l in rej_all[:3]:
            ls = all_lines[t]
            chk.log('  rejected: trace %s act %s skip=%r\n      before %s\n      after  %s' % (
                ls[l - 1]['tr'], json.dumps(ls[l - 1]['act']), ls[l - 1].get('skip'), json.dumps(ls[l - 2]['st']), json.dumps(ls[l - 1]['st'])))
        for t in all_lines:
            for ln in all_lines[t]:
                if ln.get('skip'):
                    chk.log('  not enabled: trace %s act %s: %s' % (ln['tr'], ln['act']['a'], ln['skip']))
                    break
    ntr = sum(len({ln['tr'] for ln in all_lines[t]}) for t in all_lines)
    nlines = sum(len(all_lines[t]) for t in all_lines)
    return {
        'traces': ntr, 'lines': nlines, 'bad_traces': bad_traces, 'drift': drift, 'rejected': len(rej_all), 'skips': skips,
        'false_instances': len([1 for _, f, _ in bad_all if f in formulas]),
        'all_lines': all_lines,
    }


def nontrivial_reorg(s):
    """A script is non-trivial for chain properties if the peer's best chain changes at least once."""
    return any(x['a'] == 'PeerAdvance' for x in s['steps'])
