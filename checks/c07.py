"""C07 -- safe is reported only when warranted, once, and never after unsafe."""
from . import txpipeline as tp
FORMULAS = {'SafeWarranted', 'SafeWithoutConflict', 'SafeOnlyWarranted', 'SafeOnce', 'NeverBoth', 'CancImpliesUnsafe', 'StickyUnsafe', 'SafeEventually', 'TrustSticky', 'NoError', 'NoPanic'}
def main(argv):
    tp.standard('C07', FORMULAS,
                'scripts = TLC simulation behaviours of TxPipeline mixing untrusted/trusted arrivals and inventories, conflicts before and after the '
                'delay expiry, clock ticks, iterations of the real safe-delay checker, confirmations and a restart; non-trivial = the checker runs '
                'after a tick with an unconfirmed transaction tracked',
                lambda s: tp.has(s, 'Checker', 'Tick', 'ConsumeB'), argv)
