"""C13 -- blocks are fetched in order within a bounded window and processed in order.

Module BlockRequests (spec/BlockRequests.tla) is the reference queue model of the property.
model    : TLC, exhaustive, small constants (every call sequence up to the bound).
generate : tlc -simulate of Sim_BlockRequests at the code's constants (W = 10, 100 MB) + attack scripts.
replay   : each script is executed call by call on the real state.State (harness/state).
judge    : Props_BlockRequests (the C13 formulas on every recorded state/step) and
           Trace_BlockRequests (every recorded call, return value and state must be the model's step).
For this property the step-by-step comparison with the reference model *is* the property, so a
rejected line is a violation (formula "Conformance").
"""
from vf import core, pipeline

PAR_BIG = [0, 1, 2, 3, 4, 5, 6, 7, 8, 9, 10, 11, 3, 13]
VOCAB = {'AddBlockRequest', 'AddBlock', 'NextBlock', 'GetNext', 'ClearAll', 'ClearAfter'}


def nontrivial(script):
    """A script is non-trivial if it issues a request, buffers a block and pops one."""
    acts = {(s['a'], s.get('rs') or (s.get('ri', 0) != 0)) for s in script['steps']}
    return ('AddBlockRequest', 'send') in acts and ('AddBlock', 'ok') in acts and ('NextBlock', True) in acts


def is_wire_replay(chk):
    import json
    return json.load(open(chk.replay)).get('replay', {}).get('script', {}).get('module') == 'BlockLoop'


def is_cs_replay(chk):
    import json
    return 'tree' in json.load(open(chk.replay)).get('replay', {}).get('script', {})


# headers messages in which a fork or an unconnected header follows headers that were placed in the window (a peer that is not well behaved)
MIXED = [
    ('fork-after-placed', 4, [1, 2, 3, 5]), ('fork-after-placed-2', 4, [2, 3, 4, 5]), ('unknown-after-placed', 4, [1, 2, 8]),
    ('fork-then-more', 7, [1, 2, 3, 5, 6]), ('known-then-fork', 4, [1, 1, 2, 3, 5]),
]


def headers_batch(chk, thorough):
    """C13 through the real headers handler: whatever a headers message contains, every block it leaves unfilled in the download
    window has been asked for (formula RequestsInFlight on ChainSync traces, adversarial environment included)."""
    import json
    from . import chainsync as cs
    if chk.replay:
        scripts = [json.load(open(chk.replay))['replay']['script']]
    else:
        k = 3 if thorough else 1
        scripts = cs.gen(chk, 'adversarial', 'Par7', 120 * k, 80, chk.seed * 100 + 61) + cs.gen(chk, 'racy', 'Par14', 30 * k, 140, chk.seed * 100 + 62)
        chk0 = {'a': 'Check', 'm': {'t': 'hdr', 'hs': [], 'b': 0, 'f': 0}, 'r': {'t': 'gd', 'b': 0, 'loc': []}, 't': 0, 'k': False}
        for name, ptip, hs in MIXED:
            adv = dict(chk0, a='AdvMsg', m={'t': 'hdr', 'hs': hs, 'b': 0, 'f': 0})
            scripts.append({'id': 'directed-' + name, 'steps': [chk0, adv], 'complete': False, 'adv': True, 'env': 'attack', 'tree': 'Par7', 'ptip': ptip})
    res = cs.run(chk, scripts, {'RequestsInFlight', 'WindowOK', 'OrderedReq', 'NoPanic'}, [])
    return {'scripts': len(scripts), 'lines': res['lines'], 'rejected': res['rejected'], 'false_instances': res['false_instances']}


def wire_batch(chk, thorough):
    """C13 at the level of the wire (spec/BlockLoop.tla): the real headers handler, block handler and processBlocks loop; every
    getdata(block) queued for the connection is recorded.  Each block at most once, in chain order, at most W outstanding."""
    import json
    import os
    if chk.replay:
        rp = json.load(open(chk.replay))['replay']['script']
        scripts = [{'id': rp['id'], 'steps': rp['steps']}]
        m = None
    else:
        m = None
        if not os.environ.get('VERIF_SKIP_MODEL'):
            m = pipeline.model_check(chk, 'BlockLoop', 'MC_BlockLoop_quick.cfg', workers=8, timeout=900,
                                     subst={'N = 6': 'N = 8', 'MaxSteps = 22': 'MaxSteps = 30'} if thorough else None)
            if not m.ok:
                chk.infra('model checking BlockLoop did not pass: %s %s' % (m.kind, m.violated))
        scripts = []
        for k in range(3 if thorough else 1):
            ss = pipeline.sim_scripts(chk, 'BlockLoop', 'Sim_BlockLoop.cfg', num=40, depth=70, seed=chk.seed * 100 + 51 + k, prefix='wire')
            scripts += [{'id': s['id'], 'steps': s['steps']} for s in ss]
    lines, _ = pipeline.replay_parallel(chk, 'spynode', 'TestVerifReplayBlockLoop', {'n': 16}, scripts, nproc=14)
    chk.log('replayed %d download scenarios on the real headers handler / block handler / processBlocks loop: %d trace lines' % (len(scripts), len(lines)))
    bad, rej = [], []
    for sel, rs, r in pipeline.tlc_lines_parallel(chk, 'Props_BlockLoop', 'Props_BlockLoop.cfg', lines, 'props_result.json', 4, 900):
        bad += [(f, sel[j - 1]) for f, j in rs['bad']]
    for sel, rs, r in pipeline.tlc_lines_parallel(chk, 'Trace_BlockLoop', 'Trace_BlockLoop.cfg', lines, 'trace_result.json', 4, 900):
        rej += [sel[j - 1] for j in rs['rej']]
    ids = {s['id']: s for s in scripts}
    seen = set()
    for f, l in sorted(bad, key=lambda x: x[1]):
        ln = lines[l - 1]
        if (ln['tr'], f) in seen:
            continue
        seen.add((ln['tr'], f))
        idx = [k for k, x in enumerate(lines) if x['tr'] == ln['tr']]
        i = idx.index(l - 1)
        chk.violation(f, 'download scenario %s step %d %s: block requests written to the connection so far %s, %d blocks processed, window %s' % (
            ln['tr'], i, json.dumps(ln['act']), ln['st']['wire'], ln['st']['done'], [(r['b'], r['f']) for r in ln['st']['req']]),
            {'script': {'id': ln['tr'], 'module': 'BlockLoop', 'steps': ids[ln['tr']]['steps'][:i]}}, {'line': ln})
    drift = sorted({lines[l - 1]['tr'] for l in rej})
    if drift:
        chk.notes.append('BlockLoop conformance drift: %d rejected lines (scenarios %s)' % (len(rej), drift[:5]))
        chk.log('DRIFT: Trace_BlockLoop rejected %d recorded steps (scenarios %s)' % (len(rej), drift[:5]))
        l = rej[0]
        chk.log('  rejected: %s skip=%r\n     before %s\n     after  %s' % (lines[l - 1]['act'], lines[l - 1]['skip'], json.dumps(lines[l - 2]['st']), json.dumps(lines[l - 1]['st'])))
    return {'scenarios': len(scripts), 'lines': len(lines), 'rejected': len(rej), 'false_instances': len(bad),
            'max_requests_on_wire': max([len(l['st']['wire']) for l in lines] or [0]),
            'model_states': m.distinct if m else 0}


def main(argv):
    chk = core.Check('C13', 'model_checking', argv)
    thorough = chk.tier == 'thorough'

    # model
    r = pipeline.model_check(chk, 'BlockRequests',
                             'MC_BlockRequests_thorough.cfg' if thorough else 'MC_BlockRequests_quick.cfg',
                             workers=12 if thorough else 8, timeout=1500 if thorough else 300, heap='24g' if thorough else None)
    scripts = []
    if r.violated and r.trace:
        scripts.append(pipeline.counterexample_script(r))
    elif not r.ok:
        chk.infra('model checking did not complete:\n' + r.stdout[-2000:])

    # generate
    if chk.replay:
        import json
        rp = json.load(open(chk.replay))
        scripts = [rp['replay']['script']] if 'script' in rp.get('replay', {}) else [rp['replay']]
    else:
        scripts += pipeline.attack_scripts('C13', 'BlockRequests')
        nsim = 6 if thorough else 1
        for k in range(nsim):
            scripts += pipeline.sim_scripts(chk, 'BlockRequests', 'Sim_BlockRequests.cfg',
                                            num=500 if thorough else 150, depth=150 if thorough else 100,
                                            seed=chk.seed * 1000 + k)
    ids = {}
    for s in scripts:
        ids[s['id']] = s

    # replay on the real code
    payload = {'par': PAR_BIG, 'scripts': [{'id': s['id'], 'steps': s['steps']} for s in scripts]}
    lines, out, tracefile = pipeline.replay(chk, 'state', 'TestVerifReplayBlockRequests', payload)
    groups = pipeline.by_trace(lines)
    chk.log('replayed %d scripts on the real code: %d trace lines' % (len(scripts), len(lines)))

    # judge
    n, bad = pipeline.judge(chk, 'BlockRequests', tracefile)
    n2, rej = pipeline.conform(chk, 'BlockRequests', tracefile)
    if n != len(lines) or n2 != len(lines):
        chk.infra('TLC read %d/%d lines, harness wrote %d' % (n, n2, len(lines)))

    def report(formula, line):
        ln = lines[line - 1]
        sc = ids.get(ln['tr'], {})
        first = groups[ln['tr']][0]
        chk.violation(formula,
                      'trace %s step %d: after %s(b=%s, sz=%s) -> rs=%r ri=%s the real state is %s' % (
                          ln['tr'], line - first, ln['a'], ln['b'], ln['sz'], ln['rs'], ln['ri'], ln['st']),
                      {'script': {'id': ln['tr'], 'steps': sc.get('steps', [])[:line - first]}, 'line': ln,
                       'attack': sc.get('attack')},
                      {'line': ln, 'prev': lines[line - 2] if line > first else None, 'formula': formula})

    per_trace_first = {}
    for formula, line in sorted(bad, key=lambda x: x[1]):
        tr = lines[line - 1]['tr']
        if (tr, formula) not in per_trace_first:      # report the first false instance per trace and formula
            per_trace_first[(tr, formula)] = line
            report(formula, line)
    for line in rej:
        report('Conformance', line)

    bad_traces = {lines[l - 1]['tr'] for _, l in bad} | {lines[l - 1]['tr'] for l in rej}
    if r.violated and r.trace and 'model-cex-%s' % r.violated not in bad_traces:
        chk.infra('the model violates %s but the real code does not on the same calls: the model is wrong '
                  '(counterexample: %s)' % (r.violated, [s['a'] for s in scripts[0]['steps']]))

    wire = wire_batch(chk, thorough) if not chk.replay or is_wire_replay(chk) else None
    inflight = headers_batch(chk, thorough) if not chk.replay or is_cs_replay(chk) else None

    distinct_nt = len({core.script_hash(s['steps']) for s in scripts if nontrivial(s)})
    maxwin = max(len(l['st']['req']) for l in lines)
    chk.finish({
        'states': r.distinct, 'transitions': r.generated,
        'traces_validated_against_impl': len(groups) - len(bad_traces),
        'evaluations': len(scripts), 'distinct_nontrivial': distinct_nt,
        'rule': 'scripts = TLC simulation behaviours of Sim_BlockRequests (W=10, 14-block tree with a fork, sizes 0/25/75 MB) '
                '+ shortest counterexamples of 11 mutant models; distinct by hash of the call sequence; non-trivial = '
                'contains a sent request, a buffered block and a successful pop',
        'samples': [{'id': s['id'], 'steps': s['steps'][:25]} for s in scripts[:2] + scripts[-1:]],
        'trace_lines': len(lines), 'max_window_reached': maxwin,
        'paused_states': sum(1 for l in lines if l['st']['pend'] > 4),
        'conformance_rejections': len(rej), 'false_formula_instances': len(bad),
        'model_cfg': 'W=3, 6-block tree, sizes {1,2}, MaxPend=2 (exhaustive)' if not thorough else 'W=4, 8-block tree (exhaustive)',
        'checker_cmd': 'tlc MC_BlockRequests / Props_BlockRequests / Trace_BlockRequests; MC_BlockLoop / Props_BlockLoop / Trace_BlockLoop',
        'wire_batch': wire, 'headers_batch': inflight,
        'exhaustive': False,
    }, assumptions=[
        'the projection reads blocksRequested/blocksToRequest/pendingBlockSize/lastSavedHash under state.lock (overlay accessor)',
        'block sizes are multiples of 25 MB; wire.Block is a stub whose SerializeSize() is the scripted size',
        'the exhaustive model run uses W=3; the code constant W=10 is exercised by simulation and attack scripts only',
    ])
