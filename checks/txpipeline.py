"""Shared driver for the properties decided on spec/TxPipeline.tla (C03, C04, C05, C06, C07, C11).

model    : TLC, exhaustive, MC_TxPipeline (3 transactions with a double spend, one block, arrivals from trusted/untrusted
           connections and local submission, inventories, ticks, the safe-delay checker, a clean restart).
generate : tlc -simulate of Sim_TxPipeline over three transaction universes (conflicts on one outpoint, partial overlap over
           two outpoints, relevant/irrelevant mixes, one or two blocks), sequential and racing (consumer parked after the
           mempool add while a block is processed), plus target witnesses.
replay   : harness/spynode/txpipeline_test.go feeds the real message handlers, SendTx, processUnconfirmedTx (parked at the
           hook utx.afterMempool), ProcessBlock, one iteration of checkTxDelays (hook delay.loop), timestamp shifting and
           clean restarts on the same storage; after every step the mempool, outpoint index, unconfirmed set, tx state
           records and all notifications (with independently verified merkle proofs and spent outputs) are logged.
judge    : Props_TxPipeline (every variable = recorded projection of the real node; property formulas + Go-side facts).
conform  : Trace_TxPipeline.
"""
import json
import os

from vf import core, pipeline, tlaval, tlc
from . import signatures as sig

UNIVERSES = {
    'U4': {'nt': 4, 'ins': [[1], [1], [1, 2], [3]], 'rel': [True, True, True, True], 'blk': [[2], [4, 3]],
           'subst': {}},
    'U4b': {'nt': 4, 'ins': [[1], [1], [1, 2], [3]], 'rel': [True, False, True, True], 'blk': [[1, 4], [2]],
            'subst': {'Rel <- Rel4': 'Rel <- Rel4b', 'Blk <- Blk4': 'Blk <- Blk4b'}},
    # reorganisation universes: block 1 is orphaned and replaced by block 2 (which confirms tx 1 again / the conflicting tx 2)
    'R3': {'nt': 3, 'ins': [[1], [1], [2]], 'rel': [True, True, False], 'blk': [[1], [1, 3]],
           'subst': {'NT = 4': 'NT = 3', 'Ins <- Ins4': 'Ins <- Ins3', 'Rel <- Rel4': 'Rel <- Rel3', 'Blk <- Blk4': 'Blk <- BlkR', 'MaxReorg = 0': 'MaxReorg = 1'}},
    'R3b': {'nt': 3, 'ins': [[1], [1], [2]], 'rel': [True, True, False], 'blk': [[1, 3], [2]],
            'subst': {'NT = 4': 'NT = 3', 'Ins <- Ins4': 'Ins <- Ins3', 'Rel <- Rel4': 'Rel <- Rel3', 'Blk <- Blk4': 'Blk <- BlkR2', 'MaxReorg = 0': 'MaxReorg = 1'}},
    # children of a tracked parent (output id 50+p = output 0 of transaction p): spent outputs resolved locally and by the fetcher
    'P4': {'nt': 4, 'ins': [[1], [2, 51], [51], [2]], 'rel': [True] * 4, 'blk': [[1], [3]],
           'subst': {'Ins <- Ins4': 'Ins <- InsP', 'Rel <- Rel4': 'Rel <- RelP', 'Blk <- Blk4': 'Blk <- BlkP'}},
    # four spenders of one outpoint; the block confirms the fourth while up to three are in the mempool
    'Q4': {'nt': 4, 'ins': [[1], [1], [1], [1]], 'rel': [True] * 4, 'blk': [[4]],
           'subst': {'Ins <- Ins4': 'Ins <- InsQ', 'Rel <- Rel4': 'Rel <- RelQ', 'Blk <- Blk4': 'Blk <- BlkQ'}},
    'U5': {'nt': 5, 'ins': [[1], [2], [2, 3], [3], [1, 2]], 'rel': [True] * 5, 'blk': [[4]],
           'subst': {'NT = 4': 'NT = 5', 'Ins <- Ins4': 'Ins <- Ins5', 'Rel <- Rel4': 'Rel <- Rel5', 'Blk <- Blk4': 'Blk <- Blk5'}},
    'U3b': {'nt': 3, 'ins': [[1], [1], [2]], 'rel': [True, False, False], 'blk': [[2, 3]],
            'subst': {'NT = 4': 'NT = 3', 'Ins <- Ins4': 'Ins <- Ins3', 'Rel <- Rel4': 'Rel <- Rel3b', 'Blk <- Blk4': 'Blk <- Blk3'}},
    'U3': {'nt': 3, 'ins': [[1], [1], [2]], 'rel': [True, True, False], 'blk': [[2, 3]],
           'subst': {'NT = 4': 'NT = 3', 'Ins <- Ins4': 'Ins <- Ins3', 'Rel <- Rel4': 'Rel <- Rel3', 'Blk <- Blk4': 'Blk <- Blk3'}},
}


def model(chk, name, subst, workers=14, timeout=1500, heap='24g'):
    d = chk.scratch(tlc.stage())
    cfg = open(os.path.join(d, 'MC_TxPipeline_quick.cfg')).read()
    for a, b in subst.items():
        if a not in cfg:
            chk.infra('model config substitution %r does not apply' % a)
        cfg = cfg.replace(a, b)
    open(os.path.join(d, 'x.cfg'), 'w').write(cfg)
    r = tlc.run(d, 'MC_TxPipeline', 'x.cfg', workers=workers, timeout=timeout, heap=heap)
    chk.log('model %s: %d generated, %d distinct, depth %d, %.1fs -> %s' % (
        name, r.generated, r.distinct, r.depth, r.wall, 'ok' if r.ok else '%s %s' % (r.kind, r.violated)))
    if not r.ok and not r.trace:
        chk.infra('model run %s failed:\n%s' % (name, r.stdout[-2500:]))
    return r


def gen(chk, uni, num, depth, seed, race=False, extra=None):
    sub = dict(UNIVERSES[uni]['subst'])
    sub.update(extra or {})
    if race:
        sub['Race = FALSE'] = 'Race = TRUE'
    ss = pipeline.sim_scripts(chk, 'TxPipeline', 'Sim_TxPipeline.cfg', num=num, depth=depth, seed=seed,
                              prefix='%s%s' % (uni, '-race' if race else ''), subst=sub)
    return [{'id': s['id'], 'steps': s['steps'], 'uni': uni, 'race': race} for s in ss]


def run(chk, scripts, formulas):
    ids = {s['id']: s for s in scripts}
    all_lines = {}
    bad_all, rej_all = [], []
    for uni in UNIVERSES:
        ss = [s for s in scripts if s['uni'] == uni]
        if not ss:
            continue
        u = UNIVERSES[uni]
        base = {'nt': u['nt'], 'ins': u['ins'], 'rel': u['rel'], 'blk': u['blk']}
        sl = [{'id': s['id'], 'steps': s['steps']} for s in ss]
        lines, tracefile = pipeline.replay_parallel(chk, 'spynode', 'TestVerifReplayTxPipeline', base, sl, nproc=14)
        chk.log('replayed %d scripts (%s) on the real node: %d trace lines' % (len(ss), uni, len(lines)))
        res = pipeline.tlc_lines_parallel(chk, 'Props_TxPipeline', 'Props_TxPipeline.cfg', lines, 'props_result.json', 6, 1800, u['subst'])
        bad = []
        for sel, rs, r in res:
            bad += [[f, sel[j - 1]] for f, j in rs['bad']]
        res = pipeline.tlc_lines_parallel(chk, 'Trace_TxPipeline', 'Trace_TxPipeline.cfg', lines, 'trace_result.json', 6, 1800, u['subst'])
        rej = []
        for sel, rs, r in res:
            rej += [sel[j - 1] for j in rs['rej']]
        chk.log('judge+conform (%s): %d false formula instances, %d rejected lines' % (uni, len(bad), len(rej)))
        all_lines[uni] = lines
        bad_all += [(uni, f, l) for f, l in bad]
        rej_all += [(uni, l) for l in rej]
    seen, bad_traces = set(), set()
    for uni, f, l in sorted(bad_all, key=lambda x: (x[0], x[2])):
        if f not in formulas:
            continue
        lines = all_lines[uni]
        ln = lines[l - 1]
        bad_traces.add(ln['tr'])
        if (ln['tr'], f) in seen:
            continue
        seen.add((ln['tr'], f))
        idx = [k for k, x in enumerate(lines) if x['tr'] == ln['tr']]
        trace = [lines[k] for k in idx]
        i = idx.index(l - 1)
        st = ln['st']
        chk.violation(f, 'trace %s (%s) line %d after %s(%s,%s)%s: notifications=%s un=%s st=%s mp=%s idx=%s' % (
            ln['tr'], uni, i, ln['act']['a'], ln['act']['t'], ln['act']['s'], (' [' + ln['skip'] + ']') if ln['skip'] else '',
            [(n['k'], n['t'], 'S' * n['safe'] + 'U' * n['unsafe'] + 'C' * n['canc'] + 'P' * n['proof']) for n in st['dl']],
            [(int(u_['in']), int(u_['safe']), int(u_['unsafe']), int(u_['tr'])) for u_ in st['un']],
            [(int(x['has']), int(x['safe']), int(x['unsafe']), int(x['canc']), int(x['proof'])) for x in st['st']],
            [m['st'] for m in st['mp']], st['idx']),
            {'script': {'id': ln['tr'], 'uni': uni, 'steps': [x['act'] for x in trace[1:i + 1] if x['act']['a'] != 'final']},
             'universe': UNIVERSES[uni]},
            {'trace': trace, 'i': i, 'uni': UNIVERSES[uni], 'line': ln, 'race': ids.get(ln['tr'], {}).get('race'), 'sig': sig})
    drift = sorted({all_lines[u][l - 1]['tr'] for u, l in rej_all})
    skips = sum(1 for u in all_lines for ln in all_lines[u] if ln.get('skip'))
    if drift or skips:
        chk.notes.append('conformance drift: %d rejected lines (traces %s), %d scripted steps not enabled or failed' % (len(rej_all), drift[:5], skips))
        chk.log('DRIFT: Trace_TxPipeline rejected %d recorded steps (traces %s); %d steps skipped/failed' % (len(rej_all), drift[:5], skips))
        for u, l in rej_all[:2]:
            ls = all_lines[u]
            chk.log('  rejected: trace %s act %s skip=%r\n      before %s\n      after  %s' % (
                ls[l - 1]['tr'], ls[l - 1]['act'], ls[l - 1].get('skip'), json.dumps(ls[l - 2]['st'])[:1500], json.dumps(ls[l - 1]['st'])[:1500]))
    return {'traces': sum(len({ln['tr'] for ln in all_lines[u]}) for u in all_lines),
            'lines': sum(len(all_lines[u]) for u in all_lines), 'bad_traces': bad_traces, 'drift': drift,
            'rejected': len(rej_all), 'skips': skips,
            'false_instances': len([1 for _, f, _ in bad_all if f in formulas]),
            'notifications': sum(len(ln['st']['dl']) for u in all_lines for ln in all_lines[u] if ln.get('fin')), 'all_lines': all_lines}


def standard(prop, formulas, text_rule, nontrivial, argv, invariants=None, extra_models=None):
    """A complete check for one transaction property."""
    chk = core.Check(prop, 'model_checking', argv)
    thorough = chk.tier == 'thorough'
    sub = {'MaxArr = 4': 'MaxArr = 3'} if not thorough else {}
    if invariants:
        import re
        sub_inv = 'INVARIANTS ' + ' '.join(invariants)
    models = [('exhaustive', model(chk, 'TxPipeline invariants (3 txs, double spend, 1 block, restart, checker)', sub,
                                   timeout=2400 if thorough else 900))]
    if not os.environ.get('VERIF_SKIP_MODEL'):
        # reorganisation: block 1 orphaned, replaced by a block that confirms tx 1 again (BlkR) or the conflicting tx 2 (BlkR2)
        rsub = {'MaxReorg = 0': 'MaxReorg = 1', 'MaxRestart = 1': 'MaxRestart = 0', 'MaxCheck = 2': 'MaxCheck = 1', 'MaxClock = 3': 'MaxClock = 2',
                'INVARIANTS AtMostOnceNew': 'INVARIANTS ProofValid AtMostOnceNew'}
        if not thorough:
            rsub['MaxArr = 4'] = 'MaxArr = 3'
        for nm, blk in (('reorg-same-tx', 'BlkR'), ('reorg-conflicting-tx', 'BlkR2')):
            x = dict(rsub)
            x['Blk <- Blk3'] = 'Blk <- ' + blk
            models.append((nm, model(chk, 'TxPipeline with a reorganisation (%s)' % blk, x, timeout=2400)))
    scripts = []
    for name, r in models:
        if r.violated and r.trace:
            scripts.append({'id': 'model-cex-%s' % name, 'uni': 'U3', 'race': False,
                            'steps': [tlaval.plain(s['state']['act']) for s in r.trace[1:]]})
    if chk.replay:
        rp = json.load(open(chk.replay))['replay']
        scripts = [{'id': rp['script']['id'], 'uni': rp['script']['uni'], 'race': False, 'steps': rp['script']['steps']}]
    else:
        for a in pipeline.attack_scripts(prop, 'TxPipeline'):
            scripts.append({'id': a['id'], 'uni': a.get('uni', 'U3'), 'race': False, 'steps': a['steps'], 'attack': a.get('attack')})
        k = 4 if thorough else 1
        seed = chk.seed * 100 + int(prop[1:])
        scripts += gen(chk, 'U4', 120 * k, 45, seed + 1)
        scripts += gen(chk, 'U4b', 90 * k, 45, seed + 2)
        scripts += gen(chk, 'U3', 90 * k, 40, seed + 3)
        scripts += gen(chk, 'U4', 60 * k, 45, seed + 4, race=True)
        scripts += gen(chk, 'R3', 50 * k, 45, seed + 5)
        scripts += gen(chk, 'R3b', 50 * k, 45, seed + 6)
        scripts += gen(chk, 'R3', 30 * k, 45, seed + 7, race=True)
        scripts += gen(chk, 'P4', 70 * k, 45, seed + 8)
        scripts += gen(chk, 'Q4', 60 * k, 40, seed + 9)
    res = run(chk, scripts, formulas)
    for name, r in models:
        if r.violated and ('model-cex-%s' % name) not in res['bad_traces']:
            chk.infra('new unreproduced model counterexample: %s (%s)' % (name, r.violated))
    chk.finish({
        'states': sum(r.distinct for _, r in models), 'transitions': sum(r.generated for _, r in models),
        'traces_validated_against_impl': res['traces'] - len(res['drift']),
        'evaluations': len(scripts),
        'distinct_nontrivial': len({core.script_hash(s['steps']) + s['uni'] for s in scripts if nontrivial(s)}),
        'rule': text_rule,
        'samples': [{'id': s['id'], 'universe': s['uni'], 'steps': [[x['a'], x['t'], x['s']] for x in s['steps']][:40]} for s in scripts[:2] + scripts[-1:]],
        'trace_lines': res['lines'], 'notifications_delivered': res['notifications'],
        'conformance_rejections': res['rejected'], 'steps_failed_or_not_enabled': res['skips'],
        'false_formula_instances': res['false_instances'], 'formulas': sorted(formulas),
        'models': [{'name': n, 'states': r.distinct, 'result': 'ok' if r.ok else r.violated} for n, r in models],
        'checker_cmd': 'tlc MC_TxPipeline / Props_TxPipeline / Trace_TxPipeline', 'exhaustive': False,
    }, assumptions=[
        'the node is in sync while transactions are processed, except between a reorganisation and its replacement block; the relevance filter is a single subscribed 20-byte push (the filter itself is C08)',
        'consumer, block and checker steps are atomic except for the consumer parked after the mempool add (race scripts)',
        'time is advanced by shifting stored timestamps (1 tick = 1 s, safe delay 1.5 s)',
        'transaction universes of 3-4 transactions over 2-3 outpoints, 1-2 blocks; reorganisations orphan the top block once and replace it',
    ])


def has(s, *acts):
    names = {x['a'] for x in s['steps']}
    return all(a in names for a in acts)
