"""C16 -- remote client calls return the response to their own request; the outputs lookup is exact."""
import json
import os

from vf import core, gobuild, pipeline, tlc
from . import remoteclient as rc

FORMULAS = {'Correlated', 'RespondIsolated', 'Answered', 'RejectSurfaces', 'TimeoutIsolated', 'TimeoutOnTime', 'OutputsExact', 'NoPanic'}


def outputs(chk, thorough):
    d = chk.scratch(tlc.stage())
    if thorough:
        p = os.path.join(d, 'OutputsCases.cfg')
        cfg = open(p).read().replace('MaxLen = 3', 'MaxLen = 4')
        open(p, 'w').write(cfg)
    r = tlc.run(d, 'OutputsCases', 'OutputsCases.cfg', workers=1, timeout=1200, heap='8g')
    p = os.path.join(d, 'outputs_cases.json')
    if not os.path.exists(p):
        chk.infra('OutputsCases enumeration failed:\n' + r.stdout[-2000:])
    cases = json.load(open(p))
    chk.log('enumerate OutputsCases: %d outpoint lists (%d expected to succeed), %.1fs' % (len(cases), sum(1 for c in cases if not c['expect']['err']), r.wall))
    binp = pipeline.build(chk, 'client')
    w = chk.scratch(tlc.scratch('vf-run-'))
    sp, tp = os.path.join(w, 'oc.json'), os.path.join(w, 'oc.ndjson')
    json.dump({'base': 0, 'scripts': cases}, open(sp, 'w'))
    rcode, out = gobuild.run_test(binp, 'TestVerifOutputsCases', {'VERIF_SCRIPTS': sp, 'VERIF_TRACE': tp}, timeout=1800, cwd=w)
    if rcode != 0:
        chk.infra('outputs driver failed:\n' + out[-2000:])
    lines = [json.loads(x) for x in open(tp) if x.strip()]
    for ln in lines:
        ln['tr'] = ln['id'] % 4
    res = pipeline.tlc_lines_parallel(chk, 'Props_Outputs', 'Props_Outputs.cfg', lines, 'props_result.json', 4, 1800)
    nbad = 0
    seen = set()
    for sel, rs, rr in res:
        for f, j in rs['bad']:
            ln = lines[sel[j - 1] - 1]
            nbad += 1
            if f in seen and nbad > 3:
                continue
            seen.add(f)
            c = cases[ln['id']]
            chk.violation(f, 'outputs lookup %s: client returned %s %s, specification says %s %s' % (
                [(o['t'], o['i']) for o in c['ops']], ln['got'], ln['text'], ln['expect'], ('PANIC ' + ln['panic']) if ln['panic'] else ''),
                {'case': c}, {'line': ln})
    chk.log('outputs lookup: %d cases through the real GetOutputs, %d mismatches' % (len(lines), nbad))
    return len(cases), nbad


def main(argv):
    chk = core.Check('C16', 'model_checking', argv)
    thorough = chk.tier == 'thorough'
    ncases, nbad = outputs(chk, thorough)
    rc.standard(chk, FORMULAS,
                lambda s: sum(1 for x in s['steps'] if x['a'] == 'Call') >= 2 and sum(1 for x in s['steps'] if x['a'] == 'Respond') >= 2,
                'scenarios = TLC simulation behaviours of RemoteClient (3 concurrent call slots, 8 call kinds, keys 1..3, responses ok / reject / for '
                'another key in any order, late and duplicate responses, time-outs, drops) + directed scenarios; outputs lookup = every outpoint list '
                'up to the length bound over 3 transactions x 4 indexes; non-trivial = at least two calls and two responses',
                ['save-transactions and send-expanded calls use the same routing code as send-tx and are not scripted separately',
                 'a time-out step waits for the real request time-out (2.5 s); no clock is faked'],
                {'outputs_cases': ncases, 'outputs_mismatches': nbad})
