"""History predicates that identify known findings on implementation traces (see known_findings.txt).

Each predicate gets the lines of one trace (list of dicts, in order), the index i of the line at which a
formula is false, and the block tree (par[b-1] = parent of b).  It answers: is this the specific history
of that finding?  Anything else that makes the same formula false is reported as a new violation.
"""


def _path(par, b):
    p = []
    while b != 0:
        p.insert(0, b)
        b = par[b - 1]
    return p


def _hdr_steps(trace, upto):
    """(k, message, pre-state) of every handled headers message up to line `upto`."""
    for k in range(1, upto + 1):
        a = trace[k]['act']
        if a['a'] in ('Deliver', 'AdvMsg') and a['m']['t'] == 'hdr' and not trace[k].get('skip'):
            yield k, a['m'], trace[k - 1]['st']


def cs_notify_inflight(trace, i, par):
    """F1: the notification goes out while the only pending block is the one popped by the processor."""
    st = trace[i]['st']
    return st['infl']['pc'] != 'idle' and not st['req'] and not st['toReq']


def cs_revert_during_add(trace, i, par):
    """F2: the header handler reverted the chain while a block had passed its tip check and was not yet added."""
    for k in range(1, i + 1):
        pre, post = trace[k - 1]['st'], trace[k]['st']
        if pre['infl']['pc'] == 'checked' and post['infl']['pc'] == 'checked' and len(post['chain']) < len(pre['chain']):
            return True
    return False


def cs_header_of_inflight(trace, i, par):
    """F23: a headers message containing the block in flight (popped, not yet added) was handled and requests behind it were cleared."""
    for k, m, pre in _hdr_steps(trace, i):
        post = trace[k]['st']
        cleared = len(post['req']) + len(post['toReq']) < len(pre['req']) + len(pre['toReq'])
        if pre['infl']['pc'] != 'idle' and pre['infl']['b'] in m['hs'] and cleared:
            return True
    return False


def cs_unannounced_tip(trace, i, par):
    """F24: the peer's best chain changed and the peer did not announce it by headers (block inv instead: before
    sendheaders, or more than 8 new headers); the node is fully caught up with the peer's chain as it was before
    the unannounced change(s)."""
    adv = []
    for k in range(1, i + 1):
        if trace[k]['act']['a'] == 'PeerAdvance' and not trace[k].get('skip'):
            announced = len(trace[k]['st']['net']) > len(trace[k - 1]['st']['net'])
            adv.append((k, announced))
    tail = []
    for k, announced in reversed(adv):
        if announced:
            break
        tail.append(k)
    if not tail:
        return False
    first = tail[-1]
    before = trace[first - 1]['st']['ptip']
    # no headers answer of the peer after the first unannounced change may have told the node about it
    for k in range(first, i + 1):
        a = trace[k]['act']
        if a['a'] == 'PeerAnswer' and a['r']['t'] == 'gh' and not trace[k].get('skip'):
            return False
    return trace[i]['st']['chain'] == _path(par, before)


def cs_unconnected_headers(trace, i, par):
    """F27: a headers message whose first header does not connect to anything the node knows was dropped
    (possible only when messages are delivered out of order)."""
    for k, m, pre in _hdr_steps(trace, i):
        if not m['hs']:
            continue
        b = m['hs'][0]
        if b < 1 or b > len(par):
            continue
        p = par[b - 1]
        known = {0} | set(pre['chain']) | {r['b'] for r in pre['req']} | set(pre['toReq']) | {pre['lastSaved']}
        if p not in known and b not in known:
            return True
    return False


def cs_duplicate_answer_in_sync(trace, i, par):
    """F39: the node went in sync on a headers message that is a duplicate (an earlier delivery of the same message kept a
    copy in the network) while one of its header requests was still unanswered."""
    kept = []
    for k in range(1, i + 1):
        a = trace[k]['act']
        if a['a'] != 'Deliver' or a['m']['t'] != 'hdr' or trace[k].get('skip'):
            continue
        pre, post = trace[k - 1]['st'], trace[k]['st']
        if not pre['inSync'] and post['inSync'] and a['m']['hs'] in kept and any(r['t'] == 'gh' for r in pre['out'] + post['out']):
            return True
        if a.get('k'):
            kept.append(a['m']['hs'])
    return False


def cs_sibling_of_inflight(trace, i, par):
    """F28: a header extending the stored tip arrived while another block extending the same tip was in flight
    ("Reorg on latest block" judged without the in-flight block)."""
    for k, m, pre in _hdr_steps(trace, i):
        if pre['infl']['pc'] == 'idle':
            continue
        tip = pre['chain'][-1] if pre['chain'] else 0
        fb = pre['infl']['b']
        for b in m['hs']:
            if 1 <= b <= len(par) and b != fb and par[b - 1] == tip and 1 <= fb <= len(par) and par[fb - 1] == tip:
                return True
    return False


def cs_linked_broken(trace, i, par):
    st = trace[i]['st']
    ch = st['chain']
    return any((par[ch[k] - 1] if 1 <= ch[k] <= len(par) else -1) != (ch[k - 1] if k else 0) for k in range(len(ch)))


def tx_block_during_consume(trace, i, uni):
    """F10: a block was processed while the consumer had added transaction t to the mempool but not yet to the unconfirmed
    set (parked at utx.afterMempool), and t is in that block or spends an outpoint spent by a transaction of that block:
    the block takes t for 'seen, not relevant' (no proof), or evicts t as a double spend without a cancel update."""
    for k in range(1, i + 1):
        a = trace[k]['act']
        if a['a'] == 'Block' and not trace[k].get('skip'):
            pre = trace[k - 1]['st']
            if pre['c']['pc'] != 'mid':
                continue
            t = pre['c']['t']
            blk = uni['blk'][a['t'] - 1]
            if t in blk or any(set(uni['ins'][t - 1]) & set(uni['ins'][x - 1]) for x in blk):
                return True
    return False


def tx_safe_after_confirmed_during_consume(trace, i, uni):
    """F10, as seen by the checker: transaction t was confirmed by a block - or evicted by it as a double spend of one of its
    transactions - while the consumer was parked between the mempool add and the unconfirmed add of t; t is then tracked as
    unconfirmed although it has left the mempool, so a conflicting transaction is not held against it.  True iff every safe report
    of line i that has a conflict is such a t."""
    stuck = set()
    for k in range(1, i + 1):
        a = trace[k]['act']
        if a['a'] == 'Block' and not trace[k].get('skip'):
            pre = trace[k - 1]['st']
            if pre['c']['pc'] == 'mid':
                t, blk = pre['c']['t'], uni['blk'][a['t'] - 1]
                if t in blk or any(set(uni['ins'][t - 1]) & set(uni['ins'][x - 1]) for x in blk):
                    stuck.add(t)      # confirmed by that block, or evicted by it as a double spend of one of its transactions
    pre, post = trace[i - 1]['st'], trace[i]['st']
    bad = set()
    for n in post['dl'][len(pre['dl']):]:
        if n['safe'] and not n['proof']:
            for t2 in range(1, len(uni['ins']) + 1):
                if t2 != n['t'] and pre['mp'][t2 - 1]['st'] == 'body' and set(uni['ins'][t2 - 1]) & set(uni['ins'][n['t'] - 1]):
                    bad.add(n['t'])
    return bool(bad) and bad <= stuck

