"""C04 -- confirmations carry valid merkle proofs; bad-merkle blocks are never accepted.

TLA+ side : spec/ProofCases.tla enumerates block shapes (sizes 1..9, 16, 17; every class assignment for sizes <= 5, every one or two
            relevant positions for the larger ones; relevant transactions unseen or delivered unconfirmed, irrelevant ones unseen or seen)
            with the notification each transaction must get; spec/TxPipeline.tla carries the state-machine part (alignment of proofs
            with relevant transactions, new vs update, depth 0) and is checked exhaustively.
code side : each case is realised as a real block on the real node (harness/spynode/txpipeline_test.go); the merkle proof of every
            notification is verified by an independent verifier against the header the node holds at that height and the true index;
            corrupted bodies (transaction added, dropped, swapped, altered under the unchanged header) must be rejected.
judge     : Props_ProofCases (TLC) on the recorded traces; Props_TxPipeline formulas on simulated histories.
"""
import json
import os

from vf import core, pipeline, tlc
from . import txpipeline as tp

FORMULAS = {'ProofCase', 'BadBodyRejected'}
TX_FORMULAS = {'ProofValid', 'ProofDepth', 'BlockDelivers', 'ConfirmedHasProof', 'NoError', 'NoPanic'}


def cases(chk):
    d = chk.scratch(tlc.stage())
    r = tlc.run(d, 'ProofCases', 'ProofCases.cfg', workers=1, timeout=600)
    p = os.path.join(d, 'proof_cases.json')
    if not os.path.exists(p):
        chk.infra('ProofCases enumeration failed:\n' + r.stdout[-2000:])
    cs = json.load(open(p))
    chk.log('enumerate ProofCases: %d block shapes, %.1fs' % (len(cs), r.wall))
    return cs


def script_of(k, c):
    n = c['n']
    uni = {'nt': max(n, 1), 'ins': [[i + 1] for i in range(max(n, 1))], 'rel': [x in ('Ru', 'Rc') for x in c['cls']] or [False],
           'blk': [list(range(1, n + 1))]}
    steps = []
    for i, x in enumerate(c['cls'], 1):
        if x in ('Rc', 'Is'):
            steps += [{'a': 'Arrive', 't': i, 's': 'TT'}, {'a': 'ConsumeA', 't': i, 's': ''}, {'a': 'ConsumeB', 't': i, 's': ''}]
    steps.append({'a': 'Block', 't': 1, 's': ''})
    return {'id': 'case-%d' % k, 'steps': steps, 'exp': c['expect'], 'uni': uni, 'case': c}


def main(argv):
    chk = core.Check('C04', 'model_checking', argv)
    thorough = chk.tier == 'thorough'
    m = tp.model(chk, 'TxPipeline invariants (proof alignment, new vs update, depth)', {'MaxArr = 4': 'MaxArr = 3'} if not thorough else {})
    ms = [m]
    if not os.environ.get('VERIF_SKIP_MODEL'):
        # the confirming block is orphaned and replaced: every delivered proof must be for a block of the chain (ProofValid)
        for blk in ('BlkR', 'BlkR2'):
            ms.append(tp.model(chk, 'TxPipeline with a reorganisation (%s)' % blk, {
                'MaxArr = 4': 'MaxArr = 3' if not thorough else 'MaxArr = 4', 'Blk <- Blk3': 'Blk <- ' + blk, 'MaxReorg = 0': 'MaxReorg = 1',
                'MaxRestart = 1': 'MaxRestart = 0', 'MaxCheck = 2': 'MaxCheck = 1', 'MaxClock = 3': 'MaxClock = 2',
                'INVARIANTS AtMostOnceNew': 'INVARIANTS ProofValid AtMostOnceNew'}))
        for x in ms:
            if not x.ok:
                chk.infra('model checking did not pass: %s %s' % (x.kind, x.violated))
    cs = cases(chk)
    scripts = []
    if chk.replay:
        rp = json.load(open(chk.replay))['replay']
        scripts = [rp['script']]
    else:
        sel = cs if thorough else [c for k, c in enumerate(cs) if c['n'] <= 3 or k % 4 == chk.seed % 4]
        scripts = [script_of(k, c) for k, c in enumerate(sel)]
        # corrupted bodies under the unchanged header, followed by the genuine block
        kinds = ['add', 'drop', 'swap', 'alter']
        for k, c in enumerate([c for c in cs if 2 <= c['n'] <= 4][:: (1 if thorough else 6)]):
            s = script_of(10000 + k, c)
            s['id'] = 'bad-%d' % k
            s['steps'] = s['steps'][:-1] + [{'a': 'BadBlock', 't': 1, 's': kinds[k % 4]}, s['steps'][-1]]
            scripts.append(s)
    sl = [{'id': s['id'], 'steps': s['steps'], 'exp': s['exp'], 'uni': s['uni']} for s in scripts]
    lines, tracefile = pipeline.replay_parallel(chk, 'spynode', 'TestVerifReplayTxPipeline', {'nt': 1, 'ins': [[1]], 'rel': [False], 'blk': [[1]]}, sl, nproc=14)
    nnotes = sum(len(l['st']['dl']) for l in lines if l.get('fin'))
    chk.log('replayed %d block shapes on the real node: %d trace lines, %d notifications with proofs verified independently' % (len(scripts), len(lines), nnotes))
    res = pipeline.tlc_lines_parallel(chk, 'Props_ProofCases', 'Props_ProofCases.cfg', lines, 'props_result.json', 6, 1800)
    bad = []
    for sel_, rs, r in res:
        bad += [[f, sel_[j - 1]] for f, j in rs['bad']]
    ids = {s['id']: s for s in scripts}
    for f, l in sorted(bad, key=lambda x: x[1]):
        ln = lines[l - 1]
        s = ids[ln['tr']]
        chk.violation(f, 'block shape %s (classes %s, expected %s) step %s%s: notifications %s, height %s' % (
            ln['tr'], s.get('case', {}).get('cls'), s['exp'], ln['act'], (' [' + ln['skip'] + ']') if ln['skip'] else '',
            [(n['k'], n['t'], 'proof' if n['proof'] else '', 'valid' if n['pv'] else 'INVALID', n['depth']) for n in ln['st']['dl']], ln['st']['height']),
            {'script': {'id': s['id'], 'steps': s['steps'], 'exp': s['exp'], 'uni': s['uni']}}, {'line': ln})
    # the state-machine part on simulated histories
    sims = []
    if not chk.replay:
        seed = chk.seed * 100 + 4
        sims = tp.gen(chk, 'U4', (200 if thorough else 60), 45, seed + 1) + tp.gen(chk, 'U3', (200 if thorough else 60), 40, seed + 2)
        sims += tp.gen(chk, 'R3', (200 if thorough else 60), 45, seed + 3) + tp.gen(chk, 'R3b', (200 if thorough else 60), 45, seed + 4)
        sims += tp.gen(chk, 'R3', (100 if thorough else 30), 45, seed + 5, race=True)
        for at in pipeline.attack_scripts('C04', 'TxPipeline'):
            sims.append({'id': at['id'], 'uni': at.get('uni', 'U3'), 'race': False, 'steps': at['steps'], 'attack': at.get('attack')})
        old = chk.violation

        r2 = tp.run(chk, sims, TX_FORMULAS)
    sizes = sorted({s.get('case', {}).get('n', 0) + 1 for s in scripts})
    chk.finish({
        'states': sum(x.distinct for x in ms), 'transitions': sum(x.generated for x in ms),
        'traces_validated_against_impl': len(scripts) - len({lines[l - 1]['tr'] for _, l in bad}) + (r2['traces'] - len(r2['drift']) if sims else 0),
        'evaluations': len(scripts) + len(sims),
        'distinct_nontrivial': len({json.dumps(s.get('case', {}).get('cls')) + s['id'][:3] for s in scripts if any(x != 'none' for x in s['exp'])}),
        'rule': 'cases = block shapes enumerated by TLC from spec/ProofCases.tla (block sizes %s; classes Ru/Rc/Iu/Is per transaction) '
                'realised as real blocks; corrupted bodies add/drop/swap/alter under the unchanged header; non-trivial = at least one '
                'relevant transaction in the block' % sizes,
        'samples': [{'id': s['id'], 'classes': s.get('case', {}).get('cls'), 'expect': s['exp']} for s in scripts[:2] + scripts[-2:]],
        'block_sizes': sizes, 'proof_notifications_verified': nnotes, 'trace_lines': len(lines),
        'false_formula_instances': len(bad), 'cases_total_enumerated': len(cs),
        'checker_cmd': 'tlc ProofCases / Props_ProofCases / MC_TxPipeline / Props_TxPipeline', 'exhaustive': thorough,
    }, assumptions=[
        'the hash function and the merkle tree implementation of tokenized/pkg/wire are trusted only as far as the independent verifier agrees with them on every generated block',
        'the independent verifier is the standard Bitcoin merkle branch check with duplicated-layer handling, written separately in the harness',
        'the relevance filter is one subscribed 20-byte push',
    ])
