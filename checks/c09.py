"""C09 -- block store queries stay consistent across add, revert, save and reload.

spec/BlockStoreC.tla : the contract (abstract list of headers, what each query must answer).
spec/BlockStore.tla  : the code layer (transcription of internal/storage/blocks.go with file size K,
                       node.GetHeaders/BlockHash), checked exhaustively by TLC against the contract.
generate : tlc -simulate of Sim_BlockStore (K=4, heights <= 13, both storage back ends) + attack scripts.
replay   : the real BlockRepository at real scale: model height 4q+r = real height 1000q + {0,1,500,999}[r];
           after every call ~120 real queries are recorded (hash/header/time by height, height by hash,
           tip, Header(-1), BlockHash(-1), negative heights, range requests).
judge    : Props_BlockStore recomputes the abstract chain from the recorded calls/results and requires
           every recorded answer to be the abstract chain's answer (this is the property);
           Trace_BlockStore checks the recorded results/answers against the code layer (conformance).
"""
import json
from vf import core, pipeline, tlaval

RHOS = {'RhoReal': [0, 1, 500, 999], 'RhoV1': [0, 2, 998, 999], 'RhoV2': [0, 1, 2, 999], 'RhoV3': [0, 997, 998, 999]}
CFG = {'k': 4, 'rtop': 1000, 'rho': [0, 1, 500, 999], 'maxh': 13, 'maxid': 14}


def stepfn(s):
    return {'mh': len(tlaval.plain(s['abs'])) - 1}


def nontrivial(sc):
    acts = {(s['a'], s.get('rs')) for s in sc['steps']}
    return ('Revert', 'ok') in acts and (('Load', 'ok') in acts or ('Save', 'ok') in acts)


def gen_store_scripts(chk, num, depth, seed):
    out = []
    for rmok in (False, True):
        ss = pipeline.sim_scripts(chk, 'BlockStore', 'Sim_BlockStore.cfg', num=num, depth=depth, seed=seed, stepfn=stepfn,
                                  prefix='sim-rmok' if rmok else 'sim-rmerr',
                                  subst={'RmMissingErr = TRUE': 'RmMissingErr = FALSE'} if rmok else None)
        for s in ss:
            s['rmok'] = rmok
        out += ss
    return out


def replay_and_judge(chk, scripts):
    """Replay BlockStore scripts on the real repository, judge (contract layer) and validate (code layer)."""
    ids = {s['id']: s for s in scripts}
    payload = dict(CFG)
    names = sorted(RHOS)
    for i, s in enumerate(scripts):
        s['rhon'] = names[i % len(names)] if not s.get('rhon') else s['rhon']
    sl = [{'id': s['id'], 'rmok': bool(s.get('rmok')), 'rho': RHOS[s['rhon']], 'steps': s['steps']} for s in scripts]
    lines, tracefile = pipeline.replay_parallel(chk, 'spynode', 'TestVerifReplayBlockStore', payload, sl, nproc=12)
    groups = pipeline.by_trace(lines)
    chk.log('replayed %d scripts on the real BlockRepository: %d trace lines (%d real queries)' % (
        len(scripts), len(lines), len(lines) * (3 * 15 + 5 + 3 + 14 + 48)))

    # judge (contract layer) and conformance (code layer), per height map and back end, all TLC runs in parallel
    from concurrent.futures import ThreadPoolExecutor
    bad, rej_all = [], []
    jobs = []
    for rn in names:
        sel = [i for i, ln in enumerate(lines, 1) if ids[ln['tr']]['rhon'] == rn]
        if sel:
            jobs.append(('judge', rn, None, sel))
        for rmok in (False, True):
            sel2 = [i for i in sel if bool(ids[lines[i - 1]['tr']].get('rmok')) == rmok]
            if sel2:
                jobs.append(('conform', rn, rmok, sel2))

    def run(job):
        kind, rn, rmok, sel = job
        sub = [lines[i - 1] for i in sel]
        subst = {'Rho <- RhoReal': 'Rho <- ' + rn}
        if kind == 'judge':
            res = pipeline.tlc_lines_parallel(chk, 'Props_BlockStore', 'Props_BlockStore.cfg', sub, 'props_result.json', 1, 1800, subst)
            return kind, [[f, sel[j - 1]] for _, rs, _ in res for f, j in rs['bad']], res
        if rmok:
            subst['RmMissingErr = TRUE'] = 'RmMissingErr = FALSE'
        res = pipeline.tlc_lines_parallel(chk, 'Trace_BlockStore', 'Trace_BlockStore.cfg', sub, 'trace_result.json', 2, 1800, subst)
        return kind, [c[j - 1] for c, rs, _ in res for j in rs['rej']], [(c, rs, r) for c, rs, r in res], sel

    with ThreadPoolExecutor(6) as ex:
        results = list(ex.map(run, jobs))
    for job, res in zip(jobs, results):
        if res[0] == 'judge':
            bad += res[1]
        else:
            rej_all += [job[3][j - 1] for j in res[1]]
    chk.log('judge Props_BlockStore + conform Trace_BlockStore: %d TLC jobs, %d false formula instances, %d rejected lines' % (
        len(jobs), len(bad), len(rej_all)))

    return lines, groups, bad, rej_all, ids


def main(argv):
    chk = core.Check('C09', 'model_checking', argv)
    thorough = chk.tier == 'thorough'
    r = pipeline.model_check(chk, 'BlockStore', 'MC_BlockStore_thorough.cfg' if thorough else 'MC_BlockStore_quick.cfg',
                             workers=14 if thorough else 8, timeout=2400 if thorough else 400,
                             heap='24g' if thorough else None)
    r2 = None
    if not thorough:
        r2 = pipeline.model_check(chk, 'BlockStore', 'MC_BlockStore_quick.cfg', workers=8, timeout=400,
                                  subst={'RmMissingErr = TRUE': 'RmMissingErr = FALSE'})
    scripts = []
    for rr in [r, r2]:
        if rr is None:
            continue
        if rr.violated and rr.trace:
            sc = {'id': 'model-cex-%s' % rr.violated, 'rmok': rr is r2,
                  'steps': [dict(tlaval.plain(s['state']['act']), **stepfn(s['state'])) for s in rr.trace[1:]]}
            scripts.append(sc)
        elif not rr.ok:
            chk.infra('model checking did not complete:\n' + rr.stdout[-2000:])

    if chk.replay:
        rp = json.load(open(chk.replay))
        scripts = [rp['replay']['script']]
    else:
        for a in pipeline.attack_scripts('C09', 'BlockStore'):
            for rmok in (False, True):
                scripts.append({'id': a['id'] + ('-rmok' if rmok else ''), 'rmok': rmok, 'steps': a['steps'], 'attack': a.get('attack')})
        nsim = 5 if thorough else 1
        for k in range(nsim):
            for rmok in (False, True):
                ss = pipeline.sim_scripts(chk, 'BlockStore', 'Sim_BlockStore.cfg', num=400 if thorough else 60,
                                          depth=40 if thorough else 28, seed=chk.seed * 1000 + k, stepfn=stepfn,
                                          prefix='sim-rmok' if rmok else 'sim-rmerr',
                                          subst={'RmMissingErr = TRUE': 'RmMissingErr = FALSE'} if rmok else None)
                for s in ss:
                    s['rmok'] = rmok
                scripts += ss
    lines, groups, bad, rej_all, ids = replay_and_judge(chk, scripts)

    def report(formula, line):
        ln = lines[line - 1]
        sc = ids.get(ln['tr'], {})
        first = groups[ln['tr']][0]
        o = ln['obs']
        chk.violation(formula,
                      'trace %s step %d (%s back end): after %s(%s) -> %s the real store answers h=%s tip=%s hash[0..]=%s neg=%s ids=%s' % (
                          ln['tr'], line - first, 'lenient' if sc.get('rmok') else 'erroring', ln['a'], ln['t'], ln['rs'],
                          o['h'], o['tip'], o['hs'], o['neg'], o['ids']),
                      {'script': {'id': ln['tr'], 'rmok': bool(sc.get('rmok')), 'steps': sc.get('steps', [])[:line - first]},
                       'attack': sc.get('attack')},
                      {'line': ln, 'formula': formula, 'steps': [(s['a'], s.get('t')) for s in sc.get('steps', [])[:line - first]]})

    seen = set()
    for formula, line in sorted(bad, key=lambda x: x[1]):
        tr = lines[line - 1]['tr']
        if (tr, formula) not in seen:
            seen.add((tr, formula))
            report(formula, line)
    drift = sorted({lines[l - 1]['tr'] for l in rej_all})
    if drift:
        chk.notes.append('conformance drift (code layer of the model rejected %d lines, first of traces %s)' % (len(rej_all), drift[:5]))
        chk.log('DRIFT: the code layer of BlockStore.tla rejected %d recorded steps (traces %s)' % (len(rej_all), drift[:5]))
    bad_traces = {lines[l - 1]['tr'] for _, l in bad}
    for rr in [r, r2]:
        if rr is not None and rr.violated and rr.trace and ('model-cex-%s' % rr.violated) not in bad_traces:
            chk.infra('the model violates %s but the real code does not on the same calls (model wrong?)' % rr.violated)

    chk.finish({
        'states': r.distinct + (r2.distinct if r2 else 0), 'transitions': r.generated + (r2.generated if r2 else 0),
        'traces_validated_against_impl': len(groups) - len(bad_traces | set(drift)),
        'evaluations': len(scripts),
        'distinct_nontrivial': len({core.script_hash(s['steps']) + str(s.get('rmok')) for s in scripts if nontrivial(s)}),
        'rule': 'scripts = TLC simulation behaviours of Sim_BlockStore (K=4, <=14 headers, heights <=13 mapped to real heights '
                '0,1,500,999,1000,...,3001; erroring and lenient storage back end) + attack scripts; distinct by hash of '
                'the call sequence; non-trivial = contains a successful revert and a save or load',
        'samples': [{'id': s['id'], 'rmok': s.get('rmok'), 'steps': [[x['a'], x['t']] for x in s['steps']]} for s in scripts[:2] + scripts[-1:]],
        'trace_lines': len(lines), 'real_queries': len(lines) * 115,
        'max_model_height': max(l['obs']['h'] for l in lines),
        'conformance_rejections': len(rej_all), 'false_formula_instances': len(bad),
        'checker_cmd': 'tlc MC_BlockStore / Props_BlockStore / Trace_BlockStore',
        'exhaustive': False,
    }, assumptions=[
        'height map: model heights 4q+r are realised at real heights 1000q+{0,1,500,999}[r]; other real heights are only filled, never queried',
        'storage is tokenized/pkg/storage.MockStorage behind a recording wrapper; the lenient back end turns "remove of a missing key" into success',
        'header identity = block hash; time identity = timestamp; fresh headers only (no hash collisions)',
    ])
