"""C08 -- the subscription filter matches exactly subscribed push data and contract actions.

spec/FilterCases.tla is the declarative specification (token sequences with at most one malformed tail, bag of subscribed hashes, raw/hash
equivalence, contract flag and action output) and enumerates, with TLC, every case up to the bound with its expected verdict.
The harness realises each case as bytes (several encodings per token: direct push, PUSHDATA1/2/4, different opcodes, different truncations),
runs the real Subscribe/Unsubscribe calls and IsRelevant, and TLC (Props_Filter) compares the verdicts.
"""
import json
import os

from vf import core, pipeline, tlc


def main(argv):
    chk = core.Check('C08', 'model_checking', argv)
    thorough = chk.tier == 'thorough'
    d = chk.scratch(tlc.stage())
    if thorough:
        p = os.path.join(d, 'FilterCases.cfg')
        cfg = open(p).read().replace('MaxLen = 3', 'MaxLen = 4').replace('MaxWord = 3', 'MaxWord = 4')
        open(p, 'w').write(cfg)
    r = tlc.run(d, 'FilterCases', 'FilterCases.cfg', workers=1, timeout=2400, heap='16g')
    p = os.path.join(d, 'filter_cases.json')
    if not os.path.exists(p):
        chk.infra('FilterCases enumeration failed:\n' + r.stdout[-2000:])
    cases = json.load(open(p))
    chk.log('enumerate FilterCases: %d cases (%d expected relevant), %.1fs' % (len(cases), sum(1 for c in cases if c['expect']), r.wall))
    if chk.replay:
        cases = [json.load(open(chk.replay))['replay']['case']]
    encs = 4
    from concurrent.futures import ThreadPoolExecutor
    binp = pipeline.build(chk, 'spynode')
    nproc = 12
    chunks = [(i * len(cases) // nproc, (i + 1) * len(cases) // nproc) for i in range(nproc)]
    w = chk.scratch(tlc.scratch('vf-run-'))

    def one(k):
        a, b = chunks[k]
        sp, tp = os.path.join(w, 's%d.json' % k), os.path.join(w, 't%d.ndjson' % k)
        json.dump({'scripts': cases[a:b], 'encs': encs, 'base': a}, open(sp, 'w'))
        from vf import gobuild
        rc, out = gobuild.run_test(binp, 'TestVerifFilterCases', {'VERIF_SCRIPTS': sp, 'VERIF_TRACE': tp}, timeout=1800, cwd=w)
        return rc, out, tp
    with ThreadPoolExecutor(nproc) as ex:
        res = list(ex.map(one, range(nproc)))
    lines = []
    for rc, out, tp in res:
        if rc != 0:
            chk.infra('filter driver failed:\n' + out[-2000:])
        lines += [json.loads(x) for x in open(tp) if x.strip()]
    chk.log('ran %d realisations (%d encodings per case) through the real Subscribe/Unsubscribe/IsRelevant' % (len(lines), encs))
    for ln in lines:
        ln['tr'] = ln['id'] % 6
    out = pipeline.tlc_lines_parallel(chk, 'Props_Filter', 'Props_Filter.cfg', lines, 'props_result.json', 6, 1800)
    nbad = 0
    seen = set()
    for sel, rs, rr in out:
        for f, j in rs['bad']:
            ln = lines[sel[j - 1] - 1]
            nbad += 1
            c = cases[ln['id']] if not chk.replay else cases[0]
            key = (f, json.dumps(c['script']), json.dumps(c['word']))
            if key in seen:
                continue
            seen.add(key)
            chk.violation(f, 'case %d: script %s (%s position, bytes %s) after %s contracts=%s action=%s: filter says %s, specification says %s %s' % (
                ln['id'], [(t['k'], t['d']) for t in c['script']], c['pos'], ln['hex'], c['word'], c['contracts'], c['action'], ln['got'], ln['expect'],
                ('PANIC ' + ln['panic']) if ln['panic'] else ''), {'case': c}, {'line': ln})
    chk.finish({
        'states': len(cases), 'transitions': len(lines), 'traces_validated_against_impl': len(lines) - nbad,
        'evaluations': len(lines), 'distinct_nontrivial': sum(1 for c in cases if c['script'] and c['word']),
        'rule': 'cases = every token sequence of length <= %d (complete pushes of 6 data classes, small-integer opcodes, non-push opcodes, optional '
                'truncated / cut-off tail) in output and input position with 6 subscription words, every subscribe/unsubscribe word of length <= %d over '
                'raw/hash forms of two data with 6 scripts, and contract flag x action output; %d byte realisations each; non-trivial = non-empty '
                'script and non-empty subscription word' % (4 if thorough else 3, 4 if thorough else 3, encs),
        'samples': [cases[0], cases[len(cases) // 2], cases[-1]],
        'cases': len(cases), 'expected_relevant': sum(1 for c in cases if c['expect']), 'mismatches': nbad,
        'checker_cmd': 'tlc FilterCases / Props_Filter', 'exhaustive': True,
        'explanation': 'exhaustive over the abstract cases up to the bound; bytes per token are 4 representative encodings, not all',
    }, assumptions=[
        'a 20-byte push is, by the subscription convention, compared as a hash (not hashed again); RIPEMD160(SHA256) itself is trusted',
        'malformed tokens only as the tail of a script (a truncated push swallows what follows)',
    ])
