"""C01 -- the chain converges to the trusted peer's best chain; in-sync is notified only when caught up."""
from vf import core
from . import chainsync as cs

FORMULAS = {'NoPanic', 'Convergence', 'InSyncNotifyOK', 'SendHeadersInSync'}


def main(argv):
    chk = core.Check('C01', 'model_checking', argv)
    thorough = chk.tier == 'thorough'
    models = []
    # liveness of the model as the code is, in the calm environment (tip changes while the node is in sync and idle),
    # FIFO delivery, unbounded time-out reconnects, one process restart
    live = {'MaxRestart = 0': 'MaxRestart <- Unb', 'Calm = FALSE': 'Calm = TRUE', 'MaxTip = 1': 'MaxTip = 2', 'MaxPR = 0': 'MaxPR = 1'}
    if thorough:
        live['InitTips <- Tips134'] = 'InitTips <- TipsAll'
    models.append(('liveness-calm-as-is', cs.model(chk, 'Convergence, calm environment, code as it is', live, live=True)))
    # safety with the repair switches of the known findings on, racy environment
    safe = {'Fix <- CodeFix': 'Fix <- AllFix'}
    if thorough:
        safe.update({'MaxDup = 0': 'MaxDup = 1', 'Fifo = TRUE': 'Fifo = FALSE'})     # duplicates and reordering (0.5 M distinct states)
    models.append(('safety-racy-repaired', cs.model(chk, 'invariants, racy environment, known findings repaired', safe,
                                                   timeout=2400 if thorough else 600, heap='28g' if thorough else '16g')))
    if thorough:
        # two tip changes with duplicates, FIFO (two tip changes together with reordering did not finish in 15 min)
        models.append(('safety-two-tips', cs.model(chk, 'invariants, two tip changes with duplicates, known findings repaired',
                                                   {'Fix <- CodeFix': 'Fix <- AllFix', 'MaxDup = 0': 'MaxDup = 1', 'MaxTip = 1': 'MaxTip = 2'}, timeout=2400, heap='28g')))
    scripts = []
    for name, r in models:
        if r.violated:
            scripts.append(cs.cex_script(r, name))
    if chk.replay:
        import json
        scripts = [json.load(open(chk.replay))['replay']['script']]
    else:
        from vf import pipeline
        for a in pipeline.attack_scripts('C01', 'ChainSync'):
            scripts.append(dict(a, **{'complete': True, 'adv': False, 'env': 'attack', 'tree': a.get('tree', 'Par7'), 'ptip': a.get('ptip', 4)}))
        k = 4 if thorough else 1
        seed = chk.seed * 100
        scripts += cs.gen(chk, 'calm', 'Par7', 250 * k, 80, seed + 1)
        scripts += cs.gen(chk, 'racy', 'Par7', 150 * k, 80, seed + 2)
        scripts += cs.gen(chk, 'reorder', 'Par7', 100 * k, 80, seed + 3)
        scripts += cs.gen(chk, 'racy', 'Par7s1', 80 * k, 60, seed + 6)
        scripts += cs.gen(chk, 'calm', 'Par14', 60 * k, 140, seed + 4)
        scripts += cs.gen(chk, 'racy', 'Par14', 40 * k, 140, seed + 5)
    res = cs.run(chk, scripts, FORMULAS, models)
    for name, r in models:
        if r.violated and ('model-cex-%s' % name) not in res['bad_traces']:
            chk.notes.append('unreproduced model counterexample: %s (%s)' % (name, r.violated))
            chk.log('the model run %s reports %s but the replay of its counterexample on the real code does not violate it' % (name, r.violated))
            chk.infra('new unreproduced model counterexample')
    chk.finish({
        'states': sum(r.distinct for _, r in models), 'transitions': sum(r.generated for _, r in models),
        'traces_validated_against_impl': res['traces'] - len(res['drift']),
        'evaluations': len(scripts),
        'distinct_nontrivial': len({core.script_hash(s['steps']) for s in scripts if cs.nontrivial_reorg(s)}),
        'rule': 'scripts = TLC simulation behaviours of ChainSync (environments calm / racy FIFO / reordering+duplication, trees of 7 and 14 '
                'blocks with a fork, start block, time-out reconnects, process restarts) each driven to quiescence on the real node; '
                'distinct by hash of the action sequence; non-trivial = the peer\'s best chain changes during the run',
        'samples': [{'id': s['id'], 'ptip': s['ptip'], 'actions': [x['a'] for x in s['steps']][:40]} for s in scripts[:2] + scripts[-1:]],
        'trace_lines': res['lines'], 'conformance_rejections': res['rejected'], 'steps_not_enabled': res['skips'],
        'false_formula_instances': res['false_instances'],
        'models': [{'name': n, 'states': r.distinct, 'result': 'ok' if r.ok else r.violated} for n, r in models],
        'checker_cmd': 'tlc MC_ChainSync (safety + liveness) / Props_ChainSync / Trace_ChainSync',
        'exhaustive': False,
    }, assumptions=[
        'block tree fixed per configuration (7 blocks: chain 1-2-3-4, fork 2-5-6-7; 14 blocks: chain 1..12, fork 9-13-14)',
        'the processor is stepped at three points (NextBlock, tip check = IsMerkleRootValid gate, after ProcessBlock); handlers are atomic per message',
        'time-outs are fired by shifting the stored timestamps back 601 s when the system is quiet',
        'liveness is model-checked only in the calm environment; racy environments are covered by replay on the real code',
    ])
