"""C15 -- client wire messages round-trip exactly and preserve stream framing.

model    : TLC on MC_WireStream (Framing, PrefixFails, Clean) and the type table's ASSUME (codes and names one-to-one).
generate : every (type, value class) singleton with a Read and a Cut, plus tlc -simulate streams of several messages written
           back to back with reads and cuts interleaved.
replay   : harness/storage/wire_test.go: real Serialize / Deserialize (and SaveTxState / FetchTxState for the stored record) on a
           real byte stream; equality is structural and byte-for-byte after re-encoding; every strict prefix is decoded.
judge    : Props_WireStream, Props_WireTable.   conform : Trace_WireStream.
"""
import json
import os

from vf import core, gobuild, pipeline, tlaval, tlc

FORMULAS = {'RoundTrip', 'ExactConsumption', 'Framing', 'PrefixFails', 'Encodable', 'TableOneToOne', 'NoPanic'}
CODES = [0, 1, 11, 12, 13, 14, 15, 16, 17, 18, 19, 20, 30, 41, 42, 43, 44, 45, 46, 47, 48, 49, 51, 52, 53, 101, 110, 111, 112, 121, 122, 123, 124, 125, 200, 201, 301, 302]
CLASSES = ['zero', 'one', 'many', 'wide', 'max']


def main(argv):
    chk = core.Check('C15', 'model_checking', argv)
    thorough = chk.tier == 'thorough'
    ms = []
    if not os.environ.get('VERIF_SKIP_MODEL'):
        r = pipeline.model_check(chk, 'WireStream', 'MC_WireStream_quick.cfg', workers=12, timeout=1800, heap='16g',
                                 subst={'MaxMsgs = 3': 'MaxMsgs = 4'} if thorough else None)
        if not r.ok:
            chk.infra('model checking did not pass: %s %s\n%s' % (r.kind, r.violated, r.stdout[-1500:]))
        ms.append(r)
    # the type table
    binp = pipeline.build(chk, 'storage')
    w = chk.scratch(tlc.scratch('vf-run-'))
    tp = os.path.join(w, 'table.ndjson')
    rc, out = gobuild.run_test(binp, 'TestVerifWireTable', {'VERIF_TRACE': tp}, timeout=300, cwd=w)
    if rc != 0:
        chk.infra('type table driver failed:\n' + out[-1500:])
    d = chk.scratch(tlc.stage(extra_files={tp: 'impl.ndjson'}))
    r = tlc.run(d, 'Props_WireTable', 'Props_WireTable.cfg', workers=1, timeout=300)
    res = pipeline._result(d, 'props_result.json')
    if res is None:
        chk.infra('Props_WireTable did not finish:\n' + r.stdout[-2000:])
    rows = json.loads(open(tp).read())['rows']
    chk.log('type table: %d rows in the code, %d mismatches against the specification table' % (len(rows), len(res['bad'])))
    for f, i in res['bad'][:3]:
        chk.violation('TableOneToOne', 'type table row %s of the code does not match the specification one-to-one (rows: %s)' % (
            rows[i - 1] if i > 0 else 'count', [(x['code'], x['name'], x['payload']) for x in rows][:50]), {'rows': rows}, {'line': {}})
    if chk.replay:
        rp = json.load(open(chk.replay))['replay']
        scripts = [rp['script']] if 'script' in rp else []
    else:
        scripts = []
        for c in CODES:
            for cl in CLASSES:
                scripts.append({'id': 'single-%d-%s' % (c, cl), 'steps': [{'a': 'Write', 't': c, 'c': cl, 'n': 0, 'res': ''}, {'a': 'Read', 't': 0, 'c': '', 'n': 0, 'res': ''},
                                                                        {'a': 'Cut', 't': 0, 'c': '', 'n': 1, 'res': ''}]})
        for k in range(4 if thorough else 1):
            ss = pipeline.sim_scripts(chk, 'WireStream', 'Sim_WireStream.cfg', num=250, depth=20, seed=chk.seed * 100 + k, prefix='stream')
            scripts += [{'id': s['id'], 'steps': s['steps']} for s in ss]
    lines, tracefile = pipeline.replay_parallel(chk, 'storage', 'TestVerifWireStream', {}, scripts, nproc=8, timeout=2400)
    nbytes = sum(ln['act']['n'] for ln in lines if ln['act']['a'] == 'Write')
    ncuts = sum(ln.get('cases', 0) for ln in lines)
    chk.log('ran %d streams through the real encoders / decoders: %d trace lines, %d bytes written, %d strict prefixes decoded' % (len(scripts), len(lines), nbytes, ncuts))
    bad = pipeline.judge_parallel(chk, 'WireStream', lines, nproc=6)
    rej = pipeline.conform_parallel(chk, 'WireStream', lines, nproc=6)
    ids = {s['id']: s for s in scripts}
    groups = pipeline.by_trace(lines)
    seen = set()
    for f, l in sorted(bad, key=lambda x: x[1]):
        ln = lines[l - 1]
        if f not in FORMULAS or (ln['tr'], f) in seen:
            continue
        seen.add((ln['tr'], f))
        idx = groups[ln['tr']]
        i = idx.index(l)
        chk.violation(f, 'stream %s operation %d %s%s: written=%s read=%s position=%s equal=%s %s' % (
            ln['tr'], i, json.dumps(ln['act']), (' [' + ln['skip'] + ']') if ln['skip'] else '', [(m['t'], m['c'], m['n']) for m in ln['st']['w']], ln['st']['r'], ln['st']['pos'],
            ln['eq'], ln['detail'][:300]),
            {'script': {'id': ln['tr'], 'steps': ids[ln['tr']]['steps'][:i]}}, {'line': ln, 'trace': [lines[k - 1] for k in idx], 'i': i})
    drift = sorted({lines[l - 1]['tr'] for l in rej})
    if drift:
        chk.notes.append('conformance drift: %d rejected lines (streams %s)' % (len(rej), drift[:5]))
        chk.log('DRIFT: Trace_WireStream rejected %d lines (streams %s)' % (len(rej), drift[:5]))
    chk.finish({
        'states': sum(r.distinct for r in ms), 'transitions': sum(r.generated for r in ms),
        'traces_validated_against_impl': len(groups) - len(drift),
        'evaluations': len(scripts),
        'distinct_nontrivial': len({core.script_hash(s['steps']) for s in scripts if sum(1 for x in s['steps'] if x['a'] == 'Write') >= 2 and any(x['a'] == 'Read' for x in s['steps'])}),
        'rule': 'streams = every (type code, value class) singleton (37 message types + the stored transaction record, 5 classes placing list lengths, byte lengths and '
                'integers at the varint width boundaries and switching optional fields) with Read and Cut, plus TLC simulation behaviours of WireStream (up to 8 '
                'messages back to back, reads and cuts interleaved); non-trivial = at least two messages written and one read',
        'samples': [{'id': s['id'], 'steps': [[x['a'], x['t'], x['c'], x['n']] for x in s['steps']]} for s in scripts[:1] + scripts[-2:]],
        'trace_lines': len(lines), 'bytes_written': nbytes, 'strict_prefixes_decoded': ncuts, 'type_table_rows': len(rows),
        'conformance_rejections': len(rej), 'false_formula_instances': len([1 for f, _ in bad if f in FORMULAS]),
        'checker_cmd': 'tlc MC_WireStream / Props_WireStream / Props_WireTable / Trace_WireStream', 'exhaustive': False,
    }, assumptions=[
        'values are the five classes per type, not all representable values; equality does not distinguish a nil from an empty list',
        'prefixes: every strict prefix for encodings up to 3000 bytes, otherwise the first and last 1000 and every 97th in between',
        'keys and signatures are one valid key pair (invalid curve points are not representable values of the Go types)',
    ])
