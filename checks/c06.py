"""C06 -- a confirmed double spend cancels the losing unconfirmed transaction."""
from . import txpipeline as tp
FORMULAS = {'CancelOnConfirm', 'CancelWarranted', 'CancImpliesUnsafe', 'BlockDelivers', 'NoError', 'NoPanic', 'ProofValid'}
def main(argv):
    tp.standard('C06', FORMULAS,
                'scripts = TLC simulation behaviours of TxPipeline in which blocks confirm transactions that conflict with zero, one or two delivered '
                'unconfirmed transactions (confirming transaction relevant or not, seen before or not); non-trivial = a block is processed after a '
                'conflicting transaction was consumed',
                lambda s: tp.has(s, 'Block', 'ConsumeB'), argv)
