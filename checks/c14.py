"""C14 -- announced transactions are requested from one peer at a time, then re-requested."""
import json
from vf import core, pipeline, tlaval, tlc

FORMULAS = {'ConcurrentExclusive', 'ConcurrentAsked', 'Exclusive', 'NoneAfterBody', 'Rerequest', 'Forgotten', 'TrackedOrAsked', 'GroupUniform', 'NoPanic'}
BULK = 120      # more than the 100 entries TxTracker.Check puts into one getdata


def main(argv):
    chk = core.Check('C14', 'model_checking', argv)
    thorough = chk.tier == 'thorough'
    r = pipeline.model_check(chk, 'TxRequests', 'MC_TxRequests_quick.cfg', workers=14, timeout=2400 if thorough else 600, heap='24g',
                             subst={'MaxOps = 5': 'MaxOps = 6'} if thorough else None)
    scripts = []
    if r.violated and r.trace:
        scripts.append({'id': 'model-cex', 'steps': [tlaval.plain(s['state']['act']) for s in r.trace[1:]]})
    elif not r.ok:
        chk.infra('model checking did not complete:\n' + r.stdout[-2000:])
    if chk.replay:
        scripts = [json.load(open(chk.replay))['replay']['script']]
    else:
        scripts += pipeline.attack_scripts('C14', 'TxRequests')
        for k in range(4 if thorough else 1):
            scripts += pipeline.sim_scripts(chk, 'TxRequests', 'Sim_TxRequests.cfg', num=300, depth=34, seed=chk.seed * 100 + k)
    sl = [{'id': s['id'], 'steps': s['steps']} for s in scripts if not s.get('bulk')]
    lines = []
    if sl:
        lines, tracefile = pipeline.replay_parallel(chk, 'spynode', 'TestVerifReplayTxRequests', {'nt': 2, 'nc': 3}, sl, nproc=12)
    # the same histories at the code's scale: every txid of the specification stands for a group of BULK real transactions
    # (inventories, bodies and blocks carry the whole group); all members must be treated like the one txid of the specification
    if chk.replay:
        bl = [{'id': s['id'], 'steps': s['steps']} for s in scripts if s.get('bulk')]
    else:
        # histories in which a periodic check re-requests something come first: that is where batching happens
        rereq, prev = set(), None
        for ln in lines:
            if prev is not None and prev['tr'] == ln['tr'] and ln['act']['a'] == 'Check' and len(ln['st']['asked']) > len(prev['st']['asked']):
                rereq.add(ln['tr'])
            prev = ln
        pick = [s for s in scripts if s['id'] in rereq] + [s for s in scripts if s['id'] not in rereq]
        chk.log('%d of %d histories contain a re-request by a periodic check' % (len(rereq), len(scripts)))
        bl = [{'id': 'bulk-' + s['id'], 'steps': s['steps']} for s in pick[:(160 if thorough else 50)]]
        scripts += [dict(b, bulk=BULK) for b in bl]
    if bl:
        lines2, _ = pipeline.replay_parallel(chk, 'spynode', 'TestVerifReplayTxRequests', {'nt': 2, 'nc': 3, 'bulk': BULK}, bl, nproc=12)
        chk.log('replayed %d scripts with groups of %d transactions per txid: %d trace lines' % (len(bl), BULK, len(lines2)))
        lines += lines2
    nasks = sum(len(l['st']['asked']) for l in lines if l is lines[-1] or True) and sum(len(lines[i]['st']['asked']) for i in range(len(lines)) if i + 1 == len(lines) or lines[i + 1]['tr'] != lines[i]['tr'])
    chk.log('replayed %d scripts on the real handlers/trackers/mempool: %d trace lines, %d getdata requests observed' % (len(scripts), len(lines), nasks))
    bad = pipeline.judge_parallel(chk, 'TxRequests', lines, nproc=6)
    rej = pipeline.conform_parallel(chk, 'TxRequests', lines, nproc=6)
    ids = {s['id']: s for s in scripts}
    groups = pipeline.by_trace(lines)
    seen = set()
    for f, l in sorted(bad, key=lambda x: x[1]):
        ln = lines[l - 1]
        if f not in FORMULAS or (ln['tr'], f) in seen:
            continue
        seen.add((ln['tr'], f))
        first = groups[ln['tr']][0]
        chk.violation(f, 'trace %s step %d after %s%s: asked=%s trackers=%s reqAt=%s body=%s clock=%s' % (
            ln['tr'], l - first, ln['act'], (' [' + ln['skip'] + ']') if ln['skip'] else '', [(a['c'], a['t'], a['at'], a['had']) for a in ln['st']['asked']],
            ln['st']['trk'], ln['st']['reqAt'], ln['st']['body'], ln['st']['clock']),
            {'script': {'id': ln['tr'], 'steps': ids[ln['tr']]['steps'][:l - first], 'bulk': ids[ln['tr']].get('bulk', 0)}}, {'line': ln})
    drift = sorted({lines[l - 1]['tr'] for l in rej})
    if drift:
        chk.notes.append('conformance drift: %d rejected lines (traces %s)' % (len(rej), drift[:5]))
        chk.log('DRIFT: Trace_TxRequests rejected %d lines (traces %s)' % (len(rej), drift[:5]))
        l = rej[0]
        chk.log('  rejected: %s skip=%r\n     before %s\n     after  %s' % (lines[l - 1]['act'], lines[l - 1]['skip'], json.dumps(lines[l - 2]['st']), json.dumps(lines[l - 1]['st'])))
    burst = {}
    if not chk.replay:
        # the atomicity assumption of the model, on the real code: simultaneous announcements / periodic checks on all connections
        bs = [{'id': 'burst-%d-%d' % (chk.seed, i), 'rounds': 12 if thorough else 6} for i in range(28 if thorough else 14)]
        bl2, _ = pipeline.replay_parallel(chk, 'spynode', 'TestVerifTxBurst', {'nc': 3, 'k': 150}, bs, nproc=14)
        nb = 0
        for sel, rs, r2 in pipeline.tlc_lines_parallel(chk, 'Props_TxBurst', 'Props_TxBurst.cfg', bl2, 'props_result.json', 2, 600):
            for f, j in rs['bad']:
                ln = bl2[sel[j - 1] - 1]
                nb += 1
                if (ln['tr'], f) in seen:
                    continue
                seen.add((ln['tr'], f))
                chk.violation(f, 'concurrent scenario %s round %d %s on 3 connections at once: of %d announced transactions %d requested once, %d not at all; %d transactions requested '
                              'more than once (%d getdata entries)' % (ln['tr'], ln['st']['round'], ln['act']['a'], ln['st']['k'], ln['st']['once'], ln['st']['none'],
                                                                       ln['st']['multi'], ln['st']['asks']), {'burst': {'rounds': ln['st']['round']}}, {'line': ln})
        burst = {'scenarios': len(bs), 'phases': len(bl2), 'transactions': sum(l['st']['k'] for l in bl2 if l['act']['a'] == 'InvAll'),
                 'getdata_entries': sum(l['st']['asks'] for l in bl2), 'false_instances': nb}
        chk.log('concurrent announcements / checks on 3 real connections: %d scenarios, %d phases, %d getdata entries, %d false' % (
            len(bs), len(bl2), burst['getdata_entries'], nb))
    chk.finish({
        'concurrent_batch': burst,
        'states': r.distinct, 'transitions': r.generated,
        'traces_validated_against_impl': len(groups) - len(drift),
        'evaluations': len(scripts),
        'distinct_nontrivial': len({core.script_hash(s['steps']) for s in scripts
                                    if len({x['c'] for x in s['steps'] if x['a'] == 'Inv'}) >= 2 and any(x['a'] == 'Check' for x in s['steps'])}),
        'rule': 'scripts = TLC simulation behaviours of TxRequests (2 txids, trusted + 2 untrusted connections realised as real UntrustedNode objects; '
                'inventories, bodies, periodic checks, confirmations, 2 s clock ticks by timestamp shifting); non-trivial = inventories from at '
                'least two connections and a periodic check',
        'samples': [{'id': s['id'], 'steps': [[x['a'], x['c'], x['t']] for x in s['steps']]} for s in scripts[:2] + scripts[-1:]],
        'trace_lines': len(lines), 'getdata_requests_observed': nasks, 'conformance_rejections': len(rej),
        'false_formula_instances': len(bad), 'checker_cmd': 'tlc MC_TxRequests / Props_TxRequests / Trace_TxRequests', 'exhaustive': False,
    }, assumptions=[
        'one model tick = 2 s (timestamps shifted); the 3 s window is over after 2 ticks',
        'connection goroutines are stepped sequentially (the concurrent variant is listed in DESIGN.md as future work)',
        'Confirm(t) performs the mempool removal and CleanupBlock of ProcessBlock for one transaction',
    ])
