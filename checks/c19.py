"""C19 -- Stop always terminates the node, persists its state and silences handlers.

model    : TLC on MC_NodeLifecycle (invariants SavedAtStop, SavedAtRestart, StopReturns; step properties).
generate : tlc -simulate of Sim_NodeLifecycle (Stop held back for 0 / 4 / 8 / 12 steps) plus directed scenarios that stop the node
           at every protocol phase observable at the peer.
replay   : harness/spynode/lifecycle_test.go runs the real Node.Run() with all its goroutines against a scripted Bitcoin peer
           on a loop-back socket (real TCP: accept, close, reset), holds a handler call-back to stop in the middle of a block,
           records the phase hooks of the run loop, how long Stop took, every call-back after Stop returned and what a fresh
           process loads from storage.
judge    : Props_NodeLifecycle.   conform : Trace_NodeLifecycle.
"""
import json
import os

from vf import core, pipeline, tlaval, tlc

FORMULAS = {'StopTerminates', 'SavedAtStop', 'SavedAtRestart', 'SilentAfterStop', 'ResumeFromTip', 'NoReannounce', 'PhaseOrder', 'FeedSafe', 'NoPanic'}

SYNC = [('Accept', 0, ''), ('Version', 0, ''), ('Headers', 2, ''), ('Block', 0, ''), ('Block', 0, ''), ('Headers', 0, '')]
DIRECTED = [
    ('stop-while-connecting', [('Stop', 0, '')]),
    ('stop-before-handshake', [('Accept', 0, ''), ('Stop', 0, '')]),
    ('stop-after-handshake', [('Accept', 0, ''), ('Version', 0, ''), ('Stop', 0, '')]),
    ('stop-during-header-sync', [('Accept', 0, ''), ('Version', 0, ''), ('Headers', 2, ''), ('Stop', 0, '')]),
    ('stop-during-block-download', [('Accept', 0, ''), ('Version', 0, ''), ('Headers', 2, ''), ('Headers', 2, ''), ('Block', 0, ''), ('Stop', 0, '')]),
    ('stop-mid-block', [('Accept', 0, ''), ('Version', 0, ''), ('Headers', 2, ''), ('Block', 0, ''), ('Block', 0, 'gate'), ('Stop', 0, ''), ('Release', 0, '')]),
    ('stop-mid-block-in-sync', SYNC + [('Headers', 1, ''), ('Block', 0, 'gate'), ('Stop', 0, ''), ('Release', 0, '')]),
    ('stop-in-sync', SYNC + [('Stop', 0, '')]),
    ('stop-with-tx-traffic', SYNC + [('Tx', 0, ''), ('Tx', 0, ''), ('Stop', 0, '')]),
    ('stop-while-reconnecting', SYNC + [('Tx', 0, ''), ('Close', 0, 'fin'), ('Stop', 0, '')]),
    ('stop-after-reset', SYNC + [('Close', 0, 'rst'), ('Accept', 0, ''), ('Stop', 0, '')]),
    ('resume-after-close', SYNC + [('Tx', 0, ''), ('Close', 0, 'fin'), ('Accept', 0, ''), ('Version', 0, ''), ('Headers', 2, ''), ('Block', 0, ''), ('Block', 0, ''),
                            ('Headers', 0, ''), ('Tx', 0, ''), ('Close', 0, 'rst'), ('Accept', 0, ''), ('Version', 0, ''), ('Headers', 0, ''), ('Stop', 0, '')]),
    ('close-mid-block', [('Accept', 0, ''), ('Version', 0, ''), ('Headers', 2, ''), ('Block', 0, 'gate'), ('Close', 0, 'fin'), ('Release', 0, ''),
                         ('Accept', 0, ''), ('Version', 0, ''), ('Headers', 1, ''), ('Block', 0, ''), ('Stop', 0, '')]),
    # a thread of the application keeps submitting transactions (Node.HandleTx) while a call-back is held: the channel is full and
    # the submitting call is blocked when the shutdown wants to close the channel
    ('feed-then-stop', SYNC + [('Headers', 1, ''), ('Block', 0, 'gate'), ('Feed', 0, ''), ('Stop', 0, ''), ('Release', 0, '')]),
    ('feed-then-stop-syncing', [('Accept', 0, ''), ('Version', 0, ''), ('Headers', 2, ''), ('Block', 0, 'gate'), ('Feed', 0, ''), ('Stop', 0, ''), ('Release', 0, '')]),
    ('feed-then-close', SYNC + [('Headers', 1, ''), ('Block', 0, 'gate'), ('Feed', 0, ''), ('Close', 0, 'fin'), ('Release', 0, ''), ('Accept', 0, ''), ('Version', 0, ''),
                                ('Headers', 0, ''), ('Stop', 0, '')]),
    ('feed-released-then-stop', SYNC + [('Headers', 1, ''), ('Block', 0, 'gate'), ('Feed', 0, ''), ('Release', 0, ''), ('Tx', 0, ''), ('Stop', 0, '')]),
    ('close-mid-block-then-stop', [('Accept', 0, ''), ('Version', 0, ''), ('Headers', 2, ''), ('Block', 0, 'gate'), ('Close', 0, 'rst'), ('Stop', 0, ''), ('Release', 0, '')]),
]


def main(argv):
    chk = core.Check('C19', 'model_checking', argv)
    thorough = chk.tier == 'thorough'
    ms = []
    if not os.environ.get('VERIF_SKIP_MODEL'):
        r = pipeline.model_check(chk, 'NodeLifecycle', 'MC_NodeLifecycle_quick.cfg', workers=12, timeout=1800, heap='16g',
                                 subst={'MaxSteps = 12': 'MaxSteps = 18', 'NB = 3': 'NB = 4'} if thorough else None)
        if not r.ok:
            if r.trace:
                chk.log('model counterexample: %s' % [tlaval.plain(x['state'].get('act')) for x in r.trace])
            chk.infra('model checking did not pass: %s %s\n%s' % (r.kind, r.violated, r.stdout[-1500:]))
        ms.append(r)
    if chk.replay:
        scripts = [json.load(open(chk.replay))['replay']['script']]
    else:
        scripts = [{'id': 'directed-' + n, 'steps': [{'a': a, 'n': k, 'k': g} for a, k, g in st]} for n, st in DIRECTED]
        for after in (0, 4, 8, 12):
            for k in range(3 if thorough else 1):
                ss = pipeline.sim_scripts(chk, 'NodeLifecycle', 'Sim_NodeLifecycle.cfg', num=(40 if after else 25), depth=19, seed=chk.seed * 100 + after * 10 + k,
                                          prefix='sim-stop%d' % after, subst={'StopAfter = 0': 'StopAfter = %d' % after})
                scripts += [{'id': s['id'], 'steps': s['steps']} for s in ss]
    lines, tracefile = pipeline.replay_parallel(chk, 'spynode', 'TestVerifReplayNodeLifecycle', {'nb': 4}, scripts, nproc=12, timeout=2400)
    chk.log('ran %d scenarios against the real node (Run with all goroutines, loop-back peer): %d trace lines' % (len(scripts), len(lines)))
    bad = pipeline.judge_parallel(chk, 'NodeLifecycle', lines, nproc=6)
    rej = pipeline.conform_parallel(chk, 'NodeLifecycle', lines, nproc=6)
    ids = {s['id']: s for s in scripts}
    groups = pipeline.by_trace(lines)
    seen = set()
    for f, l in sorted(bad, key=lambda x: x[1]):
        ln = lines[l - 1]
        if f not in FORMULAS or (ln['tr'], f) in seen:
            continue
        seen.add((ln['tr'], f))
        first = groups[ln['tr']][0]
        st = ln['st']
        chk.violation(f, 'scenario %s step %d %s%s: run=%s epoch=%s done=%s ntx=%s gate=%s stopRet=%s stopMs=%s phases=%s saved=%s locTop=%s callbacksAfterStop=%s announced=%s peers=%s' % (
            ln['tr'], l - first, json.dumps(ln['act']), (' [' + ln['skip'] + ']') if ln['skip'] else '', st['run'], st['epoch'], st['done'], st['ntx'], st['gate'],
            st['stopRet'], st['stopMs'], st['phases'], st['saved'], st['locTop'], st['cbAfter'], st['hdrs'], st['peers']),
            {'script': {'id': ln['tr'], 'steps': ids[ln['tr']]['steps'][:l - first]}}, {'line': ln, 'prev': lines[l - 2]['st'] if l - first > 0 else st})
    drift = sorted({lines[l - 1]['tr'] for l in rej})
    skips = sum(1 for ln in lines if ln.get('skip'))
    if drift or skips:
        chk.notes.append('conformance drift: %d rejected lines (scenarios %s), %d steps not enabled / timed out' % (len(rej), drift[:5], skips))
        chk.log('DRIFT: Trace_NodeLifecycle rejected %d lines (scenarios %s); %d steps not enabled / timed out' % (len(rej), drift[:5], skips))
        for l in rej[:3]:
            chk.log('  rejected: %s %s skip=%r\n     before %s\n     after  %s' % (lines[l - 1]['tr'], lines[l - 1]['act'], lines[l - 1]['skip'],
                                                                                  json.dumps(lines[l - 2]['st']), json.dumps(lines[l - 1]['st'])))
        for ln in lines:
            if ln.get('skip'):
                chk.log('  step problem: %s %s: %s' % (ln['tr'], ln['act'], ln['skip']))
                break
    stops = [ln['st']['stopMs'] for ln in lines if ln['act']['a'] in ('Stop', 'Release') and ln['st']['stopRet']]
    chk.finish({
        'states': sum(r.distinct for r in ms), 'transitions': sum(r.generated for r in ms),
        'traces_validated_against_impl': len(groups) - len(drift),
        'evaluations': len(scripts),
        'distinct_nontrivial': len({core.script_hash(s['steps']) for s in scripts if any(x['a'] == 'Version' for x in s['steps']) and any(x['a'] == 'Stop' for x in s['steps'])}),
        'rule': 'scenarios = TLC simulation behaviours of NodeLifecycle (accept, version, headers, blocks incl. a held handler call-back, relevant txs, '
                'connection close / reset, Stop held back 0/4/8/12 steps) + %d directed scenarios stopping at every protocol phase; non-trivial = the '
                'handshake completed and Stop was called' % len(DIRECTED),
        'samples': [{'id': s['id'], 'steps': [[x['a'], x['n'], x['k']] for x in s['steps']]} for s in scripts[:2] + scripts[-1:]],
        'trace_lines': len(lines), 'conformance_rejections': len(rej), 'false_formula_instances': len([1 for f, _ in bad if f in FORMULAS]),
        'stops_observed': len(stops), 'stop_ms_max': max(stops) if stops else None, 'stop_bound_ms': 5000,
        'checker_cmd': 'tlc MC_NodeLifecycle / Props_NodeLifecycle / Trace_NodeLifecycle', 'exhaustive': False,
    }, assumptions=[
        'no untrusted peers are configured (UntrustedCount = 0); a silent peer (request time-outs of minutes) is not scripted',
        'the middle of a block is reached by holding the HandleHeaders call-back inside ProcessBlock; the time Stop takes is then counted from the release',
        'the goroutines of a connection are assumed to have started before a stop is requested (the counters are incremented inside the goroutines)',
        'each harness process uses its own loop-back address 127.x.y.z:18333 derived from its pid',
    ])
