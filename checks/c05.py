"""C05 -- conflicting unconfirmed transactions are flagged as double spends."""
from . import txpipeline as tp
FORMULAS = {'IndexExact', 'ConflictsFlagged', 'NoFalseFlag', 'StickyUnsafe', 'NoError', 'NoPanic'}
def main(argv):
    tp.standard('C05', FORMULAS,
                'scripts = TLC simulation behaviours of TxPipeline over universes with a 2-way and a 3-way conflict on one outpoint and a partial '
                'overlap over two outpoints, all arrival orders and sources, confirmations and evictions in between; the real mempool outpoint '
                'index is projected after every step; non-trivial = two conflicting transactions are both consumed',
                lambda s: len({x['t'] for x in s['steps'] if x['a'] == 'ConsumeB' and x['t'] in (1, 2, 3)}) >= 2, argv)
