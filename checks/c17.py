"""C17 -- the remote client delivers tx notifications in message-id order exactly once."""
from vf import core
from . import remoteclient as rc

FORMULAS = {'CountedAreDelivered', 'NotifyInOrder', 'ReadySetsNext', 'NotifyAllInOrder', 'BurstInOrder', 'FromDeclaredId', 'ResumePointSurvives', 'NothingElseDelivered', 'HandlersAgree', 'NoPanic'}


HQ_DIRECTED = [
    # notifications pile up behind a held handler call, the connection is lost, the new connection's accept must wait its turn
    ('backlog-then-reconnect', [('Accept', 0, ''), ('Ready', 1, ''), ('Hold', 0, ''), ('Notify', 1, 'tx'), ('Notify', 2, 'tx'), ('Notify', 3, 'upd'), ('Notify', 9, 'hdrs'),
                                ('Drop', 0, ''), ('Accept', 0, ''), ('Notify', 4, 'tx'), ('Release', 0, ''), ('Ready', 5, ''), ('Notify', 5, 'upd')]),
    ('backlog-two-reconnects', [('Accept', 0, ''), ('Ready', 1, ''), ('Notify', 1, 'tx'), ('Hold', 0, ''), ('Notify', 2, 'upd'), ('Notify', 3, 'tx'), ('Drop', 0, ''),
                                ('Accept', 0, ''), ('Drop', 0, ''), ('Accept', 0, ''), ('Notify', 7, 'hdrs'), ('Release', 0, ''), ('Notify', 4, 'tx')]),
    ('held-before-accept', [('Hold', 0, ''), ('Notify', 8, 'hdrs'), ('Accept', 0, ''), ('Notify', 1, 'tx'), ('Release', 0, ''), ('Ready', 2, ''), ('Notify', 2, 'tx')]),
]


STALL = [('stall-behind-full-queue', [('Accept', 0, 'valid'), ('Hold', 0, ''), ('Notify', 0, 'tip'), ('Flood', 0, ''), ('Notify', 1, 'tx'), ('Notify', 2, 'upd'),
                                       ('Stall', 0, ''), ('Release', 0, '')]),
         ('stall-free-control', [('Accept', 0, 'valid'), ('Hold', 0, ''), ('Notify', 0, 'tip'), ('Flood', 0, ''), ('Notify', 1, 'tx'), ('Notify', 2, 'upd'),
                                 ('Release', 0, '')])]


def backlog_stall(chk):
    """spec/ReceiveBacklog.tla, action Stall: the application stays in a handler call for longer than the message channel time-out with a
    full handler queue; what the message loop examines meanwhile is counted (next message id) and dropped (F43)."""
    import json
    from vf import pipeline
    import os
    if not os.environ.get('VERIF_SKIP_MODEL'):
        m = pipeline.model_check(chk, 'ReceiveBacklog', 'MC_ReceiveBacklog_stall.cfg', workers=8, timeout=900, heap='8g')
        if not m.ok:
            chk.infra('model checking ReceiveBacklog (SpecStall) did not pass: %s %s' % (m.kind, m.violated))
    scripts = [{'id': n, 'steps': [{'a': a, 'k': k, 'kind': kind} for a, k, kind in st]} for n, st in STALL]
    lines, _ = pipeline.replay_parallel(chk, 'client', 'TestVerifBacklogStall', {}, scripts, nproc=2)
    n = 0
    rej = []
    for sel, rs, r in pipeline.tlc_lines_parallel(chk, 'Trace_ReceiveBacklog', 'Trace_ReceiveBacklog.cfg', lines, 'trace_result.json', 1, 600):
        rej += [sel[j - 1] for j in rs['rej']]
    if rej:
        l = rej[0]
        chk.notes.append('BacklogStall conformance drift: %d rejected lines' % len(rej))
        chk.log('DRIFT: Trace_ReceiveBacklog rejected %d stall steps; first: %s\n     before %s\n     after  %s' % (
            len(rej), lines[l - 1]['act'], json.dumps(lines[l - 2]['st']), json.dumps(lines[l - 1]['st'])))
    for sel, rs, r in pipeline.tlc_lines_parallel(chk, 'Props_ReceiveBacklog', 'Props_ReceiveBacklog.cfg', lines, 'props_result.json', 1, 600):
        for f, j in rs['bad']:
            if f != 'CountedAreDelivered':
                continue
            ln = lines[sel[j - 1] - 1]
            n += 1
            chk.violation(f, 'scenario %s: after the application caught up the next message id is %d but the handlers saw only %s' % (
                ln['tr'], ln['st']['nextId'], [(d['k'], d['id']) for d in ln['st']['deliv']]),
                {'script': {'id': ln['tr'], 'module': 'BacklogStall', 'steps': [s for s in scripts if s['id'] == ln['tr']][0]['steps']}}, {'line': ln})
    chk.log('message-channel time-out behind a full handler queue: %d scenarios, %d lines, CountedAreDelivered false %d time(s)' % (len(scripts), len(lines), n))
    return {'stall_batch': {'scenarios': len(scripts), 'lines': len(lines), 'false_instances': n, 'rejected': len(rej)}}


def handler_queue(chk, thorough):
    """C17 with a slow application (spec/HandlerQueue.tla): a handler call is held, notifications and the accept of a new connection
    pile up; the handler must see everything in the order the service sent it."""
    import json
    import os
    from vf import pipeline
    m = None
    if not os.environ.get('VERIF_SKIP_MODEL'):
        m = pipeline.model_check(chk, 'HandlerQueue', 'MC_HandlerQueue_quick.cfg', workers=12, timeout=1500, heap='16g',
                                 subst={'MaxSteps = 6': 'MaxSteps = 7'} if thorough else None)
        if not m.ok:
            chk.infra('model checking HandlerQueue did not pass: %s %s' % (m.kind, m.violated))
    scripts = []
    for k in range(3 if thorough else 1):
        ss = pipeline.sim_scripts(chk, 'HandlerQueue', 'Sim_HandlerQueue.cfg', num=60, depth=24, seed=chk.seed * 100 + 71 + k, prefix='hq')
        scripts += [{'id': s['id'], 'steps': s['steps']} for s in ss]
    scripts += [{'id': 'directed-' + n, 'steps': [{'a': a, 'k': k2, 'kind': kind} for a, k2, kind in st]} for n, st in HQ_DIRECTED]
    lines, _ = pipeline.replay_parallel(chk, 'client', 'TestVerifReplayHandlerQueue', {}, scripts, nproc=12)
    chk.log('replayed %d slow-handler scenarios on the real client: %d trace lines' % (len(scripts), len(lines)))
    bad, rej = [], []
    for sel, rs, r in pipeline.tlc_lines_parallel(chk, 'Props_HandlerQueue', 'Props_HandlerQueue.cfg', lines, 'props_result.json', 4, 900):
        bad += [(f, sel[j - 1]) for f, j in rs['bad']]
    for sel, rs, r in pipeline.tlc_lines_parallel(chk, 'Trace_HandlerQueue', 'Trace_HandlerQueue.cfg', lines, 'trace_result.json', 4, 900):
        rej += [sel[j - 1] for j in rs['rej']]
    ids = {s['id']: s for s in scripts}
    seen = set()
    for f, l in sorted(bad, key=lambda x: x[1]):
        ln = lines[l - 1]
        if (ln['tr'], f) in seen:
            continue
        seen.add((ln['tr'], f))
        idx = [k for k, x in enumerate(lines) if x['tr'] == ln['tr']]
        i = idx.index(l - 1)
        chk.violation(f, 'slow-handler scenario %s step %d %s: the handler saw (kind, id, send number) %s; queued %d; accepted=%s nextId=%s' % (
            ln['tr'], i, json.dumps(ln['act']), [(d['k'], d['id'], d['n']) for d in ln['st']['deliv']], ln['st']['hq'], ln['st']['acc'], ln['st']['nextId']),
            {'script': {'id': ln['tr'], 'module': 'HandlerQueue', 'steps': ids[ln['tr']]['steps'][:i]}}, {'line': ln})
    drift = sorted({lines[l - 1]['tr'] for l in rej})
    if drift:
        chk.notes.append('HandlerQueue conformance drift: %d rejected lines (scenarios %s)' % (len(rej), drift[:5]))
        chk.log('DRIFT: Trace_HandlerQueue rejected %d recorded steps (scenarios %s)' % (len(rej), drift[:5]))
        l = rej[0]
        chk.log('  rejected: %s skip=%r\n     before %s\n     after  %s' % (lines[l - 1]['act'], lines[l - 1]['skip'], json.dumps(lines[l - 2]['st']), json.dumps(lines[l - 1]['st'])))
    stall = backlog_stall(chk)
    return {'stall_batch': stall['stall_batch'], 'slow_handler_batch': {'scenarios': len(scripts), 'lines': len(lines), 'rejected': len(rej), 'false_instances': len(bad),
                                   'model_states': m.distinct if m else 0}}


def main(argv):
    chk = core.Check('C17', 'model_checking', argv)
    if chk.replay:
        import json
        rp = json.load(open(chk.replay))['replay'].get('script', {})
        if rp.get('module') == 'HandlerQueue':
            from vf import pipeline
            lines, _ = pipeline.replay_parallel(chk, 'client', 'TestVerifReplayHandlerQueue', {}, [{'id': rp['id'], 'steps': rp['steps']}], nproc=1)
            for sel, rs, r in pipeline.tlc_lines_parallel(chk, 'Props_HandlerQueue', 'Props_HandlerQueue.cfg', lines, 'props_result.json', 1, 600):
                for f, j in rs['bad']:
                    chk.violation(f, 'slow-handler scenario %s: %s' % (rp['id'], lines[sel[j - 1] - 1]['st']['deliv']), {'script': rp}, {})
            chk.finish({'states': 0, 'transitions': 0, 'traces_validated_against_impl': 1, 'evaluations': 1, 'distinct_nontrivial': 1,
                        'rule': 'replay of one slow-handler scenario', 'samples': [rp], 'checker_cmd': 'tlc Props_HandlerQueue', 'exhaustive': False})
            return
    rc.standard(chk, FORMULAS,
                lambda s: sum(1 for x in s['steps'] if x['a'] == 'Notify' and x['kind'] in ('tx', 'upd')) >= 2 and rc.has(s, 'Accept'),
                'scenarios = TLC simulation behaviours of RemoteClient (3 call slots, keys 1..3, notification ids 1..5 incl. repeated, skipped and '
                'out-of-order ids, drops and re-declared Ready at any point, both connection types) + directed scenarios; non-trivial = at least two '
                'tx/update notifications on an accepted connection',
                ['the service is one scripted loop-back peer; two handlers are registered',
                 'a marker message that passed the routing and handler goroutines separates the steps (no wall-clock ordering)'],
                extra=handler_queue)
