"""C17 -- the remote client delivers tx notifications in message-id order exactly once."""
from vf import core
from . import remoteclient as rc

FORMULAS = {'NotifyInOrder', 'ReadySetsNext', 'NotifyAllInOrder', 'BurstInOrder', 'FromDeclaredId', 'ResumePointSurvives', 'NothingElseDelivered', 'HandlersAgree', 'NoPanic'}


def main(argv):
    chk = core.Check('C17', 'model_checking', argv)
    rc.standard(chk, FORMULAS,
                lambda s: sum(1 for x in s['steps'] if x['a'] == 'Notify' and x['kind'] in ('tx', 'upd')) >= 2 and rc.has(s, 'Accept'),
                'scenarios = TLC simulation behaviours of RemoteClient (3 call slots, keys 1..3, notification ids 1..5 incl. repeated, skipped and '
                'out-of-order ids, drops and re-declared Ready at any point, both connection types) + directed scenarios; non-trivial = at least two '
                'tx/update notifications on an accepted connection',
                ['the service is one scripted loop-back peer; two handlers are registered',
                 'a marker message that passed the routing and handler goroutines separates the steps (no wall-clock ordering)'])
